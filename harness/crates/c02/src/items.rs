//! The sequence of pushes the dense generator performs for a tree, written as a SECOND
//! transcription of `src/generator/dense.rs` (function by function, same order), for the
//! fragment of the syntax the C02 model covers.  `Err` = outside the fragment.
//!
//! The check feeds this list to the Coq model of the push automaton (`Model/DenseGen.v`) and
//! compares the text with what the real `DenseLuaGenerator` wrote, byte for byte; a wrong
//! transcription here shows up as a mismatch there.

use darklua_core::nodes::*;
use darklua_core::verif_hooks::c02::expression_starts_with_table;
use darklua_core::verif_hooks::generator_utils as utils;

#[derive(Clone, Debug, PartialEq, Eq)]
pub enum Mode {
    Str,
    Break(u8), // 0 concat, 1 varargs, 2 minus, 3 equal, 4 long string
    Raw,
    NlRaw(usize),
    Merge,
    Space,
}

pub const CONCAT: u8 = 0;
pub const VARARGS: u8 = 1;
pub const MINUS: u8 = 2;
pub const EQUAL: u8 = 3;
pub const LONG_STRING: u8 = 4;

pub type Item = (Mode, Vec<u8>);
type R = Result<(), String>;

#[derive(Default)]
pub struct Walker {
    pub items: Vec<Item>,
}

impl Walker {
    fn push_str(&mut self, s: &str) {
        // dense.rs push_str does nothing for an empty content
        if !s.is_empty() {
            self.items.push((Mode::Str, s.as_bytes().to_vec()));
        }
    }
    fn push_char(&mut self, c: char) {
        self.items.push((Mode::Str, c.to_string().into_bytes()));
    }
    fn push_break(&mut self, s: &str, p: u8) {
        self.items.push((Mode::Break(p), s.as_bytes().to_vec()));
    }
    fn raw(&mut self, s: &str) {
        self.items.push((Mode::Raw, s.as_bytes().to_vec()));
    }
    fn nl_raw(&mut self, n: usize, s: &str) {
        self.items.push((Mode::NlRaw(n), s.as_bytes().to_vec()));
    }
    fn merge(&mut self, c: char) {
        self.items.push((Mode::Merge, c.to_string().into_bytes()));
    }
    fn space(&mut self) {
        self.items.push((Mode::Space, Vec::new()));
    }

    // ---- blocks and statements -------------------------------------------------------

    pub fn write_block(&mut self, block: &Block) -> R {
        let mut statements = block.iter_statements().peekable();
        while let Some(statement) = statements.next() {
            self.write_statement(statement)?;
            if let Some(next_statement) = statements.peek() {
                if utils::starts_with_parenthese(next_statement) && utils::ends_with_prefix(statement)
                {
                    self.push_char(';');
                }
            }
        }
        if let Some(last) = block.get_last_statement() {
            self.write_last_statement(last)?;
        }
        Ok(())
    }

    fn write_statement(&mut self, statement: &Statement) -> R {
        match statement {
            Statement::Assign(assign) => {
                let variables = assign.get_variables();
                let last = variables.len().saturating_sub(1);
                for (i, variable) in variables.iter().enumerate() {
                    self.write_variable(variable)?;
                    if i != last {
                        self.push_char(',');
                    }
                }
                self.push_break("=", EQUAL);
                let last = assign.values_len().saturating_sub(1);
                for (i, value) in assign.iter_values().enumerate() {
                    self.write_expression(value)?;
                    if i != last {
                        self.push_char(',');
                    }
                }
                Ok(())
            }
            Statement::Do(do_statement) => {
                self.push_str("do");
                self.write_block(do_statement.get_block())?;
                self.push_str("end");
                Ok(())
            }
            Statement::Call(call) => self.write_function_call(call),
            Statement::CompoundAssign(assign) => {
                self.write_variable(assign.get_variable())?;
                self.push_str(assign.get_operator().to_str());
                self.write_expression(assign.get_value())
            }
            Statement::Function(function) => {
                if !function.attributes().is_empty()
                    || function.get_generic_parameters().is_some()
                    || function.get_return_type().is_some()
                    || function.get_variadic_type().is_some()
                {
                    return Err("function statement with attributes/generics/types".into());
                }
                self.push_str("function");
                let name = function.get_name();
                self.push_str(name.get_name().get_name());
                for field in name.get_field_names() {
                    self.nl_raw(1, ".");
                    self.push_str(field.get_name());
                }
                if let Some(method) = name.get_method() {
                    self.push_char(':');
                    self.push_str(method.get_name());
                }
                self.push_char('(');
                self.write_function_parameters(function.get_parameters(), function.is_variadic())?;
                self.push_char(')');
                let block = function.get_block();
                if !block.is_empty() {
                    self.write_block(block)?;
                }
                self.push_str("end");
                Ok(())
            }
            Statement::GenericFor(generic_for) => {
                self.push_str("for");
                let identifiers = generic_for.get_identifiers();
                let last = identifiers.len().saturating_sub(1);
                for (i, identifier) in identifiers.iter().enumerate() {
                    self.write_typed_identifier(identifier)?;
                    if i != last {
                        self.push_char(',');
                    }
                }
                self.push_str("in");
                let expressions = generic_for.get_expressions();
                let last = expressions.len().saturating_sub(1);
                for (i, expression) in expressions.iter().enumerate() {
                    self.write_expression(expression)?;
                    if i != last {
                        self.push_char(',');
                    }
                }
                self.push_str("do");
                self.write_block(generic_for.get_block())?;
                self.push_str("end");
                Ok(())
            }
            Statement::If(if_statement) => {
                for (i, branch) in if_statement.get_branches().iter().enumerate() {
                    self.push_str(if i == 0 { "if" } else { "elseif" });
                    self.write_expression(branch.get_condition())?;
                    self.push_str("then");
                    self.write_block(branch.get_block())?;
                }
                if let Some(else_block) = if_statement.get_else_block() {
                    self.push_str("else");
                    self.write_block(else_block)?;
                }
                self.push_str("end");
                Ok(())
            }
            Statement::LocalAssign(assign) => {
                self.push_str(assign.get_assignment_kind().as_keyword());
                let variables_length = assign.variables_len();
                let last = variables_length.saturating_sub(1);
                for (i, variable) in assign.iter_variables().enumerate() {
                    self.write_typed_identifier(variable)?;
                    if i != last {
                        self.push_char(',');
                    }
                }
                if assign.required_new_variables() > 0 || assign.required_nil_values() > 0 {
                    return Err("const assignment padding".into());
                }
                if assign.has_values() {
                    self.push_break("=", EQUAL);
                    let last = assign.values_len().saturating_sub(1);
                    for (i, value) in assign.iter_values().enumerate() {
                        self.write_expression(value)?;
                        if i != last {
                            self.push_char(',');
                        }
                    }
                }
                Ok(())
            }
            Statement::LocalFunction(function) => {
                if !function.attributes().is_empty()
                    || function.get_generic_parameters().is_some()
                    || function.get_return_type().is_some()
                    || function.get_variadic_type().is_some()
                {
                    return Err("local function with attributes/generics/types".into());
                }
                self.push_str(function.get_assignment_kind().as_keyword());
                self.space();
                self.push_str("function");
                self.space();
                self.push_str(function.get_name());
                self.push_char('(');
                self.write_function_parameters(function.get_parameters(), function.is_variadic())?;
                self.push_char(')');
                let block = function.get_block();
                if !block.is_empty() {
                    self.write_block(block)?;
                }
                self.push_str("end");
                Ok(())
            }
            Statement::NumericFor(numeric_for) => {
                self.push_str("for");
                self.write_typed_identifier(numeric_for.get_identifier())?;
                self.push_break("=", EQUAL);
                self.write_expression(numeric_for.get_start())?;
                self.push_char(',');
                self.write_expression(numeric_for.get_end())?;
                if let Some(step) = numeric_for.get_step() {
                    self.push_char(',');
                    self.write_expression(step)?;
                }
                let block = numeric_for.get_block();
                if block.is_empty() {
                    self.push_str("do end");
                } else {
                    self.push_str("do");
                    self.write_block(block)?;
                    self.push_str("end");
                }
                Ok(())
            }
            Statement::Repeat(repeat) => {
                self.push_str("repeat");
                let block = repeat.get_block();
                if !block.is_empty() {
                    self.write_block(block)?;
                }
                self.push_str("until");
                self.write_expression(repeat.get_condition())
            }
            Statement::While(while_statement) => {
                self.push_str("while");
                self.write_expression(while_statement.get_condition())?;
                let block = while_statement.get_block();
                if block.is_empty() {
                    self.push_str("do end");
                } else {
                    self.push_str("do");
                    self.write_block(block)?;
                    self.push_str("end");
                }
                Ok(())
            }
            Statement::TypeDeclaration(_) | Statement::TypeFunction(_) => {
                Err("type statement".into())
            }
        }
    }

    fn write_last_statement(&mut self, statement: &LastStatement) -> R {
        match statement {
            LastStatement::Break(_) => self.push_str("break"),
            LastStatement::Continue(_) => self.push_str("continue"),
            LastStatement::Return(expressions) => {
                self.push_str("return");
                let last = expressions.len().saturating_sub(1);
                for (i, expression) in expressions.iter_expressions().enumerate() {
                    self.write_expression(expression)?;
                    if i != last {
                        self.push_char(',');
                    }
                }
            }
        }
        Ok(())
    }

    fn write_function_parameters(&mut self, parameters: &[TypedIdentifier], is_variadic: bool) -> R {
        let last = parameters.len().saturating_sub(1);
        for (i, variable) in parameters.iter().enumerate() {
            self.write_typed_identifier(variable)?;
            if i != last {
                self.push_char(',');
            }
        }
        if is_variadic {
            if !parameters.is_empty() {
                self.push_char(',');
            }
            self.push_str("...");
        }
        Ok(())
    }

    fn write_typed_identifier(&mut self, typed_identifier: &TypedIdentifier) -> R {
        self.push_str(typed_identifier.get_name());
        if let Some(r#type) = typed_identifier.get_type() {
            self.push_char(':');
            self.write_type(r#type)?;
        }
        Ok(())
    }

    fn write_variable(&mut self, variable: &Variable) -> R {
        match variable {
            Variable::Identifier(identifier) => {
                self.push_str(identifier.get_name());
                Ok(())
            }
            Variable::Field(field) => self.write_field(field),
            Variable::Index(index) => self.write_index(index),
        }
    }

    // ---- types (small fragment) --------------------------------------------------------

    fn write_type(&mut self, r#type: &Type) -> R {
        match r#type {
            Type::Name(name) => {
                if name.has_type_parameters() {
                    return Err("type parameters".into());
                }
                self.push_str(name.get_type_name().get_name());
                Ok(())
            }
            Type::True(_) => {
                self.push_str("true");
                Ok(())
            }
            Type::False(_) => {
                self.push_str("false");
                Ok(())
            }
            Type::Nil(_) => {
                self.push_str("nil");
                Ok(())
            }
            Type::Optional(optional) => {
                let inner = optional.get_inner_type();
                if OptionalType::needs_parentheses(inner) {
                    self.push_char('(');
                    self.write_type(inner)?;
                    self.push_char(')');
                } else {
                    self.write_type(inner)?;
                }
                self.push_char('?');
                Ok(())
            }
            Type::Array(array) => {
                self.push_char('{');
                self.write_type(array.get_element_type())?;
                self.push_char('}');
                Ok(())
            }
            Type::Parenthese(parenthese) => {
                self.push_char('(');
                self.write_type(parenthese.get_inner_type())?;
                self.push_char(')');
                Ok(())
            }
            _ => Err("type outside the fragment".into()),
        }
    }

    // ---- expressions -----------------------------------------------------------------

    fn write_expression_in_parentheses(&mut self, expression: &Expression) -> R {
        self.push_char('(');
        self.write_expression(expression)?;
        self.push_char(')');
        Ok(())
    }

    pub fn write_expression(&mut self, expression: &Expression) -> R {
        match expression {
            Expression::Binary(binary) => {
                let operator = binary.operator();
                let left = binary.left();
                let right = binary.right();
                if operator.left_needs_parentheses(left) {
                    self.write_expression_in_parentheses(left)?;
                } else {
                    self.write_expression(left)?;
                }
                match operator {
                    BinaryOperator::Concat => self.push_break("..", CONCAT),
                    _ => self.push_str(operator.to_str()),
                }
                if operator.right_needs_parentheses(right) {
                    self.write_expression_in_parentheses(right)
                } else {
                    self.write_expression(right)
                }
            }
            Expression::Call(call) => self.write_function_call(call),
            Expression::False(_) => {
                self.push_str("false");
                Ok(())
            }
            Expression::True(_) => {
                self.push_str("true");
                Ok(())
            }
            Expression::Nil(_) => {
                self.push_str("nil");
                Ok(())
            }
            Expression::Field(field) => self.write_field(field),
            Expression::Function(function) => {
                if !function.attributes().is_empty()
                    || function.get_generic_parameters().is_some()
                    || function.get_return_type().is_some()
                    || function.get_variadic_type().is_some()
                {
                    return Err("function expression with attributes/generics/types".into());
                }
                self.push_str("function");
                self.push_char('(');
                self.write_function_parameters(function.get_parameters(), function.is_variadic())?;
                self.push_char(')');
                let block = function.get_block();
                if !block.is_empty() {
                    self.write_block(block)?;
                }
                self.push_str("end");
                Ok(())
            }
            Expression::Identifier(identifier) => {
                self.push_str(identifier.get_name());
                Ok(())
            }
            Expression::If(if_expression) => {
                self.push_str("if");
                self.write_expression(if_expression.get_condition())?;
                self.push_str("then");
                self.write_expression(if_expression.get_result())?;
                for branch in if_expression.iter_branches() {
                    self.push_str("elseif");
                    self.write_expression(branch.get_condition())?;
                    self.push_str("then");
                    self.write_expression(branch.get_result())?;
                }
                self.push_str("else");
                self.write_expression(if_expression.get_else_result())
            }
            Expression::Index(index) => self.write_index(index),
            Expression::Number(number) => {
                self.write_number(number);
                Ok(())
            }
            Expression::Parenthese(parenthese) => {
                self.write_expression_in_parentheses(parenthese.inner_expression())
            }
            Expression::String(string) => {
                self.write_string(string);
                Ok(())
            }
            Expression::InterpolatedString(interpolated) => {
                self.push_char('`');
                for segment in interpolated.iter_segments() {
                    match segment {
                        InterpolationSegment::String(string_segment) => {
                            let text = utils::write_interpolated_string_segment(string_segment);
                            self.raw(&text);
                        }
                        InterpolationSegment::Value(value) => {
                            self.raw("{");
                            let expression = value.get_expression();
                            if expression_starts_with_table(expression) {
                                self.raw(" ");
                            }
                            self.write_expression(expression)?;
                            self.push_char('}');
                        }
                    }
                }
                self.raw("`");
                Ok(())
            }
            Expression::Table(table) => self.write_table(table),
            Expression::Unary(unary) => {
                match unary.operator() {
                    UnaryOperator::Length => self.push_char('#'),
                    UnaryOperator::Minus => self.push_break("-", MINUS),
                    UnaryOperator::Not => self.push_str("not"),
                }
                let inner = unary.get_expression();
                match inner {
                    Expression::Binary(binary) if !binary.operator().precedes_unary_expression() => {
                        self.write_expression_in_parentheses(inner)
                    }
                    _ => self.write_expression(inner),
                }
            }
            Expression::VariableArguments(_) => {
                self.push_break("...", VARARGS);
                Ok(())
            }
            Expression::TypeCast(type_cast) => {
                let inner = type_cast.get_expression();
                if TypeCastExpression::needs_parentheses(inner) {
                    self.write_expression_in_parentheses(inner)?;
                } else {
                    self.write_expression(inner)?;
                }
                self.push_str("::");
                self.write_type(type_cast.get_type())
            }
            Expression::TypeInstantiation(_) => Err("type instantiation".into()),
        }
    }

    fn write_number(&mut self, number: &NumberExpression) {
        if let NumberExpression::Decimal(decimal) = number {
            let float = decimal.compute_value();
            if float.is_nan() {
                for c in ['(', '0', '/', '0', ')'] {
                    self.push_char(c);
                }
                return;
            } else if float.is_infinite() {
                self.push_char('(');
                if float.is_sign_negative() {
                    self.push_char('-');
                }
                for c in ['1', '/', '0', ')'] {
                    self.push_char(c);
                }
                return;
            }
        }
        // dense.rs formats hexadecimal and binary numbers itself, with the same format strings
        // as utils::write_number
        let text = utils::write_number(number);
        self.push_str(&text);
    }

    fn write_string(&mut self, string: &StringExpression) {
        let result = utils::write_string(string.get_value());
        if result.starts_with('[') {
            self.push_break(&result, LONG_STRING);
        } else {
            self.push_str(&result);
        }
    }

    fn write_table(&mut self, table: &TableExpression) -> R {
        self.push_char('{');
        let entries = table.get_entries();
        let last = entries.len().saturating_sub(1);
        for (i, entry) in entries.iter().enumerate() {
            match entry {
                TableEntry::Field(entry) => {
                    self.push_str(entry.get_field().get_name());
                    self.push_char('=');
                    self.write_expression(entry.get_value())?;
                }
                TableEntry::Index(entry) => {
                    self.push_char('[');
                    self.write_expression(entry.get_key())?;
                    self.push_char(']');
                    self.push_char('=');
                    self.write_expression(entry.get_value())?;
                }
                TableEntry::Value(expression) => self.write_expression(expression)?,
            }
            if i != last {
                self.push_char(',');
            }
        }
        self.push_char('}');
        Ok(())
    }

    fn write_prefix(&mut self, prefix: &Prefix) -> R {
        match prefix {
            Prefix::Call(call) => self.write_function_call(call),
            Prefix::Field(field) => self.write_field(field),
            Prefix::Identifier(identifier) => {
                self.push_str(identifier.get_name());
                Ok(())
            }
            Prefix::Index(index) => self.write_index(index),
            Prefix::Parenthese(parenthese) => {
                self.write_expression_in_parentheses(parenthese.inner_expression())
            }
            Prefix::TypeInstantiation(_) => Err("type instantiation".into()),
        }
    }

    fn write_function_call(&mut self, call: &FunctionCall) -> R {
        if call.has_method_type_instantiation() {
            return Err("method type instantiation".into());
        }
        self.write_prefix(call.get_prefix())?;
        if let Some(method) = call.get_method() {
            self.push_char(':');
            self.push_str(method.get_name());
        }
        match call.get_arguments() {
            Arguments::String(string) => {
                self.write_string(string);
                Ok(())
            }
            Arguments::Table(table) => self.write_table(table),
            Arguments::Tuple(tuple) => {
                self.merge('(');
                let last = tuple.len().saturating_sub(1);
                for (i, expression) in tuple.iter_values().enumerate() {
                    self.write_expression(expression)?;
                    if i != last {
                        self.push_char(',');
                    }
                }
                self.push_char(')');
                Ok(())
            }
        }
    }

    fn write_field(&mut self, field: &FieldExpression) -> R {
        self.write_prefix(field.get_prefix())?;
        self.nl_raw(1, ".");
        self.push_str(field.get_field().get_name());
        Ok(())
    }

    fn write_index(&mut self, index: &IndexExpression) -> R {
        self.write_prefix(index.get_prefix())?;
        self.push_char('[');
        self.write_expression(index.get_index())?;
        self.push_char(']');
        Ok(())
    }
}

pub fn encode(items: &[Item]) -> String {
    let mut parts = Vec::with_capacity(items.len());
    for (mode, text) in items {
        let tag = match mode {
            Mode::Str => "S".to_owned(),
            Mode::Break(p) => format!("B{}", p),
            Mode::Raw => "R".to_owned(),
            Mode::NlRaw(n) => format!("N{}", n),
            Mode::Merge => "M".to_owned(),
            Mode::Space => "P".to_owned(),
        };
        parts.push(format!("{}:{}", tag, hutil::hex(text)));
    }
    if parts.is_empty() {
        "-".to_owned()
    } else {
        parts.join(",")
    }
}
