//! C02: dense and readable generators.
//!
//! `dl-c02 tables`                     dump `should_break_with_space` and the `break_*` predicates
//! `dl-c02 stream --seed S --n N`      random trees through both generators at several column spans
//! `dl-c02 pairs`                      every ordered pair of token samples made adjacent in a tree
//! `dl-c02 prec`                       operator precedence / parenthesisation tables
//! `dl-c02 ops`                        operator pairs and triples through both generators
//!
//! Output lines of `stream`, `pairs`, `ops`:
//!   `case <id> <span> <items|-> <dense hex> <readable hex> <dense reparse> <readable reparse> <tag>`
//! where a reparse flag is `ok` (darklua's parser reads back an equal tree), `diff`, `err`, `panic`.

mod gen;
mod items;

use std::panic::{catch_unwind, AssertUnwindSafe};

use darklua_core::generator::{DenseLuaGenerator, LuaGenerator, ReadableLuaGenerator};
use darklua_core::nodes::*;
use darklua_core::verif_hooks::generator_utils as utils;
use darklua_core::Parser;
use hutil::{arg_u64, hex, Rng};

pub const SPANS: [usize; 7] = [0, 1, 2, 7, 80, 120, 1_000_000_000];

fn dense(block: &Block, span: usize) -> Option<String> {
    catch_unwind(AssertUnwindSafe(|| {
        let mut generator = DenseLuaGenerator::new(span);
        generator.write_block(block);
        generator.into_string()
    }))
    .ok()
}

fn readable(block: &Block, span: usize) -> Option<String> {
    catch_unwind(AssertUnwindSafe(|| {
        let mut generator = ReadableLuaGenerator::new(span);
        generator.write_block(block);
        generator.into_string()
    }))
    .ok()
}

fn reparse(block: &Block, code: &Option<String>) -> &'static str {
    match code {
        None => "panic",
        Some(code) => match catch_unwind(AssertUnwindSafe(|| Parser::default().parse(code))) {
            Err(_) => "panic",
            Ok(Err(_)) => "err",
            Ok(Ok(parsed)) => {
                if &parsed == block {
                    "ok"
                } else {
                    "diff"
                }
            }
        },
    }
}

fn emit_case(id: &mut usize, block: &Block, spans: &[usize], tag: &str) {
    let mut walker = items::Walker::default();
    let encoded = match walker.write_block(block) {
        Ok(()) => items::encode(&walker.items),
        Err(_) => "-".to_owned(),
    };
    for span in spans {
        let d = dense(block, *span);
        let r = readable(block, *span);
        println!(
            "case {} {} {} {} {} {} {} {}",
            *id,
            span,
            encoded,
            d.as_ref().map(|s| hex(s.as_bytes())).unwrap_or_else(|| "PANIC".into()),
            r.as_ref().map(|s| hex(s.as_bytes())).unwrap_or_else(|| "PANIC".into()),
            reparse(block, &d),
            reparse(block, &r),
            tag
        );
        *id += 1;
    }
}

fn mask_row(f: impl Fn(u8) -> bool) -> String {
    // bit b of the row = f(b), printed as a decimal number
    let mut value: u128 = 0;
    for b in 0..128u8 {
        if f(b) {
            value |= 1u128 << b;
        }
    }
    value.to_string()
}

fn pred_on(p: fn(&str) -> bool, first: u8, last: u8) -> bool {
    let s: String = if first == last {
        (first as char).to_string()
    } else {
        format!("{}{}", first as char, last as char)
    };
    p(&s)
}

fn tables(seed: u64) {
    for a in 0..128u8 {
        println!("sp {} {}", a, mask_row(|b| utils::should_break_with_space(a as char, b as char)));
    }
    let preds: [(&str, fn(&str) -> bool); 5] = [
        ("concat", utils::break_concat),
        ("varargs", utils::break_variable_arguments),
        ("minus", utils::break_minus),
        ("equal", utils::break_equal),
        ("longstring", utils::break_long_string),
    ];
    let mut rng = Rng::new(seed);
    for (name, p) in preds {
        for first in 0..128u8 {
            println!("br {} {} {}", name, first, mask_row(|last| pred_on(p, first, last)));
        }
        // the predicates look at the first and last characters only: longer strings must agree
        let mut mismatches = 0;
        let mut checked = 0;
        for _ in 0..20000 {
            let len = 1 + rng.below(6);
            let s: String = (0..len).map(|_| (rng.below(128) as u8) as char).collect();
            let bytes = s.as_bytes();
            let expected = pred_on(p, bytes[0], bytes[bytes.len() - 1]);
            checked += 1;
            if p(&s) != expected {
                mismatches += 1;
            }
        }
        println!("brcheck {} {} {} {}", name, checked, mismatches, p(""));
    }
    // the same for one single-character string that is both first and last of a longer string
    println!("end");
}

fn stream(seed: u64, n: u64) {
    let mut rng = Rng::new(seed);
    let mut id = 0usize;
    for k in 0..n {
        let depth = 1 + (k % 4) as usize;
        let block = {
            let mut g = gen::Gen::new(&mut rng);
            g.types = k % 3 != 0;
            g.block(depth, false)
        };
        emit_case(&mut id, &block, &SPANS, "random");
    }
}

fn main() {
    let args: Vec<String> = std::env::args().skip(1).collect();
    let args = &args[..];
    let sub = args.first().map(String::as_str).unwrap_or("");
    std::panic::set_hook(Box::new(|_| {}));
    match sub {
        "tables" => tables(arg_u64(args, "--seed", 1)),
        "stream" => stream(arg_u64(args, "--seed", 1), arg_u64(args, "--n", 100)),
        _ => {
            eprintln!("dl-c02: unknown subcommand {:?}", sub);
            std::process::exit(2);
        }
    }
}
