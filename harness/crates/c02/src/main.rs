//! C02: dense and readable generators.
//!
//! `dl-c02 tables`                     dump `should_break_with_space` and the `break_*` predicates
//! `dl-c02 stream --seed S --n N`      random trees through both generators at several column spans
//! `dl-c02 pairs`                      every ordered pair of token samples made adjacent in a tree
//! `dl-c02 prec`                       operator precedence / parenthesisation tables
//! `dl-c02 ops`                        operator pairs and triples through both generators
//!
//! Output lines of `stream`, `pairs`, `ops`:
//!   `case <id> <span> <items|-> <dense hex> <readable hex> <dense reparse> <readable reparse> <tag>`
//! where a reparse flag is `ok` (darklua's parser reads back an equal tree), `diff`, `err`, `panic`.

mod gen;
mod items;

use std::panic::{catch_unwind, AssertUnwindSafe};

use darklua_core::generator::{DenseLuaGenerator, LuaGenerator, ReadableLuaGenerator, TokenBasedLuaGenerator};
use darklua_core::nodes::*;
use darklua_core::verif_hooks::generator_utils as utils;
use darklua_core::Parser;
use hutil::{arg_u64, hex, Rng};

pub const SPANS: [usize; 7] = [0, 1, 2, 7, 80, 120, 1_000_000_000];

fn dense(block: &Block, span: usize) -> Option<String> {
    catch_unwind(AssertUnwindSafe(|| {
        let mut generator = DenseLuaGenerator::new(span);
        generator.write_block(block);
        generator.into_string()
    }))
    .ok()
}

fn readable(block: &Block, span: usize) -> Option<String> {
    catch_unwind(AssertUnwindSafe(|| {
        let mut generator = ReadableLuaGenerator::new(span);
        generator.write_block(block);
        generator.into_string()
    }))
    .ok()
}

/// Removes `Expression::Parenthese` nodes whose content is not a call or `...` (the only
/// parentheses that change meaning: they truncate multiple values).  The generators add
/// parentheses where precedence requires them and darklua's parser keeps every parenthese as a
/// node, so the comparison of trees is made modulo these neutral parentheses.
struct StripParentheses;

impl darklua_core::process::NodeProcessor for StripParentheses {
    fn process_type(&mut self, r#type: &mut Type) {
        Self::strip_type(r#type);
    }

    fn process_expression(&mut self, expression: &mut Expression) {
        loop {
            let inner = match expression {
                Expression::Parenthese(parenthese) => match parenthese.inner_expression() {
                    Expression::Call(_) | Expression::VariableArguments(_) => None,
                    inner => Some(inner.clone()),
                },
                _ => None,
            };
            match inner {
                Some(inner) => *expression = inner,
                None => break,
            }
        }
    }
}

impl StripParentheses {
    fn strip_type(r#type: &mut Type) {
        loop {
            let inner = match r#type {
                Type::Parenthese(parenthese) => Some(parenthese.get_inner_type().clone()),
                _ => None,
            };
            match inner {
                Some(inner) => *r#type = inner,
                None => break,
            }
        }
    }
}

pub fn normalize(block: &Block) -> Block {
    use darklua_core::process::{DefaultVisitor, NodeVisitor};
    let mut block = block.clone();
    DefaultVisitor::visit_block(&mut block, &mut StripParentheses);
    block
}

/// the token-based generator (`retain_lines`) on a tree without tokens
fn token_based(block: &Block) -> Option<String> {
    catch_unwind(AssertUnwindSafe(|| {
        let mut generator = TokenBasedLuaGenerator::new("");
        generator.write_block(block);
        generator.into_string()
    }))
    .ok()
}

fn reparse(block: &Block, code: &Option<String>) -> &'static str {
    match code {
        None => "panic",
        Some(code) => match catch_unwind(AssertUnwindSafe(|| Parser::default().parse(code))) {
            Err(_) => "panic",
            Ok(Err(_)) => "err",
            Ok(Ok(parsed)) => {
                if &parsed == block {
                    "ok"
                } else if normalize(&parsed) == normalize(block) {
                    "okp"
                } else {
                    if std::env::var("DLC02_EXPLAIN").is_ok() {
                        for (a, b) in parsed.iter_statements().zip(block.iter_statements()) {
                            if a != b {
                                eprintln!("EXPLAIN\n  parsed:   {:?}\n  original: {:?}", a, b);
                                break;
                            }
                        }
                    }
                    "diff"
                }
            }
        },
    }
}

/// Opening parentheses of calls (as darklua's PARSER, which is independent of the generators,
/// identifies them in the generated text) that are the first token of a line: Lua 5.1 rejects
/// such a call (manual 2.5.8, "ambiguous syntax") and Luau reports it as ambiguous.
struct CallParentheses(Vec<usize>);

impl darklua_core::process::NodeProcessor for CallParentheses {
    fn process_function_call(&mut self, call: &mut FunctionCall) {
        if let Arguments::Tuple(tuple) = call.get_arguments() {
            if let Some(tokens) = tuple.get_tokens() {
                if let Position::LineNumberReference { start, .. } = tokens.opening_parenthese.verif_position() {
                    self.0.push(*start);
                }
            }
        }
    }
}

/// number of call parentheses that start a line; `None` when the text does not parse
fn call_parentheses_on_new_line(code: &Option<String>) -> Option<usize> {
    use darklua_core::process::{DefaultVisitor, NodeVisitor};
    let code = code.as_ref()?;
    let mut block = catch_unwind(AssertUnwindSafe(|| Parser::default().preserve_tokens().parse(code)))
        .ok()?
        .ok()?;
    let mut collector = CallParentheses(Vec::new());
    DefaultVisitor::visit_block(&mut block, &mut collector);
    let bytes = code.as_bytes();
    let mut count = 0;
    for start in collector.0 {
        if bytes.get(start) != Some(&b'(') {
            continue;
        }
        let mut i = start;
        while i > 0 && (bytes[i - 1] == b' ' || bytes[i - 1] == b'\t' || bytes[i - 1] == b'\r') {
            i -= 1;
        }
        if i > 0 && bytes[i - 1] == b'\n' {
            count += 1;
        }
    }
    Some(count)
}

fn newline_flag(code: &Option<String>) -> String {
    match call_parentheses_on_new_line(code) {
        Some(n) => n.to_string(),
        None => "x".to_owned(),
    }
}

/// The recorded defect "semicolon:generator-parenthesised-last-operand": the last operand on the
/// right spine of the statement's final expression is wrapped in parentheses by the generator
/// (no Parenthese node in the tree).
fn last_operand_wrapped(mut expression: &Expression) -> bool {
    loop {
        match expression {
            Expression::Binary(binary) => {
                if binary.operator().right_needs_parentheses(binary.right()) {
                    return true;
                }
                expression = binary.right();
            }
            Expression::Unary(unary) => {
                if let Expression::Binary(binary) = unary.get_expression() {
                    if !binary.operator().precedes_unary_expression() {
                        return true;
                    }
                }
                expression = unary.get_expression();
            }
            Expression::If(if_expression) => expression = if_expression.get_else_result(),
            _ => return false,
        }
    }
}

fn statement_last_expression(statement: &Statement) -> Option<&Expression> {
    match statement {
        Statement::Assign(assign) => assign.last_value(),
        Statement::LocalAssign(assign) => assign.last_value(),
        Statement::CompoundAssign(assign) => Some(assign.get_value()),
        Statement::Repeat(repeat) => Some(repeat.get_condition()),
        _ => None,
    }
}

struct KnownBoundaryDefect(bool);

impl darklua_core::process::NodeProcessor for KnownBoundaryDefect {
    fn process_block(&mut self, block: &mut Block) {
        let statements: Vec<&Statement> = block.iter_statements().collect();
        for pair in statements.windows(2) {
            if utils::starts_with_parenthese(pair[1])
                && statement_last_expression(pair[0]).map(last_operand_wrapped).unwrap_or(false)
            {
                self.0 = true;
            }
        }
    }
}

fn has_known_boundary_defect(block: &Block) -> bool {
    use darklua_core::process::{DefaultVisitor, NodeVisitor};
    let mut block = block.clone();
    let mut detector = KnownBoundaryDefect(false);
    DefaultVisitor::visit_block(&mut block, &mut detector);
    detector.0
}

fn emit_case(id: &mut usize, block: &Block, spans: &[usize], tag: &str) {
    let tag = if has_known_boundary_defect(block) { format!("{}+wrapped-last-operand", tag) } else { tag.to_owned() };
    let tag = tag.as_str();
    let mut walker = items::Walker::default();
    let encoded = match walker.write_block(block) {
        Ok(()) => items::encode(&walker.items),
        Err(_) => "-".to_owned(),
    };
    for span in spans {
        let d = dense(block, *span);
        let r = readable(block, *span);
        println!(
            "case {} {} {} {} {} {} {} {} nl={},{}",
            *id,
            span,
            encoded,
            d.as_ref().map(|s| hex_or_dash(s.as_bytes())).unwrap_or_else(|| "PANIC".into()),
            r.as_ref().map(|s| hex_or_dash(s.as_bytes())).unwrap_or_else(|| "PANIC".into()),
            reparse(block, &d),
            reparse(block, &r),
            tag,
            newline_flag(&d),
            newline_flag(&r)
        );
        *id += 1;
    }
}

fn hex_or_dash(bytes: &[u8]) -> String {
    if bytes.is_empty() {
        "-".to_owned()
    } else {
        hex(bytes)
    }
}

fn mask_row(f: impl Fn(u8) -> bool) -> String {
    // bit b of the row = f(b), printed as a decimal number
    let mut value: u128 = 0;
    for b in 0..128u8 {
        if f(b) {
            value |= 1u128 << b;
        }
    }
    value.to_string()
}

fn pred_on(p: fn(&str) -> bool, first: u8, last: u8) -> bool {
    let s: String = if first == last {
        (first as char).to_string()
    } else {
        format!("{}{}", first as char, last as char)
    };
    p(&s)
}

fn tables(seed: u64) {
    for a in 0..128u8 {
        println!("sp {} {}", a, mask_row(|b| utils::should_break_with_space(a as char, b as char)));
    }
    let preds: [(&str, fn(&str) -> bool); 5] = [
        ("concat", utils::break_concat),
        ("varargs", utils::break_variable_arguments),
        ("minus", utils::break_minus),
        ("equal", utils::break_equal),
        ("longstring", utils::break_long_string),
    ];
    let mut rng = Rng::new(seed);
    for (name, p) in preds {
        for first in 0..128u8 {
            println!("br {} {} {}", name, first, mask_row(|last| pred_on(p, first, last)));
        }
        // the predicates look at the first and last characters only: longer strings must agree
        let mut mismatches = 0;
        let mut checked = 0;
        for _ in 0..20000 {
            let len = 1 + rng.below(6);
            let s: String = (0..len).map(|_| (rng.below(128) as u8) as char).collect();
            let bytes = s.as_bytes();
            let expected = pred_on(p, bytes[0], bytes[bytes.len() - 1]);
            checked += 1;
            if p(&s) != expected {
                mismatches += 1;
            }
        }
        println!("brcheck {} {} {} {}", name, checked, mismatches, p(""));
    }
    // the same for one single-character string that is both first and last of a longer string
    println!("end");
}

fn stream(seed: u64, n: u64) {
    let mut rng = Rng::new(seed);
    let mut id = 0usize;
    for k in 0..n {
        let depth = 1 + (k % 4) as usize;
        let block = {
            let mut g = gen::Gen::new(&mut rng);
            g.types = k % 3 != 0;
            g.rich_types = k % 6 == 5;
            g.block(depth, false)
        };
        emit_case(&mut id, &block, &SPANS, "random");
    }
}

/// expression samples: one per token class that can begin or end an expression
fn samples() -> Vec<(&'static str, Expression)> {
    use gen::number;
    let long = |v: Vec<u8>| -> Expression { StringExpression::from_value(v).into() };
    let mut ends_bracket = vec![b'y'; 61];
    ends_bracket.extend_from_slice(b"]]]");
    let call = |name: &str| FunctionCall::from_name(name);
    vec![
        ("name", Expression::identifier("a")),
        ("name_e", Expression::identifier("e")),
        ("name_digit", Expression::identifier("_1")),
        ("nil", Expression::nil()),
        ("true", Expression::from(true)),
        ("int", number("1")),
        ("frac", number("1.5")),
        ("exp", number("1e5")),
        ("negexp", number("5e-3")),
        ("hex_e", number("0xe")),
        ("hex", number("0xff")),
        ("bin", number("0b1")),
        ("str", StringExpression::from_value("a").into()),
        ("str_dash", StringExpression::from_value("--").into()),
        ("long", long(vec![b'x'; 64])),
        ("long_bracket", long(ends_bracket)),
        ("varargs", Expression::variable_arguments()),
        ("table", TableExpression::default().into()),
        ("function", FunctionExpression::default().into()),
        ("paren", ParentheseExpression::new(Expression::identifier("a")).into()),
        ("call", call("f").into()),
        ("call_str", call("f").with_arguments(StringExpression::from_value("x")).into()),
        ("call_table", call("f").with_arguments(TableExpression::default()).into()),
        ("index", IndexExpression::new(Prefix::from_name("a"), number("1")).into()),
        ("field", FieldExpression::new(Prefix::from_name("a"), "b").into()),
        ("neg", UnaryExpression::new(UnaryOperator::Minus, Expression::identifier("a")).into()),
        ("not", UnaryExpression::new(UnaryOperator::Not, Expression::identifier("a")).into()),
        ("len", UnaryExpression::new(UnaryOperator::Length, Expression::identifier("a")).into()),
        ("negnum", UnaryExpression::new(UnaryOperator::Minus, number("1")).into()),
        (
            "ifexp",
            IfExpression::new(Expression::identifier("c"), number("1"), number("2")).into(),
        ),
        (
            "interp",
            InterpolatedStringExpression::empty()
                .with_segment(StringSegment::from_value("s"))
                .with_segment(ValueSegment::new(Expression::identifier("v")))
                .into(),
        ),
        ("cast", TypeCastExpression::new(Expression::identifier("a"), TypeName::new("T")).into()),
        (
            "cast_opt",
            TypeCastExpression::new(Expression::identifier("a"), OptionalType::new(TypeName::new("T"))).into(),
        ),
        ("concat", BinaryExpression::new(BinaryOperator::Concat, number("1"), number("2")).into()),
        ("sub", BinaryExpression::new(BinaryOperator::Minus, Expression::identifier("a"), number("1")).into()),
    ]
}

fn assign(value: impl Into<Expression>) -> Statement {
    AssignStatement::from_variable(Variable::new("x"), value).into()
}

/// every syntactic position where the end of expression `a` is written next to the start of
/// expression `b` (directly, or with one operator / bracket / comma / keyword between them)
fn pair_block(a: &Expression, b: &Expression) -> Block {
    let mut statements: Vec<Statement> = Vec::new();
    for operator in gen::BINARY_OPERATORS {
        statements.push(assign(BinaryExpression::new(operator, a.clone(), b.clone())));
    }
    for operator in gen::UNARY_OPERATORS {
        statements.push(assign(UnaryExpression::new(operator, b.clone())));
        statements.push(assign(BinaryExpression::new(
            BinaryOperator::Minus,
            a.clone(),
            UnaryExpression::new(operator, b.clone()),
        )));
        statements.push(assign(BinaryExpression::new(
            BinaryOperator::Concat,
            a.clone(),
            UnaryExpression::new(operator, b.clone()),
        )));
    }
    // a , b   /  ( a , b )  /  [ a ]  /  { [a] = b }  /  { a , b } / { n = a }
    statements.push(AssignStatement::new(vec![Variable::new("x"), Variable::new("y")], vec![a.clone(), b.clone()]).into());
    statements.push(Statement::Call(FunctionCall::from_name("f").with_argument(a.clone()).with_argument(b.clone())));
    statements.push(assign(IndexExpression::new(Prefix::from_name("t"), a.clone())));
    statements.push(assign(IndexExpression::new(
        Prefix::Parenthese(Box::new(ParentheseExpression::new(a.clone()))),
        b.clone(),
    )));
    statements.push(assign(TableExpression::new(vec![
        TableEntry::Index(Box::new(TableIndexEntry::new(a.clone(), b.clone()))),
        TableEntry::Value(Box::new(a.clone())),
        TableEntry::Value(Box::new(b.clone())),
        TableEntry::Field(Box::new(TableFieldEntry::new("n", a.clone()))),
    ])));
    statements.push(assign(ParentheseExpression::new(a.clone())));
    statements.push(assign(IfExpression::new(a.clone(), b.clone(), a.clone())));
    statements.push(assign(
        InterpolatedStringExpression::empty()
            .with_segment(ValueSegment::new(a.clone()))
            .with_segment(ValueSegment::new(b.clone())),
    ));
    // statement forms
    statements.push(VariableAssignment::new(vec!["l".into()], vec![a.clone()]).into());
    for operator in gen::COMPOUND_OPERATORS {
        statements.push(CompoundAssignStatement::new(operator, Variable::new("x"), a.clone()).into());
    }
    statements.push(
        NumericForStatement::new("i", a.clone(), b.clone(), Some(a.clone()), Block::default()).into(),
    );
    statements.push(
        GenericForStatement::new(vec!["k".into()], vec![a.clone(), b.clone()], Block::default()).into(),
    );
    statements.push(WhileStatement::new(Block::default(), a.clone()).into());
    statements.push(RepeatStatement::new(Block::default(), a.clone()).into());
    statements.push(IfStatement::create(a.clone(), Block::default()).into());
    // expression statement b right after a statement ending in a
    statements.push(assign(a.clone()));
    statements.push(Statement::Call(
        FunctionCall::from_prefix(Prefix::Parenthese(Box::new(ParentheseExpression::new(b.clone())))),
    ));
    statements.push(assign(a.clone()));
    Block::new(
        statements,
        Some(LastStatement::Return(ReturnStatement::new(vec![a.clone(), b.clone()]))),
    )
}

fn pairs(limit: usize, spans: &[usize]) {
    let samples = samples();
    let mut id = 0usize;
    for (i, (name_a, a)) in samples.iter().enumerate() {
        for (j, (name_b, b)) in samples.iter().enumerate() {
            if i >= limit && j >= limit {
                continue;
            }
            let block = pair_block(a, b);
            emit_case(&mut id, &block, spans, &format!("pair:{}:{}", name_a, name_b));
        }
    }
}

// ---- stage 2: operator tables and operator trees ---------------------------------------

fn flags(values: impl Iterator<Item = bool>) -> String {
    values.map(|b| if b { "1" } else { "0" }).collect::<Vec<_>>().join(" ")
}

fn prec() {
    use darklua_core::verif_hooks::c02::binary_operator_precedence;
    let ops = gen::BINARY_OPERATORS;
    let a = || Expression::identifier("a");
    println!("opnames {}", ops.iter().map(|o| format!("{:?}", o)).collect::<Vec<_>>().join(" "));
    println!("prec {}", ops.iter().map(|o| binary_operator_precedence(*o).to_string()).collect::<Vec<_>>().join(" "));
    println!("lassoc {}", flags(ops.iter().map(|o| o.is_left_associative())));
    println!("rassoc {}", flags(ops.iter().map(|o| o.is_right_associative())));
    for (i, o) in ops.iter().enumerate() {
        let child = |c: BinaryOperator| Expression::from(BinaryExpression::new(c, a(), a()));
        println!("left_binary {} {}", i, flags(ops.iter().map(|c| o.left_needs_parentheses(&child(*c)))));
        println!("right_binary {} {}", i, flags(ops.iter().map(|c| o.right_needs_parentheses(&child(*c)))));
        let unary = |u: UnaryOperator| Expression::from(UnaryExpression::new(u, a()));
        println!("left_unary {} {}", i, flags(gen::UNARY_OPERATORS.iter().map(|u| o.left_needs_parentheses(&unary(*u)))));
        println!("right_unary {} {}", i, flags(gen::UNARY_OPERATORS.iter().map(|u| o.right_needs_parentheses(&unary(*u)))));
    }
    println!("unary_operand {}", flags(ops.iter().map(|o| !o.precedes_unary_expression())));
    // type casts: TypeCastExpression::needs_parentheses over the inner kinds, and left_needs_parentheses of a
    // cast to a bare type name / to a type with parameters
    let cast_to = |t: Type| Expression::from(TypeCastExpression::new(a(), t));
    let bare = || Type::from(TypeName::new("T"));
    let param = || Type::from(TypeName::new("T").with_type_parameter(Type::from(TypeName::new("P"))));
    let field = || Type::from(TypeField::new("M", TypeName::new("T")));
    println!(
        "cast_inner {}",
        flags(
            [
                Expression::from(BinaryExpression::new(BinaryOperator::Plus, a(), a())),
                Expression::from(UnaryExpression::new(UnaryOperator::Minus, a())),
                cast_to(bare()),
            ]
            .iter()
            .map(TypeCastExpression::needs_parentheses)
        )
    );
    for (i, o) in ops.iter().enumerate() {
        println!(
            "left_cast {} {}",
            i,
            flags([cast_to(bare()), cast_to(param())].iter().map(|e| o.left_needs_parentheses(e)))
        );
    }
    let mut cast_bad = 0;
    for o in ops {
        if o.left_needs_parentheses(&cast_to(field())) != o.left_needs_parentheses(&cast_to(bare())) {
            cast_bad += 1; // mod.T must be treated as a bare name
        }
        for t in [bare(), param(), field()] {
            if o.right_needs_parentheses(&cast_to(t)) {
                cast_bad += 1; // a cast on the right is never wrapped
            }
        }
        if o.left_needs_parentheses(&cast_to(Type::from(OptionalType::new(TypeName::new("T"))))) {
            cast_bad += 1; // T? is not a bare name
        }
    }
    println!("castcheck {}", cast_bad);
    // the type walk: the real verdict for every enumerated type
    for code in TYPE_CODES {
        println!(
            "tywalk {} {}",
            code,
            if BinaryOperator::LowerThan.left_needs_parentheses(&cast_to(type_of_code(code))) { 1 } else { 0 }
        );
    }
    // the unary-operand rule lives in the generators: read it back from their output
    let mut bad = 0;
    for o in ops {
        for u in gen::UNARY_OPERATORS {
            let e: Expression = UnaryExpression::new(u, BinaryExpression::new(o, a(), a())).into();
            let block = Block::default().with_last_statement(ReturnStatement::one(e));
            for text in [dense(&block, 80), readable(&block, 80)] {
                let has = text.map(|t| t.contains('(')).unwrap_or(false);
                if has == o.precedes_unary_expression() {
                    bad += 1;
                }
            }
        }
    }
    println!("unary_operand_check {}", bad);
    // atoms are never parenthesised
    let atoms: Vec<Expression> = samples()
        .into_iter()
        .filter(|(name, _)| {
            !matches!(*name, "neg" | "not" | "len" | "negnum" | "ifexp" | "cast" | "cast_opt" | "concat" | "sub")
        })
        .map(|(_, e)| e)
        .collect();
    let mut bad = 0;
    for o in ops {
        for atom in &atoms {
            if o.left_needs_parentheses(atom) || o.right_needs_parentheses(atom) {
                bad += 1;
            }
        }
    }
    println!("atomcheck {} {}", atoms.len(), bad);
    println!("end");
}

/// operator trees in Polish notation: `B<i> l r`, `U<i> x`, `P x`, `A<k>` (atom number k)
#[derive(Clone, Debug)]
enum Tree {
    Atom,
    NegZero,
    Bin(usize, Box<Tree>, Box<Tree>),
    Un(usize, Box<Tree>),
    Paren(Box<Tree>),
    /// cast to the type described by a code (see `type_of_code`)
    Cast(&'static str, Box<Tree>),
}

impl Tree {
    fn build(&self, next: &mut usize, polish: &mut Vec<String>) -> Expression {
        match self {
            Tree::Atom => {
                let k = *next % 26;
                *next += 1;
                polish.push(format!("A{}", k));
                Expression::identifier(((b'a' + k as u8) as char).to_string())
            }
            Tree::NegZero => {
                // a number node holding -0.0: must mean -(0)
                polish.push("U1".into());
                polish.push("A99".into());
                DecimalNumber::new(-0.0).into()
            }
            Tree::Bin(i, l, r) => {
                polish.push(format!("B{}", i));
                let l = l.build(next, polish);
                let r = r.build(next, polish);
                BinaryExpression::new(gen::BINARY_OPERATORS[*i], l, r).into()
            }
            Tree::Un(i, x) => {
                polish.push(format!("U{}", i));
                let x = x.build(next, polish);
                UnaryExpression::new(gen::UNARY_OPERATORS[*i], x).into()
            }
            Tree::Paren(x) => {
                polish.push("P".into());
                let x = x.build(next, polish);
                ParentheseExpression::new(x).into()
            }
            Tree::Cast(code, x) => {
                polish.push(format!("C{}", code));
                let x = x.build(next, polish);
                TypeCastExpression::new(x, type_of_code(code)).into()
            }
        }
    }
}

/// Types of the cast stream, one code per constructor of `ty` in Model/Precedence.v:
/// n `T`, N `T<P>`, f `M.T`, F `M.T<P>`, `>`r `()->r`, `v`r `()->...r`, k `()->(A,B)`, g `<G...>()->G...`,
/// `u`r `A|r`, `i`r `A&r`, o `T?`, y `typeof(z)`, t `{}`, a `{T}`, p `(T)`, s `'lit'`, b `true`, z `nil`
fn type_of_code(code: &str) -> Type {
    let name = |n: &str| TypeName::new(n);
    let rest = &code[1..];
    match code.as_bytes()[0] {
        b'n' => name("T").into(),
        b'N' => name("T").with_type_parameter(Type::from(name("P"))).into(),
        b'f' => TypeField::new("M", name("T")).into(),
        b'F' => TypeField::new("M", name("T").with_type_parameter(Type::from(name("P")))).into(),
        b'>' => FunctionType::new(type_of_code(rest)).into(),
        b'v' => FunctionType::new(VariadicTypePack::new(type_of_code(rest))).into(),
        b'k' => FunctionType::new(TypePack::default().with_type(name("A")).with_type(name("B"))).into(),
        b'g' => FunctionType::new(GenericTypePack::new("G"))
            .with_generic_parameters(GenericParameters::from_generic_type_pack(GenericTypePack::new("G")))
            .into(),
        b'u' => Type::from(UnionType::new(name("A"), type_of_code(rest))),
        b'i' => Type::from(IntersectionType::new(name("A"), type_of_code(rest))),
        b'o' => Type::from(OptionalType::new(name("T"))),
        b'y' => Type::from(ExpressionType::new(Expression::identifier("z"))),
        b't' => TableType::default().into(),
        b'a' => Type::from(ArrayType::new(name("T"))),
        b'p' => Type::from(ParentheseType::new(name("T"))),
        b's' => Type::from(StringType::from_value("lit")),
        b'b' => Type::from(true),
        b'z' => Type::nil(),
        other => panic!("bad type code {}", other as char),
    }
}

/// every arm of the type loop of `ends_with_type_cast_to_type_name_without_type_parameters`
pub const TYPE_CODES: &[&str] = &[
    "n", "N", "f", "F", ">n", ">N", ">f", ">o", ">p", ">z", "vn", "vN", "vf", "vp", "k", "g", ">>n", ">vn", ">k", ">g",
    ">>N", "un", "uN", "uf", "uz", "us", "in", "iN", "if", "it", "o", "y", "t", "a", "p", "s", "b", "z",
];

/// Gap "trailing cast": left operands of a comparison whose RIGHT spine (binary right operand,
/// unary operand, if-expression else result, nested casts) ends in a cast, for every kind of
/// type, with the left-spine-only and explicit-parenthese controls; all three generators.
fn casts() {
    let at = || Box::new(Tree::Atom);
    let operators = [4usize, 5, 6, 7, 2, 3, 8, 15, 0]; // < <= > >= == ~= + .. and
    let mut id = 0usize;
    let emit = |id: &mut usize, expression: Expression, polish: String, tag: &str| {
        let block = Block::default().with_last_statement(ReturnStatement::one(expression));
        for span in [1usize, 7, 1_000_000_000] {
            let d = dense(&block, span);
            let r = readable(&block, span);
            let t = token_based(&block);
            let h = |x: &Option<String>| x.as_ref().map(|s| hex_or_dash(s.as_bytes())).unwrap_or_else(|| "PANIC".into());
            println!(
                "cast {} {} {} {} {} {} {} {} {} {}",
                *id, span, polish, h(&d), h(&r), h(&t),
                reparse(&block, &d), reparse(&block, &r), reparse(&block, &t), tag
            );
            *id += 1;
        }
    };
    let emit_tree = |id: &mut usize, tree: Tree, tag: &str| {
        let mut polish = Vec::new();
        let mut next = 0;
        let expression = tree.build(&mut next, &mut polish);
        emit(id, expression, polish.join(","), tag);
    };
    // (a) the four basic types in every operand shape, under every operator, left and right
    for kind in ["n", "N", "f", "o"] {
        let c = |x: Box<Tree>| Box::new(Tree::Cast(kind, x));
        let lefts: Vec<(&str, Tree)> = vec![
            ("direct", Tree::Cast(kind, at())),
            ("binary_right", Tree::Bin(8, at(), c(at()))),
            ("unary_operand", Tree::Un(1, c(at()))),
            ("binary_unary", Tree::Bin(10, at(), Box::new(Tree::Un(2, c(at()))))),
            ("right_spine_2", Tree::Bin(8, at(), Box::new(Tree::Bin(10, at(), c(at()))))),
            ("right_spine_wrapped", Tree::Bin(10, at(), Box::new(Tree::Bin(8, at(), c(at()))))),
            ("nested_cast", Tree::Cast(kind, Box::new(Tree::Cast("N", at())))),
            ("nested_cast_bare_inside", Tree::Cast("N", Box::new(Tree::Cast(kind, at())))),
            ("left_spine_only", Tree::Bin(8, c(at()), at())),
            ("explicit_paren", Tree::Paren(c(at()))),
            ("cast_of_paren", Tree::Bin(9, at(), c(Box::new(Tree::Paren(Box::new(Tree::Bin(8, at(), at()))))))),
            ("cast_of_binary", Tree::Cast(kind, Box::new(Tree::Bin(8, at(), at())))),
            ("cast_of_unary", Tree::Cast(kind, Box::new(Tree::Un(1, at())))),
        ];
        for (lname, left) in &lefts {
            for o in operators {
                emit_tree(&mut id, Tree::Bin(o, Box::new(left.clone()), at()), &format!("{}:{}:left:o{}", lname, kind, o));
                emit_tree(&mut id, Tree::Bin(o, at(), Box::new(left.clone())), &format!("{}:{}:right:o{}", lname, kind, o));
            }
        }
    }
    // (b) every arm of the type walk: each type reached directly, through a unary, through the binary right
    // spine (depth 1 and 2), under "<" (wrapped iff the walk ends in a bare name) and two control operators
    for code in TYPE_CODES {
        let c = |x: Box<Tree>| Box::new(Tree::Cast(code, x));
        let lefts: Vec<(&str, Tree)> = vec![
            ("direct", Tree::Cast(code, at())),
            ("unary_operand", Tree::Un(1, c(at()))),
            ("binary_right", Tree::Bin(8, at(), c(at()))),
            ("right_spine_2", Tree::Bin(0, at(), Box::new(Tree::Bin(15, at(), Box::new(Tree::Un(0, c(at()))))))),
        ];
        for (lname, left) in &lefts {
            for o in [4usize, 5, 8] {
                emit_tree(&mut id, Tree::Bin(o, Box::new(left.clone()), at()), &format!("{}:{}:left:o{}", lname, code, o));
            }
            emit_tree(&mut id, Tree::Bin(4, at(), Box::new(left.clone())), &format!("{}:{}:right:o4", lname, code));
        }
    }
    // (c) outside the modelled fragment (round trip through darklua's parser only): if-expressions whose else
    // result ends in a cast, for every type
    let a = |n: &str| Expression::identifier(n);
    let mut unmodelled: Vec<Type> = TYPE_CODES.iter().map(|c| type_of_code(c)).collect();
    // (unions whose last member is a function type are written with type parentheses, which darklua's parser
    // keeps as a node: not comparable by tree equality, left out)
    unmodelled.push(Type::from(UnionType::new(TypeName::new("A"), type_of_code("o"))));
    unmodelled.push(FunctionType::new(VariadicTypePack::new(type_of_code(">n"))).into());
    for (k, ty) in unmodelled.iter().enumerate() {
        let cast = |x: Expression| -> Expression { TypeCastExpression::new(x, ty.clone()).into() };
        let lefts: Vec<(&str, Expression)> = vec![
            ("direct", cast(a("b"))),
            ("if_else", IfExpression::new(a("c"), a("x"), cast(a("b"))).into()),
            (
                "if_else_binary",
                IfExpression::new(a("c"), a("x"), BinaryExpression::new(BinaryOperator::Plus, a("a"), cast(a("b")))).into(),
            ),
            (
                "binary_if_else",
                BinaryExpression::new(BinaryOperator::And, a("a"), IfExpression::new(a("c"), a("x"), cast(a("b")))).into(),
            ),
            ("unary_if_else", UnaryExpression::new(UnaryOperator::Not, IfExpression::new(a("c"), a("x"), cast(a("b")))).into()),
            (
                "if_elseif_else",
                IfExpression::new(a("c"), a("x"), cast(a("b"))).with_branch(a("d"), cast(a("y"))).into(),
            ),
        ];
        for (lname, left) in &lefts {
            for o in [4usize, 5, 8] {
                let expression: Expression =
                    BinaryExpression::new(gen::BINARY_OPERATORS[o], left.clone(), a("z")).into();
                emit(&mut id, expression, "-".into(), &format!("{}:u{}:left:o{}", lname, k, o));
            }
        }
    }
}

/// all trees with exactly `n` operator nodes (parentheses are not counted and not generated here)
fn trees(n: usize) -> Vec<Tree> {
    if n == 0 {
        return vec![Tree::Atom];
    }
    let mut out = Vec::new();
    for x in trees(n - 1) {
        for u in 0..3 {
            out.push(Tree::Un(u, Box::new(x.clone())));
        }
    }
    for k in 0..n {
        let lefts = trees(k);
        let rights = trees(n - 1 - k);
        for l in &lefts {
            for r in &rights {
                for o in 0..16 {
                    out.push(Tree::Bin(o, Box::new(l.clone()), Box::new(r.clone())));
                }
            }
        }
    }
    out
}

fn emit_tree(id: &mut usize, tree: &Tree, spans: &[usize], tag: &str) {
    let mut polish = Vec::new();
    let mut next = 0;
    let expression = tree.build(&mut next, &mut polish);
    let block = Block::default().with_last_statement(ReturnStatement::one(expression));
    for span in spans {
        let d = dense(&block, *span);
        let r = readable(&block, *span);
        println!(
            "op {} {} {} {} {} {} {} {}",
            *id,
            span,
            polish.join(","),
            d.as_ref().map(|s| hex_or_dash(s.as_bytes())).unwrap_or_else(|| "PANIC".into()),
            r.as_ref().map(|s| hex_or_dash(s.as_bytes())).unwrap_or_else(|| "PANIC".into()),
            reparse(&block, &d),
            reparse(&block, &r),
            tag
        );
        *id += 1;
    }
}

fn random_tree(rng: &mut Rng, depth: usize) -> Tree {
    if depth == 0 || rng.chance(1, 5) {
        return if rng.chance(1, 12) { Tree::NegZero } else { Tree::Atom };
    }
    match rng.below(10) {
        0 | 1 | 2 => Tree::Un(rng.below(3), Box::new(random_tree(rng, depth - 1))),
        3 => Tree::Paren(Box::new(random_tree(rng, depth - 1))),
        _ => Tree::Bin(
            rng.below(16),
            Box::new(random_tree(rng, depth - 1)),
            Box::new(random_tree(rng, depth - 1)),
        ),
    }
}

fn ops(seed: u64, full: bool, sample: u64) {
    let mut id = 0usize;
    for n in 1..=2 {
        for tree in trees(n) {
            emit_tree(&mut id, &tree, &[1, 1_000_000_000], "exhaustive");
        }
    }
    let mut rng = Rng::new(seed);
    let triples = trees(3);
    if full {
        for tree in &triples {
            emit_tree(&mut id, tree, &[80], "exhaustive3");
        }
    } else {
        for _ in 0..sample {
            let tree = &triples[rng.below(triples.len())];
            emit_tree(&mut id, tree, &[80], "sample3");
        }
    }
    // deeper random trees, with explicit parentheses and negative-zero number leaves
    for k in 0..sample {
        let tree = random_tree(&mut rng, 3 + (k % 4) as usize);
        emit_tree(&mut id, &tree, &[7, 80], "random");
    }
    // -0.0 as an operand of every operator
    for o in 0..16 {
        emit_tree(&mut id, &Tree::Bin(o, Box::new(Tree::NegZero), Box::new(Tree::Atom)), &[80], "negzero");
        emit_tree(&mut id, &Tree::Bin(o, Box::new(Tree::Atom), Box::new(Tree::NegZero)), &[80], "negzero");
    }
    for u in 0..3 {
        emit_tree(&mut id, &Tree::Un(u, Box::new(Tree::NegZero)), &[80], "negzero");
    }
}

// ---- stage 3: statement boundaries --------------------------------------------------------

fn gen_one(statements: Vec<Statement>, span: usize) -> (Option<String>, Option<String>, Block) {
    let block = Block::new(statements, None);
    (dense(&block, span), readable(&block, span), block)
}

fn stmts() {
    let id = |n: &str| Expression::identifier(n);
    let bin = |o: BinaryOperator, l: Expression, r: Expression| -> Expression { BinaryExpression::new(o, l, r).into() };
    let un = |u: UnaryOperator, x: Expression| -> Expression { UnaryExpression::new(u, x).into() };
    let sum = || bin(BinaryOperator::Plus, id("c"), gen::number("1"));
    // ending expressions: the samples, and trees whose LAST operand the generator wraps in parentheses
    let mut endings: Vec<(String, Expression)> = samples().into_iter().map(|(n, e)| (n.to_owned(), e)).collect();
    endings.push(("genparen_right".into(), bin(BinaryOperator::Asterisk, id("a"), sum())));
    endings.push(("genparen_right_pow".into(), bin(BinaryOperator::Caret, id("a"), sum())));
    endings.push(("genparen_right_minus".into(), bin(BinaryOperator::Minus, id("a"), sum())));
    endings.push(("genparen_unary".into(), un(UnaryOperator::Minus, sum())));
    endings.push(("genparen_not".into(), un(UnaryOperator::Not, bin(BinaryOperator::And, id("a"), id("b")))));
    endings.push(("genparen_nested".into(), bin(BinaryOperator::Or, id("a"), un(UnaryOperator::Length, bin(BinaryOperator::Concat, id("a"), id("b"))))));
    endings.push(("explicit_paren_right".into(), bin(BinaryOperator::Asterisk, id("a"), ParentheseExpression::new(sum()).into())));
    endings.push((
        "ifexp_genparen".into(),
        IfExpression::new(id("c"), id("a"), bin(BinaryOperator::Asterisk, id("a"), sum())).into(),
    ));
    // every remaining Expression variant as the final expression, plain and nested
    let instantiation = || -> Expression {
        TypeInstantiationExpression::new(Prefix::from_name("f"), vec![TypeName::new("T").into()]).into()
    };
    endings.push(("type_instantiation".into(), instantiation()));
    endings.push(("type_instantiation_2".into(), TypeInstantiationExpression::new(
        FieldExpression::new(Prefix::from_name("m"), "f"),
        vec![TypeName::new("T").into(), TypeName::new("U").into()],
    ).into()));
    endings.push(("unary_type_instantiation".into(), un(UnaryOperator::Minus, instantiation())));
    endings.push(("binary_type_instantiation".into(), bin(BinaryOperator::Plus, id("a"), instantiation())));
    endings.push(("ifexp_type_instantiation".into(), IfExpression::new(id("c"), id("a"), instantiation()).into()));
    endings.push(("not_ifexp_type_instantiation".into(), un(UnaryOperator::Not, IfExpression::new(id("c"), id("a"), instantiation()).into())));
    endings.push(("call_of_type_instantiation".into(), FunctionCall::from_prefix(Prefix::TypeInstantiation(Box::new(
        TypeInstantiationExpression::new(Prefix::from_name("f"), vec![TypeName::new("T").into()]),
    ))).into()));
    endings.push(("cast_param".into(), TypeCastExpression::new(id("a"), type_of_code("N")).into()));
    endings.push(("cast_function".into(), TypeCastExpression::new(id("a"), type_of_code(">n")).into()));
    endings.push(("unary_cast".into(), un(UnaryOperator::Minus, TypeCastExpression::new(id("a"), type_of_code("n")).into())));
    endings.push(("binary_index".into(), bin(BinaryOperator::Plus, id("a"), IndexExpression::new(Prefix::from_name("t"), gen::number("1")).into())));
    endings.push(("unary_call".into(), un(UnaryOperator::Length, FunctionCall::from_name("f").into())));
    endings.push(("ifexp_name".into(), IfExpression::new(id("c"), gen::number("1"), id("a")).into()));
    endings.push(("ifexp_number".into(), IfExpression::new(id("c"), id("a"), gen::number("1")).into()));
    endings.push(("false".into(), Expression::from(false)));
    // number nodes that are written with parentheses: (0/0), (1/0), (-1/0)
    endings.push(("nan".into(), DecimalNumber::new(f64::NAN).into()));
    endings.push(("inf".into(), DecimalNumber::new(f64::INFINITY).into()));
    endings.push(("neg_inf".into(), DecimalNumber::new(f64::NEG_INFINITY).into()));
    let paren = |n: &str| Prefix::Parenthese(Box::new(ParentheseExpression::new(Expression::identifier(n))));
    let seconds: Vec<(&str, Statement)> = vec![
        ("paren_call", Statement::Call(FunctionCall::from_prefix(paren("g")))),
        ("paren_field_call", Statement::Call(FunctionCall::from_prefix(FieldExpression::new(paren("g"), "h")))),
        ("paren_call_call", Statement::Call(FunctionCall::from_prefix(Prefix::Call(Box::new(FunctionCall::from_prefix(paren("g"))))))),
        ("paren_method", Statement::Call(FunctionCall::from_prefix(paren("g")).with_method("m"))),
        ("paren_field_assign", AssignStatement::from_variable(FieldExpression::new(paren("g"), "x"), gen::number("1")).into()),
        ("paren_index_assign", AssignStatement::from_variable(IndexExpression::new(paren("g"), gen::number("1")), gen::number("1")).into()),
        ("paren_compound", CompoundAssignStatement::new(CompoundOperator::Plus, FieldExpression::new(paren("g"), "x"), gen::number("1")).into()),
        ("plain_call", Statement::Call(FunctionCall::from_name("g"))),
    ];
    let mut idn = 0usize;
    for (ename, e) in &endings {
        let firsts: Vec<(&str, u8, Statement)> = vec![
            ("assign", 1, assign(e.clone())),
            ("local", 1, VariableAssignment::new(vec!["l".into()], vec![e.clone()]).into()),
            ("compound", 1, CompoundAssignStatement::new(CompoundOperator::Plus, Variable::new("x"), e.clone()).into()),
            ("callarg", 1, Statement::Call(FunctionCall::from_name("f").with_argument(e.clone()))),
            ("repeat", 1, RepeatStatement::new(Block::default(), e.clone()).into()),
            ("localnovalue", 0, VariableAssignment::new(vec!["l".into()], vec![]).into()),
            ("while", 0, WhileStatement::new(Block::default(), e.clone()).into()),
        ];
        for (fname, expr_end, a) in &firsts {
            for (sname, b) in &seconds {
                for span in [1_000_000_000usize, 1] {
                    let (da, _, _) = gen_one(vec![a.clone()], span);
                    let (db, _, _) = gen_one(vec![b.clone()], span);
                    let (dab, rab, block) = gen_one(vec![a.clone(), b.clone()], span);
                    let tab = token_based(&block);
                    let h = |t: &Option<String>| t.as_ref().map(|s| hex_or_dash(s.as_bytes())).unwrap_or_else(|| "PANIC".into());
                    println!(
                        "st {} {} {} {} {} {} {} {} {} {}:{}:{} nl={},{} {} {}",
                        idn, span, expr_end, h(&da), h(&db), h(&dab), h(&rab),
                        reparse(&block, &dab), reparse(&block, &rab), ename, fname, sname,
                        newline_flag(&dab), newline_flag(&rab), h(&tab), reparse(&block, &tab)
                    );
                    idn += 1;
                }
            }
        }
    }
}

// ---- calls at small column spans ------------------------------------------------------------

/// zero- and one-argument calls (function and method form, chains, parenthesised callee) in
/// statement and expression position, with callee names of every small length, at every column
/// span from 0 to the length of the statement + 2: the "(" meets the limit at every offset
fn calls() {
    let mut id = 0usize;
    let names = ["f", "ab", "abc", "chain", "object"];
    for name in names {
        for shape in 0..10 {
            let base = || FunctionCall::from_name(name);
            let call: FunctionCall = match shape {
                0 => base(),
                1 => base().with_method("get"),
                2 => FunctionCall::from_prefix(FieldExpression::new(Prefix::from_name(name), "b")),
                3 => FunctionCall::from_prefix(Prefix::Call(Box::new(base()))),
                4 => FunctionCall::from_prefix(Prefix::Parenthese(Box::new(ParentheseExpression::new(
                    Expression::identifier(name),
                )))),
                5 => base().with_argument(Expression::identifier("x")),
                6 => FunctionCall::from_prefix(IndexExpression::new(Prefix::from_name(name), gen::number("1"))),
                7 => FunctionCall::from_prefix(Prefix::Call(Box::new(base().with_method("m")))).with_method("n"),
                8 => base().with_argument(Expression::from(base())),
                _ => FunctionCall::from_prefix(FieldExpression::new(Prefix::Call(Box::new(base())), "k")),
            };
            let blocks = vec![
                Block::new(vec![Statement::Call(call.clone())], None),
                Block::new(
                    vec![
                        AssignStatement::from_variable(Variable::new("v"), Expression::from(call.clone())).into(),
                        Statement::Call(call.clone()),
                    ],
                    None,
                ),
                Block::new(
                    vec![VariableAssignment::new(vec!["l".into()], vec![]).into(), Statement::Call(call.clone())],
                    Some(LastStatement::Return(ReturnStatement::one(Expression::from(call.clone())))),
                ),
            ];
            for block in &blocks {
                let width = dense(block, 1_000_000_000).map(|t| t.len()).unwrap_or(0);
                let mut spans: Vec<usize> = (0..=(width + 2).min(40)).collect();
                spans.push(1_000_000_000);
                emit_case(&mut id, block, &spans, "calls");
            }
        }
    }
}

// ---- long bracket strings ------------------------------------------------------------------

/// values the string writer turns (or may turn) into a long bracket literal: >= 60 printable
/// bytes, or >= 20 bytes with >= 6 new lines; containing the closers of levels 0..k-1 and
/// ending in "]" "="^j
fn long_bracket_candidates(seed: u64, random: u64) -> Vec<Vec<u8>> {
    let mut out: Vec<Vec<u8>> = Vec::new();
    let closer = |level: usize| -> Vec<u8> {
        let mut c = vec![b']'];
        c.extend(std::iter::repeat(b'=').take(level));
        c.push(b']');
        c
    };
    for multiline in [false, true] {
        for k in 0..4usize {
            for ending in 0..6usize {
                for leading_newline in [false, true] {
                    let mut v: Vec<u8> = Vec::new();
                    if leading_newline {
                        v.push(b'\n');
                    }
                    if multiline {
                        v.extend_from_slice(b"l1\nl2\nl3\nl4\nl5\nl6\nline seven ");
                    } else {
                        v.extend(std::iter::repeat(b'q').take(62));
                    }
                    for level in 0..k {
                        v.extend_from_slice(b" mid");
                        v.extend(closer(level));
                    }
                    v.extend_from_slice(b" tail");
                    match ending {
                        0 => {}
                        1 => v.push(b']'),
                        e => {
                            v.push(b']');
                            v.extend(std::iter::repeat(b'=').take(e - 1));
                        }
                    }
                    out.push(v);
                }
            }
        }
    }
    let mut rng = Rng::new(seed);
    for _ in 0..random {
        let k = rng.below(4);
        let mut v: Vec<u8> = Vec::new();
        if rng.chance(1, 4) {
            v.push(b'\n');
        }
        let filler = 60 + rng.below(20);
        for _ in 0..filler {
            v.push(if rng.chance(1, 12) { b'\n' } else { b'a' + rng.below(26) as u8 });
        }
        for level in 0..k {
            if rng.chance(5, 6) {
                let at = rng.below(v.len());
                let c = closer(level);
                v.splice(at..at, c);
            }
        }
        if !rng.chance(1, 4) {
            let j = (k + rng.below(3)).saturating_sub(1);
            v.push(b']');
            v.extend(std::iter::repeat(b'=').take(j));
        }
        out.push(v);
    }
    out
}

/// each candidate as the only string of a tree, in every position a string can take; line:
/// `str <id> <span> <value hex> <dense hex> <readable hex> <dense reparse> <readable reparse> <position>`
fn strings(seed: u64, random: u64) {
    let mut id = 0usize;
    for value in long_bracket_candidates(seed, random) {
        let string = || StringExpression::from_value(value.clone());
        let positions: Vec<(&str, Block)> = vec![
            ("return", Block::default().with_last_statement(ReturnStatement::one(string()))),
            (
                "index_key",
                Block::new(vec![assign(IndexExpression::new(Prefix::from_name("t"), string()))], None),
            ),
            (
                "call_argument",
                Block::new(vec![Statement::Call(FunctionCall::from_name("f").with_argument(string()))], None),
            ),
            (
                "string_call",
                Block::new(vec![Statement::Call(FunctionCall::from_name("f").with_arguments(string()))], None),
            ),
            (
                "table_key",
                Block::new(
                    vec![assign(TableExpression::new(vec![TableEntry::Index(Box::new(TableIndexEntry::new(
                        string(),
                        gen::number("1"),
                    )))]))],
                    None,
                ),
            ),
            (
                "concat",
                Block::new(
                    vec![assign(BinaryExpression::new(BinaryOperator::Concat, Expression::identifier("a"), string()))],
                    None,
                ),
            ),
        ];
        for (position, block) in &positions {
            for span in [0usize, 80, 1_000_000_000] {
                let d = dense(block, span);
                let r = readable(block, span);
                println!(
                    "str {} {} {} {} {} {} {} {}",
                    id,
                    span,
                    hex_or_dash(&value),
                    d.as_ref().map(|s| hex_or_dash(s.as_bytes())).unwrap_or_else(|| "PANIC".into()),
                    r.as_ref().map(|s| hex_or_dash(s.as_bytes())).unwrap_or_else(|| "PANIC".into()),
                    reparse(block, &d),
                    reparse(block, &r),
                    position
                );
                id += 1;
            }
        }
    }
}

// ---- parsed sources through `process` -----------------------------------------------------------

fn process_source(source: &str, generator: darklua_core::GeneratorParameters) -> Option<String> {
    use darklua_core::{process, Configuration, Options, Resources};
    catch_unwind(AssertUnwindSafe(|| {
        let resources = Resources::from_memory();
        resources.write("src/in.lua", source).ok()?;
        let configuration = Configuration::empty().with_generator(generator);
        let options = Options::new("src/in.lua").with_output("out/out.lua").with_configuration(configuration);
        process(&resources, options).ok()?.result().ok()?;
        resources.get("out/out.lua").ok()
    }))
    .ok()
    .flatten()
}

/// two statements written in source form with an explicit ";" (first: a statement ending with each
/// kind of expression; second: a statement starting with "("), through the front door
/// (`darklua_core::process`, rules: []) with each generator and several column spans; line:
/// `src <id> <generator> <span> <source hex> <output hex> <flag> nl=<n>`
fn sources() {
    use darklua_core::GeneratorParameters;
    let endings = [
        "f<<T>>", "m.f<<T, U>>", "-f<<T>>", "a + f<<T>>", "if c then a else f<<T>>", "not if c then a else f<<T>>",
        "f<<T>>()", "b :: T", "b :: T<P>", "-b :: T", "`s{v}`", "function() end", "{}", "{1}", "...", "b", "b.c", "b[1]",
        "f()", "f'x'", "f{}", "(b)", "'s'", "1", "nil", "true", "a * (c + 1)", "-(c + 1)", "not b", "#b", "a .. b",
        "if c then 1 else b", "if c then b else 1", "2 ^ (c + 1)",
    ];
    let firsts = ["local l = {}", "x = {}", "x, y = 1, {}", "x += {}", "repeat until {}"];
    let seconds = ["(g)()", "(g).h()", "(g):m()", "(g).x = 1", "(g)[1] = 1", "(g).x += 1", "(g)()()", "g()"];
    let mut id = 0usize;
    for ending in endings {
        for first in firsts {
            for second in seconds {
                let source = format!("{};\n{}\n", first.replace("{}", ending), second);
                let original = match catch_unwind(AssertUnwindSafe(|| Parser::default().parse(&source))) {
                    Ok(Ok(block)) => block,
                    _ => {
                        println!("src {} unparsable 0 {} - skip nl=0", id, hex(source.as_bytes()));
                        id += 1;
                        continue;
                    }
                };
                let mut generators: Vec<(&str, usize, GeneratorParameters)> =
                    vec![("retain_lines", 0, GeneratorParameters::RetainLines)];
                for span in [0usize, 1, 7, 80] {
                    generators.push(("dense", span, GeneratorParameters::Dense { column_span: span }));
                    generators.push(("readable", span, GeneratorParameters::Readable { column_span: span }));
                }
                for (name, span, parameters) in generators {
                    let output = process_source(&source, parameters);
                    println!(
                        "src {} {} {} {} {} {} nl={}",
                        id,
                        name,
                        span,
                        hex(source.as_bytes()),
                        output.as_ref().map(|s| hex_or_dash(s.as_bytes())).unwrap_or_else(|| "FAILED".into()),
                        reparse(&original, &output),
                        newline_flag(&output)
                    );
                    id += 1;
                }
            }
        }
    }
}

// ---- every generator entry point at node level ---------------------------------------------------

/// literals of an expression in the order they are written: ('s', value) for a string, ('i', text) for each
/// text part of an interpolated string (adjacent text segments are ONE part; holes separate parts)
fn collect_literals(expression: &Expression, out: &mut Vec<(char, Vec<u8>)>) {
    match expression {
        Expression::String(string) => out.push(('s', string.get_value().to_vec())),
        Expression::InterpolatedString(interpolated) => {
            let mut current: Vec<u8> = Vec::new();
            for segment in interpolated.iter_segments() {
                match segment {
                    InterpolationSegment::String(text) => current.extend_from_slice(text.get_value()),
                    InterpolationSegment::Value(value) => {
                        out.push(('i', std::mem::take(&mut current)));
                        collect_literals(value.get_expression(), out);
                    }
                }
            }
            out.push(('i', current));
        }
        Expression::Binary(binary) => {
            collect_literals(binary.left(), out);
            collect_literals(binary.right(), out);
        }
        Expression::Unary(unary) => collect_literals(unary.get_expression(), out),
        Expression::Parenthese(parenthese) => collect_literals(parenthese.inner_expression(), out),
        Expression::Call(call) => match call.get_arguments() {
            Arguments::Tuple(tuple) => tuple.iter_values().for_each(|e| collect_literals(e, out)),
            Arguments::String(string) => out.push(('s', string.get_value().to_vec())),
            Arguments::Table(table) => collect_literals(&Expression::from(table.clone()), out),
        },
        Expression::Table(table) => {
            for entry in table.get_entries() {
                match entry {
                    TableEntry::Field(entry) => collect_literals(entry.get_value(), out),
                    TableEntry::Index(entry) => {
                        collect_literals(entry.get_key(), out);
                        collect_literals(entry.get_value(), out);
                    }
                    TableEntry::Value(value) => collect_literals(value, out),
                }
            }
        }
        Expression::Index(index) => collect_literals(index.get_index(), out),
        _ => {}
    }
}

fn encode_literals(literals: &[(char, Vec<u8>)]) -> String {
    if literals.is_empty() {
        return "-".to_owned();
    }
    literals.iter().map(|(k, v)| format!("{}{}", k, hex(v))).collect::<Vec<_>>().join(",")
}

#[derive(Clone, Copy, PartialEq)]
enum Entry {
    Expression,
    Statement,
    LastStatement,
    Block,
}

fn write_with<G: LuaGenerator>(mut generator: G, entry: Entry, expression: &Expression, form: usize) -> Option<(String, String)> {
    // returns (text, prefix needed to make the text a chunk for darklua's parser)
    let e = expression.clone();
    let statement: Statement = match form {
        0 => VariableAssignment::new(vec!["s".into()], vec![e.clone()]).into(),
        1 => AssignStatement::from_variable(Variable::new("x"), e.clone()).into(),
        2 => Statement::Call(FunctionCall::from_name("f").with_argument(e.clone())),
        _ => WhileStatement::new(Block::default(), BinaryExpression::new(BinaryOperator::Equal, e.clone(), Expression::identifier("x"))).into(),
    };
    catch_unwind(AssertUnwindSafe(move || match entry {
        Entry::Expression => {
            generator.write_expression(&e);
            (generator.into_string(), "return ".to_owned())
        }
        Entry::Statement => {
            generator.write_statement(&statement);
            (generator.into_string(), String::new())
        }
        Entry::LastStatement => {
            generator.write_last_statement(&LastStatement::Return(ReturnStatement::one(e)));
            (generator.into_string(), String::new())
        }
        Entry::Block => {
            generator.write_block(&Block::new(vec![statement], Some(LastStatement::Return(ReturnStatement::one(e)))));
            (generator.into_string(), String::new())
        }
    }))
    .ok()
}

/// Trees with long multi-part tokens through EVERY entry point of both generators (write_expression,
/// write_statement, write_last_statement, write_block) at column spans 0..=40, 80, 120. Line:
/// `node <id> <dense|readable> <entry><form> <span> <literals> <text hex> <reference hex> <reparse> nl=<n>`
fn nodes() {
    let text = |t: &str| StringSegment::from_value(t.as_bytes().to_vec());
    let hole = |e: Expression| ValueSegment::new(e);
    let id = |n: &str| Expression::identifier(n);
    // `new` keeps adjacent text segments as separate segments (`with_segment` would merge them)
    let interp = |segments: Vec<InterpolationSegment>| -> Expression { InterpolatedStringExpression::new(segments).into() };
    let long_text = "hello wonderful world of interpolated text ";
    let expressions: Vec<(&str, Expression)> = vec![
        ("interp_long_text", interp(vec![text(long_text).into(), hole(id("name")).into(), text(" and more text after the hole").into()])),
        ("interp_adjacent_text", interp(vec![text("item").into(), text("42").into()])),
        ("interp_adjacent_mixed", interp(vec![text("a b").into(), text("c d").into(), hole(id("x")).into(), text("e").into(), text("f g h").into()])),
        ("interp_adjacent_digits", interp(vec![text("n").into(), text("1").into(), text("e5").into(), hole(id("x")).into(), text("0").into(), text("x1").into()])),
        ("interp_empty_segment", interp(vec![text("a").into(), text("").into(), hole(id("x")).into(), text("").into(), hole(id("y")).into(), text("").into()])),
        ("interp_holes_only", interp(vec![hole(id("a")).into(), hole(id("b")).into()])),
        ("interp_hole_with_string", interp(vec![text("n: ").into(), hole(FunctionCall::from_name("f").with_argument(StringExpression::from_value("inner string value")).into()).into(), text(" end of it").into()])),
        ("interp_special_bytes", interp(vec![text("tab\there `tick` {brace} \\ back \n line 1 2 3").into(), hole(id("x")).into(), text("\x01\x02 9").into()])),
        ("interp_table_hole", interp(vec![text("t = ").into(), hole(TableExpression::default().into()).into()])),
        ("long_quoted", StringExpression::from_value("a fairly long quoted string with spaces in it").into()),
        ("long_bracket", StringExpression::from_value("a long bracket candidate with many words so that it exceeds sixty bytes for sure").into()),
        ("long_bracket_lines", StringExpression::from_value("l1 a\nl2 b\nl3 c\nl4 d\nl5 e\nl6 f\nl7 g").into()),
        ("long_number", gen::number("123456789012345680000")),
        ("concat_literals", BinaryExpression::new(BinaryOperator::Concat, StringExpression::from_value("left part of the text "), interp(vec![text("right {").into(), hole(id("y")).into(), text("} part").into()])).into()),
        ("call_arguments", FunctionCall::from_name("format").with_argument(interp(vec![text("%d items in ").into(), hole(id("n")).into()])).with_argument(StringExpression::from_value("second argument text")).into()),
        ("table_values", TableExpression::new(vec![
            TableEntry::Field(Box::new(TableFieldEntry::new("k", interp(vec![text("value of k is ").into(), hole(id("k")).into()])))),
            TableEntry::Index(Box::new(TableIndexEntry::new(StringExpression::from_value("a key with spaces"), gen::number("1")))),
            TableEntry::Value(Box::new(StringExpression::from_value("plain value").into())),
        ]).into()),
        ("string_call", FunctionCall::from_name("print").with_arguments(StringExpression::from_value("the only argument of a string call")).into()),
        ("index_key", IndexExpression::new(Prefix::from_name("t"), interp(vec![text("key ").into(), hole(id("i")).into()])).into()),
    ];
    let mut spans: Vec<usize> = (0..=40).collect();
    spans.push(80);
    spans.push(120);
    let mut idn = 0usize;
    for (name, expression) in &expressions {
        let mut literals = Vec::new();
        collect_literals(expression, &mut literals);
        let entries: Vec<(Entry, usize, &str)> = vec![
            (Entry::Expression, 0, "expression"),
            (Entry::LastStatement, 0, "last"),
            (Entry::Statement, 0, "statement_local"),
            (Entry::Statement, 1, "statement_assign"),
            (Entry::Statement, 2, "statement_call"),
            (Entry::Statement, 3, "statement_while"),
            (Entry::Block, 1, "block"),
        ];
        for (entry, form, entry_name) in &entries {
            let mut expected = literals.clone();
            if *entry == Entry::Block {
                expected.extend(literals.clone()); // the block holds the expression twice
            }
            let reference = match write_with(DenseLuaGenerator::new(1_000_000_000), *entry, expression, *form) {
                Some((t, _)) => t,
                None => continue,
            };
            for span in &spans {
                for generator in ["dense", "readable"] {
                    let written = if generator == "dense" {
                        write_with(DenseLuaGenerator::new(*span), *entry, expression, *form)
                    } else {
                        write_with(ReadableLuaGenerator::new(*span), *entry, expression, *form)
                    };
                    let (text, flag, nl) = match written {
                        Some((t, prefix)) => {
                            let chunk = Some(format!("{}{}", prefix, t));
                            let reference_chunk = format!("{}{}", prefix, reference);
                            let flag = match (
                                catch_unwind(AssertUnwindSafe(|| Parser::default().parse(chunk.as_ref().unwrap()))),
                                Parser::default().parse(&reference_chunk),
                            ) {
                                (Ok(Ok(a)), Ok(b)) => if normalize(&a) == normalize(&b) { "ok" } else { "diff" },
                                (Ok(Err(_)), _) => "err",
                                (Err(_), _) => "panic",
                                (_, Err(_)) => "referr",
                            };
                            (hex_or_dash(t.as_bytes()), flag, newline_flag(&chunk))
                        }
                        None => ("PANIC".to_owned(), "panic", "x".to_owned()),
                    };
                    println!(
                        "node {} {} {} {} {} {} {} {} nl={} {}",
                        idn, generator, entry_name, span, encode_literals(&expected), text,
                        hex_or_dash(reference.as_bytes()), flag, nl, name
                    );
                    idn += 1;
                }
            }
        }
    }
}

// ---- type trees ------------------------------------------------------------------------------------

/// Type trees WITHOUT any ParentheseType, as prefix code (comma separated):
/// `A` `B` `C` names, `N` nil, `L` 'lit', `Y` typeof(z), `O,x` optional, `U<n>,x..` union, `I<n>,x..` intersection,
/// `F<n>,a..,r` function type with n arguments and return r where r is a type, `V,x` (variadic pack ...x) or
/// `K<n>,x..` (type pack), `R,x` array {x}, `T,x` table {p: x}
#[derive(Clone, Debug)]
enum Ty {
    Name(&'static str),
    Nil,
    Lit,
    TypeOf,
    Optional(Box<Ty>),
    Union(Vec<Ty>),
    Inter(Vec<Ty>),
    Fun(Vec<Ty>, Box<Ret>),
    Array(Box<Ty>),
    Table(Box<Ty>),
}

#[derive(Clone, Debug)]
enum Ret {
    Type(Ty),
    Variadic(Ty),
    Pack(Vec<Ty>),
}

impl Ty {
    fn code(&self, out: &mut Vec<String>) {
        match self {
            Ty::Name(n) => out.push((*n).to_owned()),
            Ty::Nil => out.push("N".into()),
            Ty::Lit => out.push("L".into()),
            Ty::TypeOf => out.push("Y".into()),
            Ty::Optional(x) => {
                out.push("O".into());
                x.code(out);
            }
            Ty::Union(l) => {
                out.push(format!("U{}", l.len()));
                l.iter().for_each(|x| x.code(out));
            }
            Ty::Inter(l) => {
                out.push(format!("I{}", l.len()));
                l.iter().for_each(|x| x.code(out));
            }
            Ty::Fun(args, ret) => {
                out.push(format!("F{}", args.len()));
                args.iter().for_each(|x| x.code(out));
                match ret.as_ref() {
                    Ret::Type(t) => t.code(out),
                    Ret::Variadic(t) => {
                        out.push("V".into());
                        t.code(out);
                    }
                    Ret::Pack(l) => {
                        out.push(format!("K{}", l.len()));
                        l.iter().for_each(|x| x.code(out));
                    }
                }
            }
            Ty::Array(x) => {
                out.push("R".into());
                x.code(out);
            }
            Ty::Table(x) => {
                out.push("T".into());
                x.code(out);
            }
        }
    }

    fn build(&self) -> Type {
        match self {
            Ty::Name(n) => TypeName::new(*n).into(),
            Ty::Nil => Type::nil(),
            Ty::Lit => Type::from(StringType::from_value("lit")),
            Ty::TypeOf => Type::from(ExpressionType::new(Expression::identifier("z"))),
            Ty::Optional(x) => Type::from(OptionalType::new(x.build())),
            Ty::Union(l) => Type::from(UnionType::from(l.iter().map(Ty::build).collect::<Vec<_>>())),
            Ty::Inter(l) => Type::from(IntersectionType::from(l.iter().map(Ty::build).collect::<Vec<_>>())),
            Ty::Fun(args, ret) => {
                let return_type: FunctionReturnType = match ret.as_ref() {
                    Ret::Type(t) => t.build().into(),
                    Ret::Variadic(t) => VariadicTypePack::new(t.build()).into(),
                    Ret::Pack(l) => {
                        let mut pack = TypePack::default();
                        for x in l {
                            pack = pack.with_type(x.build());
                        }
                        pack.into()
                    }
                };
                let mut function = FunctionType::new(return_type);
                for a in args {
                    function = function.with_argument(a.build());
                }
                function.into()
            }
            Ty::Array(x) => Type::from(ArrayType::new(x.build())),
            Ty::Table(x) => TableType::default().with_property(TablePropertyType::new("p", x.build())).into(),
        }
    }

    /// kind with the variants of function types told apart
    fn kind_detail(&self) -> String {
        match self {
            Ty::Fun(args, ret) => format!(
                "function{}{}",
                args.len(),
                match ret.as_ref() { Ret::Type(_) => "t", Ret::Variadic(_) => "v", Ret::Pack(_) => "k" }
            ),
            other => other.kind().to_owned(),
        }
    }

    fn kind(&self) -> &'static str {
        match self {
            Ty::Name(_) => "name",
            Ty::Nil => "nil",
            Ty::Lit => "string",
            Ty::TypeOf => "typeof",
            Ty::Optional(_) => "optional",
            Ty::Union(_) => "union",
            Ty::Inter(_) => "intersection",
            Ty::Fun(..) => "function",
            Ty::Array(_) => "array",
            Ty::Table(_) => "table",
        }
    }
}

fn a() -> Ty { Ty::Name("A") }
fn b() -> Ty { Ty::Name("B") }
fn c() -> Ty { Ty::Name("C") }

/// one representative of every kind of type
fn type_kinds() -> Vec<Ty> {
    vec![
        a(),
        Ty::Nil,
        Ty::Lit,
        Ty::TypeOf,
        Ty::Optional(Box::new(b())),
        Ty::Union(vec![b(), c()]),
        Ty::Inter(vec![b(), c()]),
        Ty::Fun(vec![], Box::new(Ret::Type(b()))),
        Ty::Fun(vec![b()], Box::new(Ret::Type(c()))),
        Ty::Fun(vec![], Box::new(Ret::Variadic(b()))),
        Ty::Fun(vec![], Box::new(Ret::Pack(vec![b(), c()]))),
        Ty::Array(Box::new(b())),
        Ty::Table(Box::new(b())),
    ]
}

/// every constructor with every kind of type at every member position
fn type_trees(seed: u64, random: u64) -> Vec<Ty> {
    let kinds = type_kinds();
    let mut out: Vec<Ty> = kinds.clone();
    for x in &kinds {
        out.push(Ty::Optional(Box::new(x.clone())));
        out.push(Ty::Array(Box::new(x.clone())));
        out.push(Ty::Table(Box::new(x.clone())));
        out.push(Ty::Fun(vec![], Box::new(Ret::Type(x.clone()))));
        out.push(Ty::Fun(vec![x.clone()], Box::new(Ret::Type(a()))));
        out.push(Ty::Fun(vec![a(), x.clone()], Box::new(Ret::Type(a()))));
        out.push(Ty::Fun(vec![], Box::new(Ret::Variadic(x.clone()))));
        out.push(Ty::Fun(vec![], Box::new(Ret::Pack(vec![x.clone(), a()]))));
        out.push(Ty::Fun(vec![], Box::new(Ret::Pack(vec![a(), x.clone()]))));
        for container in 0..2 {
            let mk = |l: Vec<Ty>| if container == 0 { Ty::Union(l) } else { Ty::Inter(l) };
            out.push(mk(vec![x.clone(), a()]));
            out.push(mk(vec![a(), x.clone()]));
            out.push(mk(vec![x.clone(), a(), c()]));
            out.push(mk(vec![a(), x.clone(), c()]));
            out.push(mk(vec![a(), c(), x.clone()]));
            for y in &kinds {
                out.push(mk(vec![x.clone(), y.clone()]));
            }
        }
    }
    let mut rng = Rng::new(seed);
    fn random_type(rng: &mut Rng, depth: usize) -> Ty {
        if depth == 0 {
            return [a(), b(), c(), Ty::Nil, Ty::Lit][rng.below(5)].clone();
        }
        let d = depth - 1;
        match rng.below(9) {
            0 => Ty::Optional(Box::new(random_type(rng, d))),
            1 | 2 => Ty::Union((0..2 + rng.below(2)).map(|_| random_type(rng, d)).collect()),
            3 | 4 => Ty::Inter((0..2 + rng.below(2)).map(|_| random_type(rng, d)).collect()),
            5 => {
                let args = (0..rng.below(3)).map(|_| random_type(rng, d)).collect();
                let ret = match rng.below(3) {
                    0 => Ret::Variadic(random_type(rng, d)),
                    1 => Ret::Pack((0..rng.below(3)).map(|_| random_type(rng, d)).collect()),
                    _ => Ret::Type(random_type(rng, d)),
                };
                Ty::Fun(args, Box::new(ret))
            }
            6 => Ty::Array(Box::new(random_type(rng, d))),
            7 => Ty::Table(Box::new(random_type(rng, d))),
            _ => random_type(rng, 0),
        }
    }
    for k in 0..random {
        out.push(random_type(&mut rng, 2 + (k % 2) as usize));
    }
    out
}

fn type_contexts(t: &Type) -> Vec<(&'static str, Block)> {
    let body = Block::default();
    vec![
        ("type_declaration", Block::new(vec![TypeDeclarationStatement::new("X", t.clone()).into()], None)),
        (
            "typed_local",
            Block::new(
                vec![VariableAssignment::new(vec![TypedIdentifier::new("v").with_type(t.clone())], vec![Expression::nil()]).into()],
                None,
            ),
        ),
        (
            "parameter",
            Block::new(
                vec![FunctionAssignment::from_name("f", body.clone()).with_parameter(TypedIdentifier::new("p").with_type(t.clone())).into()],
                None,
            ),
        ),
        (
            "return_type",
            Block::new(vec![FunctionAssignment::from_name("f", body.clone()).with_return_type(t.clone()).into()], None),
        ),
        (
            "cast",
            Block::default().with_last_statement(ReturnStatement::one(TypeCastExpression::new(Expression::identifier("v"), t.clone()))),
        ),
    ]
}

/// `ty <id> <context> <span> <tree code> <dense hex> <readable hex> <token-based hex> <flags d r t>`
fn types(seed: u64, random: u64) {
    let mut id = 0usize;
    for tree in type_trees(seed, random) {
        let mut code = Vec::new();
        tree.code(&mut code);
        let built = tree.build();
        for (context, block) in type_contexts(&built) {
            for span in [80usize, 7] {
                let d = dense(&block, span);
                let r = readable(&block, span);
                let t = token_based(&block);
                let h = |x: &Option<String>| x.as_ref().map(|s| hex_or_dash(s.as_bytes())).unwrap_or_else(|| "PANIC".into());
                println!(
                    "ty {} {} {} {} {} {} {} {} {} {}",
                    id, context, span, code.join(","), h(&d), h(&r), h(&t),
                    reparse(&block, &d), reparse(&block, &r), reparse(&block, &t)
                );
                id += 1;
            }
        }
    }
}

/// the EFFECTIVE parenthesisation table of each generator, read back from its output:
/// `tparen <generator> <container> <position> <child kind> <0|1>`
fn typetable() {
    let kinds = type_kinds();
    let text_of = |generator: usize, t: &Ty| -> Option<String> {
        let block = Block::new(vec![TypeDeclarationStatement::new("X", t.build()).into()], None);
        let text = match generator {
            0 => dense(&block, 1_000_000_000),
            1 => readable(&block, 1_000_000_000),
            _ => token_based(&block),
        }?;
        // drop everything up to "=" and all white space
        let after = text.splitn(2, '=').nth(1)?.to_owned();
        Some(after.chars().filter(|c| !c.is_whitespace()).collect())
    };
    for (g, generator) in ["dense", "readable", "token_based"].iter().enumerate() {
        for child in &kinds {
            let child_text = match text_of(g, child) {
                Some(t) => t,
                None => continue,
            };
            let wrapped = format!("({})", child_text);
            let row = |container: &str, position: &str, t: Ty| {
                let flag = match text_of(g, &t) {
                    Some(text) => if text.contains(&wrapped) { "1" } else { "0" },
                    None => "x",
                };
                println!("tparen {} {} {} {} {}", generator, container, position, child.kind_detail(), flag);
            };
            row("optional", "inner", Ty::Optional(Box::new(child.clone())));
            for (name, container) in [("union", 0), ("intersection", 1)] {
                let mk = |l: Vec<Ty>| if container == 0 { Ty::Union(l) } else { Ty::Inter(l) };
                row(name, "first", mk(vec![child.clone(), Ty::Name("Q"), Ty::Name("S")]));
                row(name, "middle", mk(vec![Ty::Name("Q"), child.clone(), Ty::Name("S")]));
                row(name, "last", mk(vec![Ty::Name("Q"), Ty::Name("S"), child.clone()]));
            }
        }
    }
    println!("end");
}

// ---- declarations: how many values each variable receives -----------------------------------------

/// what a declared variable receives (Lua manual 2.4.3 / 2.5: values are assigned positionally; every expression
/// but the last is truncated to one value; a function call or `...` in LAST position provides all the remaining
/// values, unless it is between parentheses; missing values are nil)
#[derive(Clone, Debug, PartialEq)]
enum Receives {
    Nil,
    /// the k-th value of the expression (printed by its Debug form)
    Value(String, usize),
}

fn is_multi_valued(expression: &Expression) -> bool {
    matches!(expression, Expression::Call(_) | Expression::VariableArguments(_))
}

fn first_value(expression: &Expression) -> Receives {
    match expression {
        Expression::Nil(_) => Receives::Nil,
        other => Receives::Value(format!("{:?}", other), 0),
    }
}

fn receives(values: &[&Expression], index: usize) -> Receives {
    let count = values.len();
    if count == 0 {
        return Receives::Nil;
    }
    if index + 1 < count {
        return first_value(values[index]);
    }
    let last = values[count - 1];
    let extra = index - (count - 1);
    if is_multi_valued(last) {
        Receives::Value(format!("{:?}", last), extra)
    } else if extra == 0 {
        first_value(last)
    } else {
        Receives::Nil
    }
}

/// compares what the first `names` variables receive in the original declaration and in the first statement of
/// the re-parsed text
fn declaration_verdict(original: &VariableAssignment, code: &Option<String>) -> String {
    let code = match code {
        Some(code) => code,
        None => return "panic".to_owned(),
    };
    let parsed = match catch_unwind(AssertUnwindSafe(|| Parser::default().parse(code))) {
        Ok(Ok(block)) => normalize_block_tokens(&block),
        Ok(Err(_)) => return "err".to_owned(),
        Err(_) => return "panic".to_owned(),
    };
    let written = match parsed.iter_statements().next() {
        Some(Statement::LocalAssign(assign)) => assign.clone(),
        _ => return "not-a-declaration".to_owned(),
    };
    if parsed.iter_statements().count() != 1 {
        return "several-statements".to_owned();
    }
    let names: Vec<&str> = original.iter_variables().map(|v| v.get_name().as_str()).collect();
    let written_names: Vec<&str> = written.iter_variables().map(|v| v.get_name().as_str()).collect();
    if written_names.len() < names.len() || written_names[..names.len()] != names[..] {
        return "names-differ".to_owned();
    }
    if written.get_assignment_kind() != original.get_assignment_kind() {
        return "kind-differs".to_owned();
    }
    let a: Vec<&Expression> = original.iter_values().collect();
    let b: Vec<&Expression> = written.iter_values().collect();
    for i in 0..names.len() {
        let (x, y) = (receives(&a, i), receives(&b, i));
        if x != y {
            return format!("variable-{}-receives-{}", i + 1, match y {
                Receives::Nil => "nil".to_owned(),
                Receives::Value(_, k) => format!("value-{}-of-another-expression", k + 1),
            });
        }
    }
    // every expression of the tree must still be evaluated, in order
    if b.len() < a.len() || a.iter().zip(b.iter()).any(|(x, y)| format!("{:?}", x) != format!("{:?}", y)) {
        return "values-differ".to_owned();
    }
    "ok".to_owned()
}

fn normalize_block_tokens(block: &Block) -> Block {
    block.clone()
}

fn declaration_values() -> Vec<(&'static str, Expression)> {
    let call = || Expression::from(FunctionCall::from_name("f"));
    vec![
        ("literal", gen::number("7")),
        ("nil", Expression::nil()),
        ("call", call()),
        ("method_call", FunctionCall::from_name("o").with_method("m").into()),
        ("varargs", Expression::variable_arguments()),
        ("paren_call", ParentheseExpression::new(call()).into()),
        ("paren_varargs", ParentheseExpression::new(Expression::variable_arguments()).into()),
        ("if_expression", IfExpression::new(Expression::identifier("c"), call(), Expression::variable_arguments()).into()),
        ("table", TableExpression::default().into()),
        ("call_of_call", FunctionCall::from_prefix(Prefix::Call(Box::new(FunctionCall::from_name("f")))).into()),
        ("string", StringExpression::from_value("s").into()),
        ("binary_call", BinaryExpression::new(BinaryOperator::Plus, call(), call()).into()),
    ]
}

/// `decl <id> <api|source> <generator> <span> <kind>:<vars>:<values>:<last>:<earlier> <text hex> <verdict>`
fn decls() {
    let names = ["a", "b", "c", "d"];
    let mut id = 0usize;
    let lasts = declaration_values();
    let earlier_patterns: Vec<(&str, Vec<Expression>)> = vec![
        ("literals", vec![gen::number("1"), gen::number("2"), gen::number("3")]),
        ("calls", vec![FunctionCall::from_name("g").into(), Expression::variable_arguments(), FunctionCall::from_name("h").into()]),
    ];
    let emit = |id: &mut usize, origin: &str, tag: &str, declaration: &VariableAssignment| {
        let block = Block::new(vec![declaration.clone().into()], None);
        let mut texts: Vec<(&str, usize, Option<String>)> = Vec::new();
        for span in [0usize, 7, 80] {
            texts.push(("dense", span, dense(&block, span)));
            texts.push(("readable", span, readable(&block, span)));
        }
        texts.push(("token_based", 0, token_based(&block)));
        for (generator, span, text) in texts {
            println!(
                "decl {} {} {} {} {} {} {}",
                *id, origin, generator, span, tag,
                text.as_ref().map(|t| hex_or_dash(t.as_bytes())).unwrap_or_else(|| "PANIC".into()),
                declaration_verdict(declaration, &text)
            );
            *id += 1;
        }
    };
    for kind in [AssignmentKind::Local, AssignmentKind::Const] {
        for variables in 1..=4usize {
            let identifiers: Vec<TypedIdentifier> = names[..variables].iter().map(|n| TypedIdentifier::new(*n)).collect();
            // no value at all
            let declaration = VariableAssignment::new(identifiers.clone(), vec![]).with_assignment_kind(kind);
            emit(&mut id, "api", &format!("{}:{}:0:none:none", kind.as_keyword(), variables), &declaration);
            for values in 1..=4usize {
                for (last_name, last) in &lasts {
                    for (earlier_name, earlier) in &earlier_patterns {
                        if values == 1 && *earlier_name == "calls" {
                            continue;
                        }
                        let mut list: Vec<Expression> = earlier[..values - 1].to_vec();
                        list.push(last.clone());
                        let declaration = VariableAssignment::new(identifiers.clone(), list).with_assignment_kind(kind);
                        emit(
                            &mut id,
                            "api",
                            &format!("{}:{}:{}:{}:{}", kind.as_keyword(), variables, values, last_name, earlier_name),
                            &declaration,
                        );
                    }
                }
            }
        }
    }
    // parsed sources through process()
    use darklua_core::GeneratorParameters;
    let last_sources = ["7", "nil", "f()", "o:m()", "...", "(f())", "(...)", "if c then f() else ...", "{}", "f()()", "'s'", "f() + f()"];
    for kind in ["local", "const"] {
        for variables in 1..=4usize {
            for values in 1..=4usize {
                for last in last_sources {
                    let mut list: Vec<&str> = ["g()", "...", "3"][..values - 1].to_vec();
                    list.push(last);
                    let source = format!("{} {} = {}\n", kind, names[..variables].join(", "), list.join(", "));
                    let original = match catch_unwind(AssertUnwindSafe(|| Parser::default().parse(&source))) {
                        Ok(Ok(block)) => block,
                        _ => {
                            println!("decl {} source unparsable 0 {}:{}:{}:{} {} skip", id, kind, variables, values, last.replace(' ', "_"), hex(source.as_bytes()));
                            id += 1;
                            continue;
                        }
                    };
                    let declaration = match original.iter_statements().next() {
                        Some(Statement::LocalAssign(assign)) => assign.clone(),
                        _ => continue,
                    };
                    let mut generators: Vec<(&str, usize, GeneratorParameters)> = vec![("retain_lines", 0, GeneratorParameters::RetainLines)];
                    for span in [1usize, 80] {
                        generators.push(("dense", span, GeneratorParameters::Dense { column_span: span }));
                        generators.push(("readable", span, GeneratorParameters::Readable { column_span: span }));
                    }
                    for (name, span, parameters) in generators {
                        let output = process_source(&source, parameters);
                        println!(
                            "decl {} source {} {} {}:{}:{}:{} {} {}",
                            id, name, span, kind, variables, values, last.replace(' ', "_"),
                            output.as_ref().map(|t| hex_or_dash(t.as_bytes())).unwrap_or_else(|| "FAILED".into()),
                            declaration_verdict(&declaration, &output)
                        );
                        id += 1;
                    }
                }
            }
        }
    }
    // the graph of the padding decision over the kinds of last value (const, two variables, one value)
    for (name, value) in declaration_values() {
        let declaration = VariableAssignment::new(vec![TypedIdentifier::new("a"), TypedIdentifier::new("b")], vec![value.clone()])
            .with_assignment_kind(AssignmentKind::Const);
        println!("declpad {} {} {}", name, declaration.required_nil_values(), if is_multi_valued(&value) { 1 } else { 0 });
    }
    println!("end");
}

// ---- literal leaves -------------------------------------------------------------------------

fn number_text_value(text: &str) -> Option<f64> {
    let token: String = text.trim().strip_prefix("return")?.trim().to_owned();
    let lower = token.to_ascii_lowercase();
    if let Some(digits) = lower.strip_prefix("0x") {
        u64::from_str_radix(digits, 16).ok().map(|v| v as f64)
    } else if let Some(digits) = lower.strip_prefix("0b") {
        u64::from_str_radix(digits, 2).ok().map(|v| v as f64)
    } else {
        token.parse::<f64>().ok()
    }
}

/// Literal leaves whose written form is delicate, each as the only literal of `return <leaf>` (long strings
/// also as an index key). Lines:
///   `leaf <id> <span> <s|i> <value hex> <dense hex> <readable hex> <dense reparse> <readable reparse> -`
///   `leaf <id> <span> n <f64 bits hex> <dense hex> <readable hex> <dense reparse> <readable reparse> <ok|bad>`
/// strings (s: quoted / long bracket, i: backtick with one string segment): the check decodes the literal token
/// with the reference decoder; numbers (n): the text is parsed by Rust's std (`str::parse::<f64>`,
/// `u64::from_str_radix`) here and must give the node's value.
fn leaves() {
    let mut id = 0usize;
    let mut line = |kind: &str, value_hex: String, block: &Block, spans: &[usize], extra: &dyn Fn(&Option<String>, &Option<String>) -> String| {
        for span in spans {
            let d = dense(block, *span);
            let r = readable(block, *span);
            let h = |x: &Option<String>| x.as_ref().map(|s| hex_or_dash(s.as_bytes())).unwrap_or_else(|| "PANIC".into());
            println!(
                "leaf {} {} {} {} {} {} {} {} {}",
                id, span, kind, value_hex, h(&d), h(&r), reparse(block, &d), reparse(block, &r), extra(&d, &r)
            );
            id += 1;
        }
    };
    let none = |_: &Option<String>, _: &Option<String>| "-".to_owned();
    let ret = |e: Expression| Block::default().with_last_statement(ReturnStatement::one(e));
    // (a) a byte without a named escape followed by each digit
    for byte in [0u8, 1, 2, 5, 6, 14, 27, 31, 127, 200] {
        for digit in b'0'..=b'9' {
            let variants: Vec<Vec<u8>> = vec![
                vec![byte, digit],
                vec![b'\'', byte, digit, b'z'],
                vec![b'\'', b'"', b'x', byte, digit, digit],
            ];
            for value in variants {
                line("s", hex_or_dash(&value), &ret(StringExpression::from_value(value.clone()).into()), &[0, 1_000_000_000], &none);
            }
            let value = vec![b'p', byte, digit];
            let interpolated = InterpolatedStringExpression::empty().with_segment(StringSegment::from_value(value.clone()));
            line("i", hex_or_dash(&value), &ret(interpolated.into()), &[0, 1_000_000_000], &none);
        }
    }
    // (b) strings long enough for the long bracket form, with the bytes that must keep them quoted or that
    // interact with the brackets
    let insertions: Vec<(&[u8], &[u8], &[u8])> = vec![
        (b"", b"", b""),
        (b"", b"\r", b""),
        (b"", b"\r\n", b""),
        (b"", b"\n\r", b""),
        (b"", b"\t", b""),
        (b"", b"\x0c", b""),
        (b"", b"\x01", b""),
        (b"", b"\x7f", b""),
        (b"\n", b"", b""),
        (b"\n", b"]]", b"]"),
        (b"", b"]]", b""),
        (b"", b"]=]", b""),
        (b"", b"", b"]"),
        (b"", b"]]", b"]="),
        (b"", b"", b"\r"),
        (b"\r\n", b"", b""),
        (b"", b"]] ]=] ]==]", b"]=="),
    ];
    let bases: Vec<Vec<u8>> = vec![vec![b'q'; 31], b"l1\nl2\nl3\nl4\nl5\nl6\nline".to_vec()];
    for base in &bases {
        for (head, middle, tail) in &insertions {
            let mut value = head.to_vec();
            value.extend_from_slice(base);
            value.extend_from_slice(middle);
            value.extend_from_slice(base);
            value.extend_from_slice(tail);
            let string = || StringExpression::from_value(value.clone());
            line("s", hex_or_dash(&value), &ret(string().into()), &[0, 80, 1_000_000_000], &none);
            let key = Block::new(vec![assign(IndexExpression::new(Prefix::from_name("t"), string()))], None);
            line("s", hex_or_dash(&value), &key, &[0, 1_000_000_000], &none);
        }
    }
    // (c) numbers
    let mut numbers: Vec<NumberExpression> = Vec::new();
    for v in [
        0.0, 1.0, 0.1, 0.5, 0.30000000000000004, 1e21, 1e22, 1.7976931348623157e308, 5e-324, 2.2250738585072014e-308,
        123456789012345680.0, 9007199254740993.0, 1e-7, 1234.5678e-90, 4.35, 1e100, 255.0, 3.141592653589793,
    ] {
        numbers.push(DecimalNumber::new(v).into());
    }
    numbers.push(DecimalNumber::new(1e10).with_exponent(10, false).into());
    numbers.push(DecimalNumber::new(1.5e-7).with_exponent(-7, true).into());
    numbers.push(DecimalNumber::new(12345.678e20).with_exponent(20, false).into());
    numbers.push(DecimalNumber::new(0.1e5).with_exponent(5, true).into());
    for v in [0u64, 1, 255, 0xdead_beef, u64::MAX, 1 << 53] {
        numbers.push(HexNumber::new(v, false).into());
        numbers.push(HexNumber::new(v, true).into());
        numbers.push(BinaryNumber::new(v, false).into());
    }
    // decimal numbers WITH a recorded exponent: exponents -25..=25, mantissas with 2 to 5 significant digits
    let mantissas = [
        "1.18", "1.32", "1.108", "1.1123", "8.1005", "2.1003", "1.193", "9.9", "3.07", "7.1234", "1.0001", "4.56", "6.2", "2.5",
    ];
    for (k, exponent) in (-25i64..=25).enumerate() {
        for j in 0..6 {
            let mantissa = mantissas[(k * 5 + j * 3) % mantissas.len()];
            if let Ok(value) = format!("{}e{}", mantissa, exponent).parse::<f64>() {
                numbers.push(DecimalNumber::new(value).with_exponent(exponent, (k + j) % 2 == 0).into());
            }
        }
    }
    for (mantissa, exponent) in [("1.18", 1), ("1.32", 1), ("1.108", 2), ("1.1123", 3), ("8.1005", 20), ("2.1003", 21), ("1.193", 22)] {
        let value: f64 = format!("{}e{}", mantissa, exponent).parse().unwrap();
        numbers.push(DecimalNumber::new(value).with_exponent(exponent, false).into());
    }
    // recorded exponents over the whole binary64 range (subnormals, the smallest and largest normal decades)
    let mut wide: Vec<i64> = (-323i64..=308).step_by(7).collect();
    wide.extend_from_slice(&[-324, -323, -322, -310, -308, -307, -300, -299, -293, -292, -291, -290, 290, 291, 292, 293, 300, 307, 308]);
    for (k, exponent) in wide.into_iter().enumerate() {
        for j in 0..3 {
            let mantissa = mantissas[(k * 3 + j * 5) % mantissas.len()];
            if let Ok(value) = format!("{}e{}", mantissa, exponent).parse::<f64>() {
                if value.is_finite() {
                    numbers.push(DecimalNumber::new(value).with_exponent(exponent, (k + j) % 2 == 0).into());
                }
            }
        }
    }
    // source literals: parsed by darklua, then written
    for source in [
        "7.3e-300", "2.5e-310", "4.9e-324", "1.7976931348623157e308", "9.99e307", "1.18e1", "1E+3", ".5e-3", "1_000e1_0", "1e22", "0.1e-5", "12.5E-10", "1.0e0", "5e-324", "1e308", "1.32E1", "8.1005e20",
        "2.1003e+21", "1.193E22", "0x1F", "0b1_01", "1_0.2_5", "3.", "0e0", "123456789e-3",
    ] {
        if let Ok(number) = std::str::FromStr::from_str(source) {
            let number: NumberExpression = number;
            numbers.push(number);
        }
    }
    for number in numbers {
        let expected = number.compute_value();
        let check = move |d: &Option<String>, r: &Option<String>| {
            let ok = |t: &Option<String>| {
                t.as_ref().and_then(|t| number_text_value(t)).map(|v| v.to_bits() == expected.to_bits()).unwrap_or(false)
            };
            if ok(d) && ok(r) { "ok".to_owned() } else { "bad".to_owned() }
        };
        line("n", format!("{:016x}", expected.to_bits()), &ret(number.clone().into()), &[0, 80], &check);
    }
}

fn main() {
    let args: Vec<String> = std::env::args().skip(1).collect();
    let args = &args[..];
    let sub = args.first().map(String::as_str).unwrap_or("");
    std::panic::set_hook(Box::new(|_| {}));
    match sub {
        "tables" => tables(arg_u64(args, "--seed", 1)),
        "stream" => stream(arg_u64(args, "--seed", 1), arg_u64(args, "--n", 100)),
        "prec" => prec(),
        "calls" => calls(),
        "casts" => casts(),
        "leaves" => leaves(),
        "nodes" => nodes(),
        "decls" => decls(),
        "types" => types(arg_u64(args, "--seed", 1), arg_u64(args, "--random", 150)),
        "typetable" => typetable(),
        "sources" => sources(),
        "strings" => strings(arg_u64(args, "--seed", 1), arg_u64(args, "--random", 40)),
        "stmts" => stmts(),
        "ops" => ops(
            arg_u64(args, "--seed", 1),
            args.iter().any(|a| a == "--full"),
            arg_u64(args, "--sample", 2000),
        ),
        "pairs" => {
            let limit = arg_u64(args, "--limit", 1000) as usize;
            if args.iter().any(|a| a == "--all-spans") {
                pairs(limit, &SPANS)
            } else if args.iter().any(|a| a == "--two-spans") {
                pairs(limit, &[7, 1_000_000_000])
            } else {
                pairs(limit, &[0, 7, 1_000_000_000])
            }
        }
        _ => {
            eprintln!("dl-c02: unknown subcommand {:?}", sub);
            std::process::exit(2);
        }
    }
}
