//! C08: static evaluator vs reference semantics.
//!
//! `dl-c08 exprs --seed S --n N [--depth D]` prints one case per line:
//!   `<coq expr term>\t<coq lv term of Evaluator::evaluate>\t<has_side_effects>\t<can_return_multiple_values>\t<lua text>`
//! Expressions are built through darklua's public node constructors (not its parser), so
//! non-canonical trees are reachable.

use darklua_core::generator::{DenseLuaGenerator, LuaGenerator};
use darklua_core::nodes::*;
use darklua_core::process::{Evaluator, LuaValue};
use hutil::{arg_u64, hex, Rng};

fn num(v: f64) -> Expression {
    Expression::from(DecimalNumber::new(v))
}

fn string(v: &[u8]) -> Expression {
    StringExpression::from_value(v.to_vec()).into()
}

fn leaves() -> Vec<Expression> {
    let mut v = vec![
        Expression::nil(),
        Expression::from(true),
        Expression::from(false),
        num(0.0),
        num(-0.0),
        num(1.0),
        num(2.0),
        num(-3.0),
        num(0.1),
        num(0.5),
        num(1e15),
        num(1e14),
        num(1e100),
        num(1e-7),
        num(1e-5),
        num(9007199254740993.0),
        num(9007199254740992.0),
        num(5e-324),
        num(1e-20),
        num(2e-20),
        num(255.0),
        num(1e21),
        num(123456789012345.0),
        num(0.30000000000000004),
        string(b""),
        string(b"0x10"),
        string(b" 1 "),
        string(b"1e2"),
        string(b"abc"),
        string(b"10"),
        string(b"-2"),
        string(b"0x"),
        string(b"1_0"),
        string(b"0b11"),
        string(b"inf"),
        string(b"nan"),
        string(b"+5"),
        string(b"--1"),
        string(b".5"),
        string(b"5."),
        string(b"1e"),
        string(b"\xc2\xa05"),
        string(b"\xff"),
        string(b"a\0b"),
        string(b"0x1p4"),
        string(b"1e400"),
        string(b"A"),
        string(b"a"),
        Expression::identifier("t"),
        Expression::identifier("n"),
        Expression::identifier("s"),
        Expression::identifier("u"),
        Expression::identifier("q"),
        FieldExpression::new(Prefix::from_name("t"), "k").into(),
        IndexExpression::new(Prefix::from_name("t"), num(1.0)).into(),
        FunctionCall::from_name("ext_f").into(),
        FunctionCall::from_name("ext_f").with_argument(num(1.0)).into(),
        Expression::variable_arguments(),
        TableExpression::default().into(),
        TableExpression::default()
            .append_array_value(FunctionCall::from_name("ext_f"))
            .into(),
        TableExpression::default().append_array_value(num(1.0)).append_field("a", Expression::from(true)).into(),
        FunctionExpression::default().into(),
        // interpolated strings holding bytes that are not UTF-8 (strings are byte sequences)
        InterpolatedStringExpression::empty()
            .with_segment(InterpolationSegment::String(StringSegment::from_value(b"\xff".to_vec())))
            .with_segment(Expression::from(true))
            .into(),
        InterpolatedStringExpression::empty()
            .with_segment(InterpolationSegment::String(StringSegment::from_value(b"a\xfe\xffb".to_vec())))
            .into(),
        InterpolatedStringExpression::empty()
            .with_segment(InterpolationSegment::String(StringSegment::from_value(b"\xc3".to_vec())))
            .with_segment(Expression::nil())
            .with_segment(InterpolationSegment::String(StringSegment::from_value(b"\xa9".to_vec())))
            .into(),
    ];
    // non-finite values: as literal nodes (rules can build them) and as the divisions that produce them
    v.push(num(f64::NAN));
    v.push(num(f64::INFINITY));
    v.push(num(f64::NEG_INFINITY));
    v.push(BinaryExpression::new(BinaryOperator::Slash, num(0.0), num(0.0)).into());
    v.push(BinaryExpression::new(BinaryOperator::Slash, num(1.0), num(0.0)).into());
    v.push(BinaryExpression::new(BinaryOperator::Slash, num(-1.0), num(0.0)).into());
    // hex / binary literals
    v.push(Expression::from(HexNumber::new(255, false)));
    v.push(Expression::from(BinaryNumber::new(5, false)));
    v.push(Expression::from(HexNumber::new(u64::MAX, true)));
    v
}

const BINOPS: &[BinaryOperator] = &[
    BinaryOperator::And,
    BinaryOperator::Or,
    BinaryOperator::Equal,
    BinaryOperator::NotEqual,
    BinaryOperator::LowerThan,
    BinaryOperator::LowerOrEqualThan,
    BinaryOperator::GreaterThan,
    BinaryOperator::GreaterOrEqualThan,
    BinaryOperator::Plus,
    BinaryOperator::Minus,
    BinaryOperator::Asterisk,
    BinaryOperator::Slash,
    BinaryOperator::DoubleSlash,
    BinaryOperator::Percent,
    BinaryOperator::Caret,
    BinaryOperator::Concat,
];

const UNOPS: &[UnaryOperator] = &[UnaryOperator::Not, UnaryOperator::Minus, UnaryOperator::Length];

fn gen(rng: &mut Rng, depth: usize, leaves: &[Expression]) -> Expression {
    if depth == 0 || rng.chance(1, 5) {
        return rng.pick(leaves).clone();
    }
    match rng.below(14) {
        0..=6 => BinaryExpression::new(
            *rng.pick(BINOPS),
            gen(rng, depth - 1, leaves),
            gen(rng, depth - 1, leaves),
        )
        .into(),
        7 | 8 => UnaryExpression::new(*rng.pick(UNOPS), gen(rng, depth - 1, leaves)).into(),
        9 => ParentheseExpression::new(gen(rng, depth - 1, leaves)).into(),
        10 => {
            let mut e = IfExpression::new(
                gen(rng, depth - 1, leaves),
                gen(rng, depth - 1, leaves),
                gen(rng, depth - 1, leaves),
            );
            for _ in 0..rng.below(3) {
                e = e.with_branch(gen(rng, depth - 1, leaves), gen(rng, depth - 1, leaves));
            }
            e.into()
        }
        11 => {
            let mut segments: Vec<InterpolationSegment> = Vec::new();
            for _ in 0..rng.below(4) {
                if rng.chance(1, 2) {
                    segments.push(StringSegment::from_value(rng.pick(&[&b"x"[..], b"", b"a b", b"1"]).to_vec()).into());
                } else {
                    segments.push(ValueSegment::new(gen(rng, depth - 1, leaves)).into());
                }
            }
            InterpolatedStringExpression::new(segments).into()
        }
        12 => TypeCastExpression::new(gen(rng, depth - 1, leaves), TypeName::new("number")).into(),
        _ => TableExpression::default()
            .append_array_value(gen(rng, depth - 1, leaves))
            .append_index(gen(rng, depth - 1, leaves), gen(rng, depth - 1, leaves))
            .into(),
    }
}

fn lv_to_coq(v: &LuaValue) -> String {
    match v {
        LuaValue::False => "LFalse".into(),
        LuaValue::Function => "LFunction".into(),
        LuaValue::Nil => "LNil".into(),
        LuaValue::Number(x) => format!("(LNumber (of_bits {}))", x.to_bits()),
        LuaValue::String(s) => format!("(LString (bx \"{}\"))", hex(s)),
        LuaValue::Table => "LTable".into(),
        LuaValue::True => "LTrue".into(),
        LuaValue::Unknown => "LUnknown".into(),
    }
}

fn emit(e: &Expression) {
    let evaluator = Evaluator::default();
    let value = evaluator.evaluate(e);
    let se = evaluator.has_side_effects(e);
    let multi = evaluator.can_return_multiple_values(e);
    let mut generator = DenseLuaGenerator::new(100000);
    generator.write_expression(e);
    let text = generator.into_string().replace(['\n', '\t'], " ");
    println!(
        "{}\t{}\t{}\t{}\t{}",
        astdump::expr_to_coq(e),
        lv_to_coq(&value),
        se,
        multi,
        text
    );
}

fn main() {
    let args: Vec<String> = std::env::args().skip(1).collect();
    let sub = args.first().map(String::as_str).unwrap_or("");
    let leaves = leaves();
    match sub {
        "exprs" => {
            let seed = arg_u64(&args, "--seed", 1);
            let n = arg_u64(&args, "--n", 1000);
            let depth = arg_u64(&args, "--depth", 4) as usize;
            let mut rng = Rng::new(seed);
            // depth 1: every leaf under every unary operator and in parentheses
            for l in &leaves {
                emit(l);
                for op in UNOPS {
                    emit(&UnaryExpression::new(*op, l.clone()).into());
                }
            }
            // depth 2 slice: every binary operator over pairs of leaves (sampled in quick mode)
            let full = args.iter().any(|a| a == "--exhaustive2");
            for op in BINOPS {
                for a in &leaves {
                    for b in &leaves {
                        if full || rng.chance(1, 12) {
                            emit(&BinaryExpression::new(*op, a.clone(), b.clone()).into());
                        }
                    }
                }
            }
            // if-expressions: every combination of condition kinds (known false / true / nil, opaque,
            // call) and result kinds (literal, call, field read) with one elseif branch
            let conds: Vec<Expression> = vec![
                Expression::from(false),
                Expression::from(true),
                Expression::nil(),
                Expression::identifier("u"),
                Expression::identifier("n"),
                FunctionCall::from_name("ext_f").into(),
            ];
            let results: Vec<Expression> = vec![
                num(1.0),
                FunctionCall::from_name("ext_f").into(),
                FieldExpression::new(Prefix::from_name("t"), "k").into(),
                Expression::nil(),
            ];
            for c1 in &conds {
                for c2 in &conds {
                    for r1 in &results {
                        for r2 in &results {
                            for r3 in &results {
                                if full || rng.chance(1, 3) {
                                    emit(&IfExpression::new(c1.clone(), r1.clone(), r3.clone())
                                        .with_branch(c2.clone(), r2.clone())
                                        .into());
                                }
                            }
                        }
                    }
                }
            }
            // comparisons: every pair of numeric leaves and of identifiers (the same name on both sides included:
            // a NaN is not equal to itself, -0 equals 0), never sampled
            let comparable: Vec<Expression> = vec![
                num(0.0), num(-0.0), num(1.0), num(-3.0), num(0.1), num(1e-20), num(2e-20), num(5e-324),
                num(9007199254740993.0), num(9007199254740992.0), num(f64::NAN), num(f64::INFINITY), num(f64::NEG_INFINITY),
                BinaryExpression::new(BinaryOperator::Slash, num(0.0), num(0.0)).into(),
                BinaryExpression::new(BinaryOperator::Asterisk, num(0.0), num(-1.0)).into(),
                BinaryExpression::new(BinaryOperator::Plus, num(0.1), num(0.2)).into(),
                num(0.3), num(0.30000000000000004),
                Expression::identifier("n"), Expression::identifier("q"), Expression::identifier("u"),
                Expression::identifier("t"), Expression::identifier("s"),
                string(b""), string(b"0"), string(b"a"),
            ];
            for op in [BinaryOperator::Equal, BinaryOperator::NotEqual, BinaryOperator::LowerThan, BinaryOperator::LowerOrEqualThan] {
                for a in &comparable {
                    for b in &comparable {
                        let cmp: Expression = BinaryExpression::new(op, a.clone(), b.clone()).into();
                        emit(&cmp);
                        if matches!(op, BinaryOperator::Equal | BinaryOperator::NotEqual) && (full || rng.chance(1, 8)) {
                            emit(&IfExpression::new(cmp.clone(), string(b"yes"), string(b"no")).into());
                            emit(&UnaryExpression::new(UnaryOperator::Not, cmp).into());
                        }
                    }
                }
            }
            // `^`: integral exponents of every size (beyond i32 / i64 conversions, both parities), negative
            // bases, exact small powers; also as the operand of another operator and of a comparison
            let bases = [-1.0, 1.0, -2.0, 2.0, -0.5, 0.5, 3.0, -3.0, 10.0, 0.0, -0.0, 4.0, 1024.0, f64::INFINITY, f64::NEG_INFINITY];
            let exponents = [
                2.0, 3.0, -1.0, -2.0, 10.0, 31.0, 32.0, 53.0, 63.0, 64.0, 1023.0, 1024.0, -1074.0, -1075.0,
                2147483647.0, 2147483648.0, 2147483649.0, -2147483648.0, -2147483649.0, 4294967295.0,
                4294967296.0, 4294967297.0, 9007199254740991.0, 9007199254740992.0, 1e300, -1e300,
                f64::INFINITY, f64::NEG_INFINITY,
            ];
            for b in bases {
                for e in exponents {
                    let pow: Expression = BinaryExpression::new(BinaryOperator::Caret, num(b), num(e)).into();
                    emit(&pow);
                    if full || rng.chance(1, 6) {
                        emit(&BinaryExpression::new(BinaryOperator::Equal, pow.clone(), num(1.0)).into());
                        emit(&BinaryExpression::new(BinaryOperator::LowerThan, pow.clone(), num(0.0)).into());
                        emit(&BinaryExpression::new(BinaryOperator::Concat, pow.clone(), string(b"")).into());
                    }
                }
            }
            for _ in 0..n {
                let d = 1 + rng.below(depth);
                emit(&gen(&mut rng, d, &leaves));
            }
        }
        _ => {
            eprintln!("dl-c08: unknown subcommand {:?}", sub);
            std::process::exit(2);
        }
    }
}
