//! C10: incremental reprocessing (the `--watch` path) against processing from scratch.
//!
//! Drives the real `darklua_core::WorkerTree` over `Resources::from_memory()` with the calls
//! `src/cli/utils/file_watcher.rs` makes for file-system events, and after every `process`
//! compares the whole output tree with a fresh `darklua_core::process` over the same inputs.
//!
//!   dl-c10 run "<history>"                       one history, full trace (JSON line)
//!   dl-c10 enum --len L [--alphabet reduced|full]   every valid history of length <= L
//!   dl-c10 random --seed S --n N --len L            seeded random histories
//!   dl-c10 breakfix                               break / repair / touch every bundled file
//!   dl-c10 luaurc                                 `.luaurc` aliases changing between passes (path and luau mode)
//!   dl-c10 disk --root DIR                        fixed histories on a real directory (pruning)
//!
//! History syntax (space separated, an initial process is implicit, as `--watch` does):
//!   E:<path>:<n>   edit an existing file to version n      -> source_changed(path)
//!   X:<path>       edit an existing file to a syntax error -> source_changed(path)
//!   A:<path>:<n>   create a file                           -> collect_work (watcher style)
//!   S:<path>:<n>   create a file                           -> add_source(path, out path)
//!   R:<path>       remove a file                           -> remove_source(path)
//!   D:<path>       remove a directory                      -> remove_source(path)
//!   C:<k>          replace the configuration file          -> source_changed(config path)
//!   P              process

use std::collections::BTreeMap;
use std::panic::{catch_unwind, AssertUnwindSafe};
use std::path::{Path, PathBuf};
use std::sync::mpsc;
use std::time::Duration;

use darklua_core::{Options, Resources, WorkerTree};
use hutil::{arg_u64, arg_value, hex, Rng};
use serde_json::{json, Value};

const INPUT: &str = "src";
const OUTPUT: &str = "out";
const CONFIG: &str = ".darklua.json";
const ENTRY: &str = "src/app/main.lua";

const CONF: &str = "lib/conf.json";
const SIBLINGS: [&str; 4] = [
    "src/sub.lua",
    "src/sub_extra/x.lua",
    "src/sub/deep.lua",
    "src/sub/deep_x/y.lua",
];
const LUAURC: &str = ".luaurc";
/// a closer `.luaurc` shadows the one at the root for the files below `src/`
const NESTED_LUAURC: &str = "src/.luaurc";
const PACKAGES: [&str; 2] = ["packages_v1/value.lua", "packages_v2/value.lua"];

/// where the alias `@Packages` of `.luaurc` version `n` points (odd: v1, even: v2)
fn alias_target(n: u32) -> &'static str {
    if n % 2 == 1 {
        PACKAGES[0]
    } else {
        PACKAGES[1]
    }
}

/// content of a project file at version `n`:
/// 0 = does not parse; for `lib/m3.lua`, 200.. = requires `./m1` back (a require cycle);
/// for the entry, 100.. = no require at all
fn template(path: &str, n: u32) -> String {
    if path == LUAURC || path == NESTED_LUAURC {
        return if n == 0 {
            "{ \"aliases\": \n".to_owned()
        } else {
            format!(
                "{{ \"aliases\": {{ \"Packages\": \"{}{}\" }} }}\n",
                if path == NESTED_LUAURC { "../" } else { "" },
                alias_target(n).trim_end_matches("/value.lua")
            )
        };
    }
    if path.starts_with("packages_v") && n != 0 {
        return format!("-- {p} v{n}\nreturn {base} + {n}\n", p = path, n = n, base = if path == PACKAGES[0] { 100 } else { 200 });
    }
    if path == CONF {
        return if n == 0 {
            "{ \"v\": \n".to_owned()
        } else {
            format!("{{ \"v\": {} }}\n", n)
        };
    }
    if n == 0 {
        return format!("local x = = 1 -- broken {}\n", path);
    }
    if path == ENTRY && n >= 100 {
        return format!("-- entry without requires v{n}\nreturn 1 + {n}\n", n = n);
    }
    match path {
        ENTRY => format!(
            "local m1 = require(\"../../lib/m1\")\nlocal b = require(\"../sub/b\")\nlocal m3 = require(\"../../lib/m3\")\nlocal pkg = require(\"@Packages/value\")\n-- entry v{n}\nreturn m1.v + b + m3.v + pkg + (1 + {n})\n",
            n = n
        ),
        "lib/m1.lua" => format!(
            "local m3 = require(\"./m3\")\nlocal conf = require(\"./conf.json\")\n-- m1 v{n}\nreturn {{ v = m3.v + conf.v + {n} }}\n",
            n = n
        ),
        "lib/m3.lua" if n >= 200 => format!(
            "local m1 = require(\"./m1\")\n-- m3 cyclic v{n}\nreturn {{ v = {n} }}\n",
            n = n
        ),
        "lib/m3.lua" => format!("-- m3 v{n}\nreturn {{ v = {n} }}\n", n = n),
        _ => format!("-- {p} v{n}\nlocal x = 1 + {n}\nreturn x\n", p = path, n = n),
    }
}

/// the files the entry pulls in; a version is healthy when the file parses and is not cyclic
const BUNDLED: [&str; 4] = ["lib/m1.lua", "lib/m3.lua", "src/sub/b.lua", CONF];

fn healthy_version(path: &str, n: u32) -> bool {
    n != 0 && !(path == "lib/m3.lua" && n >= 200)
}

/// the requires written in the templates (`alias`: where `@Packages/value` resolves, if it does)
fn requires_with(path: &str, n: u32, alias: Option<&'static str>) -> Vec<&'static str> {
    match path {
        ENTRY if n != 0 && n < 100 => {
            let mut all = vec!["lib/m1.lua", "src/sub/b.lua", "lib/m3.lua"];
            all.extend(alias);
            all
        }
        _ => requires(path, n),
    }
}

fn requires(path: &str, n: u32) -> Vec<&'static str> {
    match path {
        ENTRY if n != 0 && n < 100 => vec!["lib/m1.lua", "src/sub/b.lua", "lib/m3.lua"],
        "lib/m1.lua" if n != 0 => vec!["lib/m3.lua", CONF],
        "lib/m3.lua" if n >= 200 => vec!["lib/m1.lua"],
        _ => Vec::new(),
    }
}

/// the file exists, parses, and so does everything below it: the bundler inlines it for sure
fn certainly_inlined(versions: &BTreeMap<String, u32>, path: &str) -> bool {
    match versions.get(path) {
        Some(n) if healthy_version(path, *n) => requires(path, *n)
            .iter()
            .all(|child| certainly_inlined(versions, child)),
        _ => false,
    }
}

/// files that a bundle of the entry certainly read and inlined, even if the bundle fails elsewhere
fn read_before_failure(versions: &BTreeMap<String, u32>) -> Vec<String> {
    let mut result = Vec::new();
    // `.luaurc`: missing -> the alias does not resolve (that require fails, the others are
    // inlined); present but not JSON -> the bundler stops before reading anything
    let alias = match versions.get(NESTED_LUAURC).or_else(|| versions.get(LUAURC)) {
        Some(0) => return Vec::new(),
        Some(n) => Some(alias_target(*n)),
        None => None,
    };
    let mut stack: Vec<&str> = match versions.get(ENTRY) {
        Some(n) => requires_with(ENTRY, *n, alias),
        None => Vec::new(),
    };
    while let Some(path) = stack.pop() {
        if certainly_inlined(versions, path) && !result.iter().any(|r| r == path) {
            result.push(path.to_owned());
            stack.extend(requires(path, versions[path]));
        }
    }
    result.sort();
    result
}

const N_CONFIGS: u32 = 6;
/// configuration 6 (bundle in `luau` require mode) is used by the `.luaurc` stream only

/// configuration file variants: rules, rule filters, generator
fn config_text(k: u32) -> String {
    let bundle = r#""bundle": { "require_mode": "path", "modules_identifier": "__M" }"#;
    match k {
        0 => format!(r#"{{ "rules": [], "generator": "retain_lines", {} }}"#, bundle),
        1 => format!(
            r#"{{ "rules": ["remove_comments", "compute_expression"], "generator": "retain_lines", {} }}"#,
            bundle
        ),
        2 => format!(
            r#"{{ "rules": [{{ "rule": "remove_comments", "apply_to_files": ["src/sub/**"] }}], "generator": "retain_lines", {} }}"#,
            bundle
        ),
        3 => format!(
            r#"{{ "rules": [{{ "rule": "remove_comments", "skip_files": ["src/sub/**"] }}], "generator": "retain_lines", {} }}"#,
            bundle
        ),
        4 => format!(r#"{{ "rules": [], "generator": "dense", {} }}"#, bundle),
        6 => r#"{ "rules": [], "generator": "retain_lines", "bundle": { "require_mode": "luau", "modules_identifier": "__M" } }"#.to_owned(),
        _ => format!(
            r#"{{ "rules": ["remove_comments"], "generator": "retain_lines", {} }}"#,
            bundle
        ),
    }
}

fn initial_files() -> BTreeMap<String, String> {
    let mut files = BTreeMap::new();
    for path in [
        "src/a.lua",
        "src/sub/b.lua",
        "src/sub/deep/c.lua",
        ENTRY,
        "lib/m1.lua",
        "lib/m3.lua",
        CONF,
        LUAURC,
        PACKAGES[0],
        PACKAGES[1],
    ] {
        files.insert(path.to_owned(), template(path, 1));
    }
    // siblings whose names merely START like a directory that histories remove: `src/sub` and
    // `src/sub/deep` are directories, these are not below them
    for path in SIBLINGS {
        files.insert(path.to_owned(), template(path, 1));
    }
    files.insert("src/notes.txt".to_owned(), "not lua\n".to_owned());
    // foreign files that exist in the output folder before the first run
    files.insert("out/README.md".to_owned(), "foreign readme\n".to_owned());
    files.insert("out/keep/data.json".to_owned(), "{}\n".to_owned());
    files.insert("out/old.lua".to_owned(), "return 'foreign lua'\n".to_owned());
    files.insert(CONFIG.to_owned(), config_text(0));
    files
}

#[derive(Debug, Clone, PartialEq, Eq)]
enum Ev {
    Edit(String, u32),
    Break(String),
    Add(String, u32),
    AddSource(String, u32),
    Remove(String),
    RemoveDir(String),
    Config(u32),
    Process,
}

impl Ev {
    fn render(&self) -> String {
        match self {
            Ev::Edit(p, n) => format!("E:{}:{}", p, n),
            Ev::Break(p) => format!("X:{}", p),
            Ev::Add(p, n) => format!("A:{}:{}", p, n),
            Ev::AddSource(p, n) => format!("S:{}:{}", p, n),
            Ev::Remove(p) => format!("R:{}", p),
            Ev::RemoveDir(p) => format!("D:{}", p),
            Ev::Config(k) => format!("C:{}", k),
            Ev::Process => "P".to_owned(),
        }
    }

    fn parse(text: &str) -> Option<Ev> {
        let parts: Vec<&str> = text.split(':').collect();
        Some(match (parts[0], parts.len()) {
            ("E", 3) => Ev::Edit(parts[1].to_owned(), parts[2].parse().ok()?),
            ("X", 2) => Ev::Break(parts[1].to_owned()),
            ("A", 3) => Ev::Add(parts[1].to_owned(), parts[2].parse().ok()?),
            ("S", 3) => Ev::AddSource(parts[1].to_owned(), parts[2].parse().ok()?),
            ("R", 2) => Ev::Remove(parts[1].to_owned()),
            ("D", 2) => Ev::RemoveDir(parts[1].to_owned()),
            ("C", 2) => Ev::Config(parts[1].parse().ok()?),
            ("P", 1) => Ev::Process,
            _ => return None,
        })
    }
}

fn render_history(history: &[Ev]) -> String {
    history
        .iter()
        .map(Ev::render)
        .collect::<Vec<_>>()
        .join(" ")
}

fn parse_history(text: &str) -> Vec<Ev> {
    text.split_whitespace()
        .map(|token| Ev::parse(token).unwrap_or_else(|| panic!("bad event `{}`", token)))
        .collect()
}

fn is_under(path: &str, dir: &str) -> bool {
    Path::new(path).starts_with(dir) && path != dir
}

fn is_lua(path: &str) -> bool {
    path.ends_with(".lua") || path.ends_with(".luau")
}

fn output_of(source: &str) -> String {
    let relative = Path::new(source).strip_prefix(INPUT).expect("source under input");
    Path::new(OUTPUT).join(relative).display().to_string()
}

fn path_text(path: &Path) -> String {
    path.display().to_string()
}

fn options() -> Options {
    Options::new(INPUT)
        .with_output(OUTPUT)
        .with_configuration_at(CONFIG)
}

/// disk mode: (directory of the worker's project, directory of the fresh runs, whether the output
/// folder exists before the first run)
static DISK: std::sync::Mutex<Option<(PathBuf, PathBuf, bool)>> = std::sync::Mutex::new(None);

fn disk_mode() -> Option<(PathBuf, PathBuf, bool)> {
    DISK.lock().unwrap_or_else(|p| p.into_inner()).clone()
}

fn make_resources() -> Resources {
    if disk_mode().is_some() {
        Resources::from_file_system()
    } else {
        Resources::from_memory()
    }
}

/// directories below the output folder (disk mode), relative paths
fn output_dirs() -> Vec<String> {
    let mut dirs = Vec::new();
    let mut stack = vec![PathBuf::from(OUTPUT)];
    while let Some(dir) = stack.pop() {
        if !dir.is_dir() {
            continue;
        }
        dirs.push(path_text(&dir));
        if let Ok(entries) = std::fs::read_dir(&dir) {
            for entry in entries.flatten() {
                if entry.path().is_dir() {
                    stack.push(entry.path());
                }
            }
        }
    }
    dirs.sort();
    dirs
}

fn output_tree(resources: &Resources) -> BTreeMap<String, String> {
    resources
        .walk(OUTPUT)
        .map(|path| {
            let content = resources.get(&path).unwrap_or_default();
            (path_text(&path), content)
        })
        .collect()
}

/// contents are replaced by small numbers; the table is printed as `{"blob":id,"hex":..}` lines
static BLOBS: std::sync::Mutex<Option<(std::collections::HashMap<String, u64>, Vec<String>)>> =
    std::sync::Mutex::new(None);

fn intern(content: &str) -> u64 {
    let mut guard = BLOBS.lock().unwrap_or_else(|poisoned| poisoned.into_inner());
    let table = guard.get_or_insert_with(|| (std::collections::HashMap::new(), Vec::new()));
    if let Some(id) = table.0.get(content) {
        return *id;
    }
    let id = table.0.len() as u64;
    table.0.insert(content.to_owned(), id);
    table
        .1
        .push(format!("{{\"blob\":{},\"hex\":\"{}\"}}", id, hex(content.as_bytes())));
    id
}

fn flush_blobs() {
    let mut guard = BLOBS.lock().unwrap_or_else(|poisoned| poisoned.into_inner());
    if let Some(table) = guard.as_mut() {
        for line in table.1.drain(..) {
            println!("{}", line);
        }
    }
}

fn tree_json(tree: &BTreeMap<String, String>) -> Value {
    Value::Object(
        tree.iter()
            .map(|(path, content)| (path.clone(), json!(intern(content))))
            .collect(),
    )
}

fn dump_json(tree: &WorkerTree) -> Value {
    let dump = tree.verif_dump();
    let occupant: BTreeMap<usize, String> = dump
        .items
        .iter()
        .map(|item| (item.0, path_text(&item.1)))
        .collect();
    let mut items: Vec<Value> = dump
        .items
        .iter()
        .map(|(index, source, output, status, error, external)| {
            json!({
                "index": index,
                "source": path_text(source),
                "output": path_text(output),
                "status": status,
                "error": error,
                "deps": external.iter().map(|p| path_text(p)).collect::<Vec<_>>(),
            })
        })
        .collect();
    items.sort_by_key(|item| item["source"].as_str().map(str::to_owned));
    let ext: Vec<Value> = dump
        .external_dependencies
        .iter()
        .map(|(path, indexes)| {
            let mut who: Vec<String> = indexes
                .iter()
                .map(|(index, occupied)| {
                    if *occupied {
                        occupant.get(index).cloned().unwrap_or_else(|| "?".to_owned())
                    } else {
                        "<vacant>".to_owned()
                    }
                })
                .collect();
            who.sort();
            json!([path_text(path), who])
        })
        .collect();
    let mut remove_files: Vec<String> = dump.remove_files.iter().map(|p| path_text(p)).collect();
    remove_files.sort();
    json!({
        "items": items,
        "ext": ext,
        "remove_files": remove_files,
        "has_hash": dump.last_configuration_hash.is_some(),
        "hash": dump.last_configuration_hash.map(|h| format!("{:016x}", h)),
        "snapshot": dump.output_structure.map(|entries| entries.iter().map(|(p, _)| path_text(p)).collect::<Vec<_>>()),
        "edges": dump.edge_count,
    })
}

/// the model-independent oracle: a fresh run over the user's files into an empty output folder
fn fresh_run(user_files: &BTreeMap<String, String>) -> (Value, BTreeMap<String, String>) {
    // the oracle must not share any thread-local state of darklua (the `.luaurc` cache) with the
    // long-lived worker: it runs `darklua_core::process` on fresh resources in a NEW thread
    let files = user_files.clone();
    std::thread::spawn(move || fresh_run_here(&files))
        .join()
        .unwrap_or_else(|_| (json!({ "out": {}, "state": Value::Null, "error": "PANIC" }), BTreeMap::new()))
}

fn fresh_run_here(user_files: &BTreeMap<String, String>) -> (Value, BTreeMap<String, String>) {
    let disk = disk_mode();
    if let Some((_, fresh_dir, _)) = disk.as_ref() {
        let _ = std::fs::remove_dir_all(fresh_dir);
        std::fs::create_dir_all(fresh_dir).expect("fresh dir");
        std::env::set_current_dir(fresh_dir).expect("cwd");
    }
    let resources = make_resources();
    for (path, content) in user_files {
        if !Path::new(path).starts_with(OUTPUT) {
            resources.write(path, content).expect("write");
        }
    }
    let result = catch_unwind(AssertUnwindSafe(|| darklua_core::process(&resources, options())));
    let dirs = if disk.is_some() { output_dirs() } else { Vec::new() };
    let outcome = fresh_outcome(result, &resources, dirs);
    if let Some((case_dir, _, _)) = disk.as_ref() {
        std::env::set_current_dir(case_dir).expect("cwd");
    }
    outcome
}

fn fresh_outcome(
    result: std::thread::Result<Result<WorkerTree, darklua_core::DarkluaError>>,
    resources: &Resources,
    dirs: Vec<String>,
) -> (Value, BTreeMap<String, String>) {
    match result {
        Ok(Ok(tree)) => {
            let out = output_tree(resources);
            (
                json!({ "out": tree_json(&out), "state": dump_json(&tree), "error": Value::Null, "dirs": dirs }),
                out,
            )
        }
        Ok(Err(err)) => (
            json!({ "out": {}, "state": Value::Null, "error": err.to_string() }),
            BTreeMap::new(),
        ),
        Err(_) => (
            json!({ "out": {}, "state": Value::Null, "error": "PANIC" }),
            BTreeMap::new(),
        ),
    }
}

fn panic_text(payload: Box<dyn std::any::Any + Send>) -> String {
    if let Some(text) = payload.downcast_ref::<&str>() {
        (*text).to_owned()
    } else if let Some(text) = payload.downcast_ref::<String>() {
        text.clone()
    } else {
        "panic".to_owned()
    }
}

struct World {
    resources: Resources,
    /// the user's view: every file except the ones the worker writes
    user_files: BTreeMap<String, String>,
    /// template version of every user file (what the harness wrote, independent of darklua)
    versions: BTreeMap<String, u32>,
    tree: Option<WorkerTree>,
}

impl World {
    fn new() -> Self {
        let disk = disk_mode();
        let mut user_files = initial_files();
        if let Some((case_dir, _, preexisting)) = disk.as_ref() {
            let _ = std::fs::remove_dir_all(case_dir);
            std::fs::create_dir_all(case_dir).expect("case dir");
            std::env::set_current_dir(case_dir).expect("cwd");
            if *preexisting {
                // a foreign empty directory that must survive
                std::fs::create_dir_all("out/emptykeep").expect("mkdir");
            } else {
                user_files.retain(|path, _| !Path::new(path).starts_with(OUTPUT));
            }
        }
        let resources = make_resources();
        for (path, content) in &user_files {
            resources.write(path, content).expect("write");
        }
        let versions = user_files.keys().map(|path| (path.clone(), 1)).collect();
        World {
            resources,
            user_files,
            versions,
            tree: None,
        }
    }

    fn write(&mut self, path: &str, content: String) {
        self.resources.write(path, &content).expect("memory write");
        self.user_files.insert(path.to_owned(), content);
    }

    fn foreign(&self) -> BTreeMap<String, String> {
        self.user_files
            .iter()
            .filter(|(path, _)| Path::new(path).starts_with(OUTPUT))
            .map(|(p, c)| (p.clone(), c.clone()))
            .collect()
    }

    /// apply one event: the file-system change, then the call the watcher makes for it
    fn apply(&mut self, event: &Ev) -> Result<Option<String>, String> {
        // returns Ok(Some(error text)) when `process` returned an error
        match event {
            Ev::Edit(path, n) => {
                self.versions.insert(path.clone(), *n);
                self.write(path, template(path, *n));
                if let Some(tree) = self.tree.as_mut() {
                    tree.source_changed(path);
                }
            }
            Ev::Break(path) => {
                self.versions.insert(path.clone(), 0);
                self.write(path, template(path, 0));
                if let Some(tree) = self.tree.as_mut() {
                    tree.source_changed(path);
                }
            }
            Ev::Add(path, n) => {
                self.versions.insert(path.clone(), *n);
                self.write(path, template(path, *n));
                if let Some(tree) = self.tree.as_mut() {
                    if let Err(err) = tree.collect_work(&self.resources, &options()) {
                        return Ok(Some(err.to_string()));
                    }
                }
            }
            Ev::AddSource(path, n) => {
                self.versions.insert(path.clone(), *n);
                self.write(path, template(path, *n));
                if let Some(tree) = self.tree.as_mut() {
                    let output = if Path::new(path).starts_with(INPUT) {
                        Some(PathBuf::from(output_of(path)))
                    } else {
                        None
                    };
                    if output.is_some() {
                        tree.add_source(path, output);
                    } else {
                        // not a source: the watcher would only see a creation
                        if let Err(err) = tree.collect_work(&self.resources, &options()) {
                            return Ok(Some(err.to_string()));
                        }
                    }
                }
            }
            Ev::Remove(path) => {
                self.resources.remove(path).expect("memory remove");
                self.user_files.remove(path);
                self.versions.remove(path);
                if let Some(tree) = self.tree.as_mut() {
                    tree.remove_source(path);
                }
            }
            Ev::RemoveDir(dir) => {
                let doomed: Vec<String> = self
                    .user_files
                    .keys()
                    .filter(|path| is_under(path, dir))
                    .cloned()
                    .collect();
                for path in doomed {
                    self.resources.remove(&path).expect("memory remove");
                    self.user_files.remove(&path);
                    self.versions.remove(&path);
                }
                if let Some(tree) = self.tree.as_mut() {
                    tree.remove_source(dir);
                }
            }
            Ev::Config(k) => {
                self.write(CONFIG, config_text(*k));
                // the watcher also watches the configuration file: a Modify event arrives
                if let Some(tree) = self.tree.as_mut() {
                    tree.source_changed(CONFIG);
                }
            }
            Ev::Process => {
                if let Some(tree) = self.tree.as_mut() {
                    if let Err(err) = tree.process(&self.resources, options()) {
                        return Ok(Some(err.to_string()));
                    }
                } else {
                    match darklua_core::process(&self.resources, options()) {
                        Ok(tree) => self.tree = Some(tree),
                        Err(err) => return Ok(Some(err.to_string())),
                    }
                }
            }
        }
        Ok(None)
    }
}

fn sources_json(user_files: &BTreeMap<String, String>) -> Value {
    Value::Object(
        user_files
            .iter()
            .filter(|(path, _)| !Path::new(path).starts_with(OUTPUT))
            .map(|(p, c)| (p.clone(), json!(intern(c))))
            .collect(),
    )
}

/// runs one history (initial process implicit) and returns the trace
fn run_history(history: &[Ev], verbose: bool) -> Value {
    let mut world = World::new();
    let mut steps = Vec::new();
    let mut verdict = "ok".to_owned();
    let mut detail = Value::Null;
    let mut full: Vec<Ev> = vec![Ev::Process];
    full.extend(history.iter().cloned());

    for (position, event) in full.iter().enumerate() {
        let outcome = catch_unwind(AssertUnwindSafe(|| world.apply(event)));
        let mut step = json!({ "ev": event.render() });
        let written = match event {
            Ev::Edit(path, _) | Ev::Break(path) | Ev::Add(path, _) | Ev::AddSource(path, _) => {
                Some(path.as_str())
            }
            Ev::Config(_) => Some(CONFIG),
            _ => None,
        };
        if let Some(content) = written.and_then(|path| world.user_files.get(path)) {
            step["content"] = json!(intern(content));
        }
        match outcome {
            Err(payload) => {
                let text = panic_text(payload);
                step["panic"] = Value::String(text.clone());
                steps.push(step);
                verdict = "panic".to_owned();
                detail = json!({ "at": position, "event": event.render(), "message": text });
                break;
            }
            Ok(Err(text)) => {
                step["error"] = Value::String(text);
            }
            Ok(Ok(process_error)) => {
                if let Some(text) = process_error {
                    step["process_error"] = Value::String(text);
                }
            }
        }
        if let Some(tree) = world.tree.as_ref() {
            step["state"] = dump_json(tree);
        }
        let out = output_tree(&world.resources);
        step["out"] = tree_json(&out);
        if disk_mode().is_some() {
            step["dirs"] = json!(output_dirs());
        }
        if *event == Ev::Process {
            // oracle (a): fresh run over the same final inputs and configuration
            let (fresh, fresh_out) = fresh_run(&world.user_files);
            let mut expected: BTreeMap<String, String> = world.foreign();
            expected.extend(fresh_out);
            let equal = expected == out;
            // an oracle for "which files a failed bundle certainly read and inlined", from the
            // harness's own knowledge of the templates (never from darklua's failure path)
            let failing = fresh["state"]["items"]
                .as_array()
                .map(|items| items.iter().any(|item| item["status"] == "err"))
                .unwrap_or(false);
            if failing {
                let unhealthy: Vec<&str> = BUNDLED
                    .iter()
                    .copied()
                    .filter(|path| !certainly_inlined(&world.versions, path))
                    .collect();
                step["unhealthy"] = json!(unhealthy);
                step["read_before_failure"] = json!({ ENTRY: read_before_failure(&world.versions) });
            }
            step["fresh"] = fresh;
            step["user_files"] = sources_json(&world.user_files);
            step["equal_fresh"] = Value::Bool(equal);
            if !equal && verdict == "ok" {
                verdict = "differs".to_owned();
                let mut diff = Vec::new();
                for path in expected.keys().chain(out.keys()) {
                    let e = expected.get(path);
                    let o = out.get(path);
                    if e != o {
                        let kind = match (e, o) {
                            (None, Some(_)) => "stale-output",
                            (Some(_), None) => "missing-output",
                            _ => "different-content",
                        };
                        let entry = json!({ "path": path, "kind": kind, "expected": e, "worker": o });
                        if !diff.contains(&entry) {
                            diff.push(entry);
                        }
                    }
                }
                detail = json!({ "at": position, "diff": diff });
            }
        }
        if !verbose {
            // keep what the correspondence needs, drop nothing else for now
        }
        steps.push(step);
    }
    json!({
        "h": render_history(history),
        "verdict": verdict,
        "detail": detail,
        "initial": tree_json(&initial_files()),
        "steps": steps,
    })
}

fn run_with_limit(history: Vec<Ev>, limit: Duration) -> Value {
    let (sender, receiver) = mpsc::channel();
    let text = render_history(&history);
    std::thread::spawn(move || {
        let result = run_history(&history, false);
        let _ = sender.send(result);
    });
    match receiver.recv_timeout(limit) {
        Ok(value) => value,
        Err(_) => json!({ "h": text, "verdict": "hang", "detail": { "limit_s": limit.as_secs() }, "steps": [] }),
    }
}

// ---------------------------------------------------------------------------------------------
// generation of valid histories

const SOURCES: [&str; 4] = ["src/a.lua", "src/sub/b.lua", "src/sub/deep/c.lua", ENTRY];
const ADDABLE: [&str; 3] = ["src/new.lua", "src/sub/n2.lua", "src/fresh/f.lua"];
const DEPS: [&str; 2] = ["lib/m1.lua", "lib/m3.lua"];
const DIRS: [&str; 4] = ["src/sub", "src/sub/deep", "src/app", "lib"];

/// which files exist after the events so far (only the paths matter)
fn existing(history: &[Ev]) -> Vec<String> {
    let mut files: Vec<String> = SOURCES.iter().chain(DEPS.iter()).map(|s| s.to_string()).collect();
    files.push(LUAURC.to_owned());
    for event in history {
        match event {
            Ev::Add(p, _) | Ev::AddSource(p, _) => {
                if !files.contains(p) {
                    files.push(p.clone());
                }
            }
            Ev::Remove(p) => files.retain(|f| f != p),
            Ev::RemoveDir(d) => files.retain(|f| !is_under(f, d)),
            _ => {}
        }
    }
    files
}

fn current_config(history: &[Ev]) -> u32 {
    history
        .iter()
        .rev()
        .find_map(|e| if let Ev::Config(k) = e { Some(*k) } else { None })
        .unwrap_or(0)
}

/// the events that make sense after `history`; versions are fresh so every edit changes content
fn candidates(history: &[Ev], full: bool) -> Vec<Ev> {
    let files = existing(history);
    let version = history.len() as u32 + 2;
    let mut events = vec![Ev::Process];
    let edit_targets: Vec<&str> = if full {
        SOURCES.iter().chain(ADDABLE.iter()).chain(DEPS.iter()).chain([LUAURC].iter()).copied().collect()
    } else {
        vec!["src/a.lua", ENTRY, "lib/m3.lua", "src/sub/b.lua"]
    };
    for path in &edit_targets {
        if files.iter().any(|f| f == path) {
            events.push(Ev::Edit(path.to_string(), version));
        }
    }
    let break_targets: Vec<&str> = if full {
        vec!["src/a.lua", ENTRY, "lib/m1.lua", "src/sub/b.lua", LUAURC]
    } else {
        vec!["src/a.lua"]
    };
    for path in &break_targets {
        if files.iter().any(|f| f == path) {
            events.push(Ev::Break(path.to_string()));
        }
    }
    let add_targets: Vec<&str> = if full {
        SOURCES.iter().chain(ADDABLE.iter()).chain(DEPS.iter()).chain([LUAURC].iter()).copied().collect()
    } else {
        vec!["src/a.lua", "src/new.lua", ENTRY, "lib/m3.lua"]
    };
    for path in &add_targets {
        if !files.iter().any(|f| f == path) {
            events.push(Ev::Add(path.to_string(), version));
            if full && path.starts_with("src/") {
                events.push(Ev::AddSource(path.to_string(), version));
            }
        }
    }
    let remove_targets: Vec<&str> = if full {
        SOURCES.iter().chain(ADDABLE.iter()).chain(DEPS.iter()).chain([LUAURC].iter()).copied().collect()
    } else {
        vec!["src/a.lua", "lib/m3.lua"]
    };
    for path in &remove_targets {
        if files.iter().any(|f| f == path) {
            events.push(Ev::Remove(path.to_string()));
        }
    }
    let dir_targets: Vec<&str> = if full { DIRS.to_vec() } else { vec!["src/sub", "src/app"] };
    for dir in &dir_targets {
        if files.iter().any(|f| is_under(f, dir)) {
            events.push(Ev::RemoveDir(dir.to_string()));
        }
    }
    let config = current_config(history);
    if full {
        for k in 0..N_CONFIGS {
            if k != config {
                events.push(Ev::Config(k));
            }
        }
    } else {
        events.push(Ev::Config(if config == 2 { 3 } else { 2 }));
    }
    events
}

fn enumerate(prefix: &mut Vec<Ev>, remaining: usize, full: bool, sink: &mut dyn FnMut(&[Ev])) {
    if remaining == 0 {
        return;
    }
    for event in candidates(prefix, full) {
        // two processes in a row add nothing
        if event == Ev::Process && prefix.last() == Some(&Ev::Process) {
            continue;
        }
        prefix.push(event.clone());
        if event == Ev::Process {
            sink(prefix);
        } else {
            // a history is observed at its processes: close it with one
            prefix.push(Ev::Process);
            sink(prefix);
            prefix.pop();
        }
        enumerate(prefix, remaining - 1, full, sink);
        prefix.pop();
    }
}

fn emit(value: Value) {
    flush_blobs();
    println!("{}", value);
}

fn main() {
    let args: Vec<String> = std::env::args().skip(1).collect();
    let mode = args.first().cloned().unwrap_or_default();
    std::panic::set_hook(Box::new(|_| {}));
    let limit = Duration::from_secs(arg_u64(&args, "--limit", 10));
    match mode.as_str() {
        "run" => {
            let history = parse_history(&args[1]);
            emit(run_with_limit(history, limit));
        }
        "enum" => {
            let length = arg_u64(&args, "--len", 2) as usize;
            let full = arg_value(&args, "--alphabet").as_deref() == Some("full");
            let mut seen = std::collections::HashSet::new();
            let mut histories = Vec::new();
            enumerate(&mut Vec::new(), length, full, &mut |h| {
                // a trailing process closes every history; keep one copy
                if seen.insert(render_history(h)) {
                    histories.push(h.to_vec());
                }
            });
            for history in histories {
                emit(run_with_limit(history, limit));
            }
        }
        "random" => {
            let seed = arg_u64(&args, "--seed", 1);
            let count = arg_u64(&args, "--n", 100);
            let length = arg_u64(&args, "--len", 12) as usize;
            let mut rng = Rng::new(seed ^ 0xC10);
            for _ in 0..count {
                let mut history: Vec<Ev> = Vec::new();
                let target = 3 + rng.below(length.saturating_sub(2).max(1));
                while history.len() < target {
                    let options = candidates(&history, true);
                    // processes are a third of the events
                    let event = if rng.chance(1, 3) {
                        Ev::Process
                    } else {
                        options[rng.below(options.len())].clone()
                    };
                    if event == Ev::Process && history.last() == Some(&Ev::Process) {
                        continue;
                    }
                    history.push(event);
                }
                if history.last() != Some(&Ev::Process) {
                    history.push(Ev::Process);
                }
                emit(run_with_limit(history, limit));
            }
        }
        "luaurc" => {
            // `.luaurc` (alias used by a bundled require) changes between passes of the worker,
            // in path and in luau require mode
            let bases = [
                "E:.luaurc:2 P",
                "E:.luaurc:2 E:src/app/main.lua:3 P",
                "E:src/app/main.lua:3 E:.luaurc:2 P",
                "E:.luaurc:2 P E:src/app/main.lua:3 P",
                "E:.luaurc:2 E:src/app/main.lua:3 P E:.luaurc:3 E:src/app/main.lua:4 P E:.luaurc:4 E:src/app/main.lua:5 P",
                "R:.luaurc E:src/app/main.lua:3 P A:.luaurc:2 E:src/app/main.lua:4 P",
                "X:.luaurc E:src/app/main.lua:3 P E:.luaurc:2 E:src/app/main.lua:4 P",
                "X:.luaurc E:src/app/main.lua:3 P E:.luaurc:3 P",
                "R:.luaurc P",
                "E:packages_v2/value.lua:5 P E:.luaurc:2 E:src/app/main.lua:3 P E:packages_v2/value.lua:6 P",
                "E:.luaurc:2 E:src/app/main.lua:3 P E:packages_v1/value.lua:7 P",
                "E:.luaurc:2 C:1 P",
                "E:.luaurc:2 E:lib/m3.lua:4 P",
                "E:.luaurc:2 R:src/app/main.lua A:src/app/main.lua:3 P",
                "E:.luaurc:2 R:src/app/main.lua S:src/app/main.lua:3 P",
                "A:src/.luaurc:2 E:src/app/main.lua:3 P R:src/.luaurc E:src/app/main.lua:4 P",
                "A:src/.luaurc:2 P",
                "E:.luaurc:2 E:src/app/main.lua:3 P E:.luaurc:1 E:src/app/main.lua:1 P",
                "E:.luaurc:2 E:src/a.lua:3 P E:src/app/main.lua:4 P",
            ];
            for prefix in ["", "C:6 P "] {
                for base in bases {
                    let history = format!("{}{}", prefix, base);
                    emit(run_with_limit(parse_history(&history), limit));
                }
            }
        }
        "siblings" => {
            // removing a directory must not touch the files whose path only starts with the same
            // characters (`src/sub` vs `src/sub.lua`, `src/sub_extra/x.lua`)
            let histories = [
                "D:src/sub P",
                "D:src/sub P E:src/sub.lua:3 E:src/sub_extra/x.lua:4 P",
                "D:src/sub E:src/sub.lua:3 P E:src/sub_extra/x.lua:4 P",
                "D:src/sub/deep P",
                "D:src/sub/deep P E:src/sub/deep.lua:3 E:src/sub/deep_x/y.lua:4 P",
                "D:src/sub/deep E:src/sub/deep.lua:3 P E:src/sub/deep_x/y.lua:4 P",
                "D:src/sub/deep P A:src/sub/deep/c.lua:5 P E:src/sub/deep.lua:6 P",
                "R:src/sub.lua P",
                "R:src/sub.lua P D:src/sub P",
                "R:src/sub/deep.lua P D:src/sub/deep P E:src/sub/deep_x/y.lua:4 P",
                "D:src/sub_extra P E:src/sub.lua:3 E:src/sub/b.lua:4 P",
                "D:src/sub/deep_x P E:src/sub/deep/c.lua:3 E:src/sub/deep.lua:4 P",
                "E:src/sub/deep.lua:2 D:src/sub/deep P",
                "D:src/sub/deep C:1 P E:src/sub/deep.lua:3 P",
                "D:src/sub/deep P R:src/sub/deep_x/y.lua P A:src/sub/deep_x/y.lua:5 P",
                "D:src/sub P A:src/sub/b.lua:5 P E:src/sub.lua:6 P",
            ];
            for history in histories {
                emit(run_with_limit(parse_history(history), limit));
            }
        }
        "breakfix" => {
            // break a bundled file in every way, process, repair it (back to the original or to
            // new content), process, then touch every position of the dependency graph, process
            let positions = ["lib/m1.lua", "lib/m3.lua", "src/sub/b.lua", CONF];
            let touch_targets = ["lib/m1.lua", "lib/m3.lua", "src/sub/b.lua", CONF, ENTRY];
            let mut histories: Vec<Vec<Ev>> = Vec::new();
            for position in positions {
                let mut breaks: Vec<(&str, Vec<Ev>, bool)> = vec![
                    ("parse", vec![Ev::Break(position.to_owned())], false),
                    ("missing", vec![Ev::Remove(position.to_owned())], true),
                ];
                if position == "lib/m3.lua" {
                    breaks.push(("cycle", vec![Ev::Edit(position.to_owned(), 200)], false));
                }
                for (_kind, break_events, removed) in breaks {
                    for fix_version in [1u32, 7] {
                        let fix = if removed {
                            Ev::Add(position.to_owned(), fix_version)
                        } else {
                            Ev::Edit(position.to_owned(), fix_version)
                        };
                        for touch in touch_targets {
                            if removed && touch == position {
                                continue;
                            }
                            // broken, processed, touched while broken, repaired, touched again
                            let mut a = break_events.clone();
                            a.extend([Ev::Process, Ev::Edit(touch.to_owned(), 9), Ev::Process]);
                            a.extend([fix.clone(), Ev::Process, Ev::Edit(touch.to_owned(), 11), Ev::Process]);
                            histories.push(a);
                            // broken, processed, repaired, touched in the same pass
                            let mut b = break_events.clone();
                            b.extend([Ev::Process, fix.clone(), Ev::Edit(touch.to_owned(), 12), Ev::Process]);
                            histories.push(b);
                        }
                        // broken and repaired without a process in between
                        let mut c = break_events.clone();
                        c.extend([fix.clone(), Ev::Process]);
                        histories.push(c);
                    }
                }
            }
            let mut seen = std::collections::HashSet::new();
            for history in histories {
                if seen.insert(render_history(&history)) {
                    emit(run_with_limit(history, limit));
                }
            }
        }
        "disk" => {
            // dl-c10 disk --root DIR : fixed histories on a real directory, output folder
            // pre-existing or not; observes the directories too (ancestor pruning of clean_files)
            let root = PathBuf::from(arg_value(&args, "--root").expect("--root DIR"));
            assert!(root.starts_with("/tmp"), "the scratch directory must be under /tmp");
            let histories = [
                "R:src/sub/deep/c.lua P",
                "R:src/sub/deep/c.lua R:src/sub/b.lua E:src/app/main.lua:100 P",
                "A:src/fresh/f.lua:2 P R:src/fresh/f.lua P",
                "A:src/fresh/deep/er/f.lua:2 P R:src/fresh/deep/er/f.lua P",
                "A:src/fresh/f.lua:2 A:src/fresh/g.lua:3 P R:src/fresh/f.lua P R:src/fresh/g.lua P",
                "R:src/a.lua A:src/a.lua:5 P",
                "R:src/sub/deep/c.lua A:src/sub/deep/c.lua:7 P",
                "D:src/sub/deep P",
                "E:src/a.lua:2 P R:src/a.lua P A:src/a.lua:4 P",
                "C:4 P R:src/sub/deep/c.lua C:1 P",
            ];
            for preexisting in [true, false] {
                for history in histories {
                    *DISK.lock().unwrap() = Some((root.join("case"), root.join("fresh"), preexisting));
                    let mut value = run_with_limit(parse_history(history), limit);
                    value["preexisting_output"] = json!(preexisting);
                    std::env::set_current_dir("/").ok();
                    emit(value);
                }
            }
            *DISK.lock().unwrap() = None;
            let _ = std::fs::remove_dir_all(root.join("case"));
            let _ = std::fs::remove_dir_all(root.join("fresh"));
        }
        _ => {
            eprintln!("usage: dl-c10 run|enum|random|breakfix|luaurc|siblings|disk ...");
            std::process::exit(2);
        }
    }
}
