//! C12: no input or configuration crashes darklua.
//!
//! `dl-c12 fuzz --seed S --n N` runs, under `catch_unwind` and a wall-clock watchdog:
//!  * `Parser::parse` on random bytes, on valid generated programs mutated (byte flips, inserted
//!    multi-byte characters at token boundaries) and truncated at every offset;
//!  * for inputs that parse: random rule chains drawn from all rules with randomised properties,
//!    each generator, column spans including 0 and 1, through `darklua_core::process`; the
//!    written output must parse again.
//! One line per finding: `KIND\t<detail>\t<config>\t<input hex>`; a final line `STATS ...`.

use std::panic::{catch_unwind, AssertUnwindSafe};
use std::sync::mpsc;
use std::time::Duration;

use darklua_core::{Configuration, Options, Parser, Resources};
use hutil::{arg_u64, hex, Rng};
use proggen::{Features, Gen};

const TIMEOUT: Duration = Duration::from_secs(20);

#[derive(Debug)]
enum Outcome<T> {
    Done(T),
    Panic(String),
    Hang,
}

/// runs `f` on its own thread; a panic is caught, a hang is reported after TIMEOUT (the thread
/// is then abandoned and the process exits at the end of the run)
fn guarded<T: Send + 'static>(f: impl FnOnce() -> T + Send + 'static) -> Outcome<T> {
    let (tx, rx) = mpsc::channel();
    let builder = std::thread::Builder::new().stack_size(64 * 1024 * 1024);
    let handle = builder.spawn(move || {
        let result = catch_unwind(AssertUnwindSafe(f));
        let _ = tx.send(result);
    });
    if handle.is_err() {
        return Outcome::Panic("cannot spawn thread".into());
    }
    match rx.recv_timeout(TIMEOUT) {
        Ok(Ok(v)) => Outcome::Done(v),
        Ok(Err(payload)) => {
            let msg = payload
                .downcast_ref::<String>()
                .cloned()
                .or_else(|| payload.downcast_ref::<&str>().map(|s| (*s).to_owned()))
                .unwrap_or_else(|| "panic".to_owned());
            Outcome::Panic(msg.replace(['\n', '\t'], " "))
        }
        Err(_) => Outcome::Hang,
    }
}

fn parse_guarded(source: String) -> Outcome<bool> {
    guarded(move || Parser::default().parse(&source).is_ok())
}

const RULES: &[&str] = &[
    "\"compute_expression\"",
    "\"convert_function_to_assignment\"",
    "\"convert_index_to_field\"",
    "\"convert_local_function_to_assign\"",
    "\"convert_luau_number\"",
    "\"convert_square_root_call\"",
    "\"filter_after_early_return\"",
    "\"group_local_assignment\"",
    "{ rule: \"inject_global_value\", identifier: \"DEBUG\", value: true }",
    "{ rule: \"inject_global_value\", identifier: \"a\", value: [1, \"x\", { k: null }] }",
    "\"make_assignment_local\"",
    "\"remove_assertions\"",
    "{ rule: \"remove_assertions\", preserve_arguments_side_effects: false }",
    "\"remove_attribute\"",
    "\"remove_comments\"",
    "{ rule: \"remove_comments\", except: [\"^!\"] }",
    "\"remove_compound_assignment\"",
    "\"remove_debug_profiling\"",
    "\"remove_empty_do\"",
    "\"remove_floor_division\"",
    "\"remove_function_call_parens\"",
    "\"remove_interpolated_string\"",
    "{ rule: \"remove_interpolated_string\", strategy: \"tostring\" }",
    "\"remove_method_call\"",
    "\"remove_method_definition\"",
    "\"remove_nil_declaration\"",
    "\"remove_spaces\"",
    "\"remove_types\"",
    "\"remove_unused_if_branch\"",
    "\"remove_unused_variable\"",
    "\"remove_unused_while\"",
    "\"rename_variables\"",
    "{ rule: \"rename_variables\", include_functions: true, globals: [\"$default\", \"$roblox\"] }",
    "\"remove_if_expression\"",
    "\"remove_continue\"",
    "{ rule: \"append_text_comment\", text: \"hello\" }",
    "{ rule: \"append_text_comment\", text: \"two\\nlines ]] ]=]\", location: \"end\" }",
];

const GENERATORS: &[&str] = &[
    "\"retain_lines\"",
    "\"dense\"",
    "\"readable\"",
    "{ name: \"dense\", column_span: 0 }",
    "{ name: \"dense\", column_span: 1 }",
    "{ name: \"readable\", column_span: 0 }",
    "{ name: \"readable\", column_span: 1 }",
    "{ name: \"dense\", column_span: 7 }",
];

/// literal spellings and layouts that exercise the conversion and writer corner cases: valid and
/// malformed escapes in every string form, multi-byte characters at token boundaries, long
/// brackets whose content defeats a naive level choice, numbers in every notation
fn corpus() -> Vec<String> {
    let mut v: Vec<String> = [
        "return [[\u{e9}]]", "return [==[\u{2192} next]==]", "print [[\u{20ac} 10]]", "return [[\n\u{65e5}\u{672c}]]",
        "return '\u{e9}\u{1F600}'", "return \"\\u{D800}\"", "return \"\\u{110000}\"", "return \"\\xZZ\"", "return \"\\400\"",
        "return `\\xZZ`", "return `\\u{D800}`", "return `a{1}\\u{41}`", "return `\\{{x}\\}`", "return `{`{1}`}`", "return `\\z  b`",
        "return '\\z   x'", "return 'a\\\nb'", "return \"a\\\r\nb\"", "return '\\q'", "return '\\'", "return [=[ ]] ]=]",
        "return 0x", "return 0b2", "return 1e", "return 1__0", "return 0x1p4", "return 1..2", "return 3.", "return .5e-3",
        "return 0xffffffffffffffffff", "return 1e999", "local a <const> = 1", "return a::b", "x = y::", "return #", "f(\"\")\"",
        "return function(...: number): ...string end", "type T = typeof(`{1}`)", "return ({})[1] :: any",
        "goto x", "::x::", "return --[==[ c ]==] 1", "--[[ unterminated", "return [[ unterminated", "return 'unterminated",
        "return `unterminated {", "return `{`", "return }", "return )", "end", "local function", "for i = 1 do end",
        // a byte order mark / a shebang line in front of valid code (rejected today: must stay an error value, or be
        // handled all the way through every generator)
        "\u{feff}a=1", "\u{feff}return 1\n", "\u{feff}local function add(a, b)\n  return a + b\nend\nreturn add(1, 2)\n",
        "#!/usr/bin/env lua\nprint(1)\n", "#!/usr/bin/env lua\nlocal unused = 1\nreturn 2", "#!\n", "#!/bin/lua",
        "\u{feff}#!/usr/bin/env lua\nreturn 1", "return 1\n\u{feff}", "--!strict\n#!x\nreturn 1",
        // interpolated strings whose first value starts with a table: the only thing between `{` `{` is trivia
        "return `{ {1} }`", "return `{ {} :: any }`", "return `{ {} == nil }`", "return `a{ {x = 1} }b{ {} }`",
        // strings that a rule rebuilds without a token and that are long enough for the long-bracket form, directly
        // inside an index / a bracketed table key (the token-preserving generator then writes `[` next to `[[`)
        "local t = {}\nt[`aaaaaaaaaaaaaaaaaaaaaaaaaaaaaaaaaaaaaaaaaaaaaaaaaaaaaaaaaaaaaaaaaaaaaaaa`] = true\nreturn t",
        "return { [`bbbbbbbbbbbbbbbbbbbbbbbbbbbbbbbbbbbbbbbbbbbbbbbbbbbbbbbbbbbbbbbbbbbbbbbb`] = 1 }",
        "local t = {}\nreturn t['cccccccccccccccccccccccccccccccccccccccc' .. 'cccccccccccccccccccccccccccccccccccccccc']",
        "return f[`dddddddddddddddddddddddddddddddddddddddddddddddddddddddddddddddddddddddd`](1)",
        // keys that are letters but not ASCII (never identifiers), as index and as table key
        "local t = {}\nt['cl\u{e9}'] = 1\nreturn t['cl\u{e9}'], { ['\u{e8}'] = 1, ['na\u{ef}ve'] = 2, ['\u{65e5}\u{672c}'] = 3 }",
        // comments several lines apart in front of a statement that a rule removes (the comments move to the next token)
        "-- first\n\n\n\n-- second\ndo end\nprint(1)", "-- a\n\n\n-- b\n\n\n\n-- c\nlocal unused = 1\nreturn 2",
        "-- a\n\n\n-- b\ntype Unused = number\nprint(1)", "print(0)\n-- a\n\n\n\n\n-- b\ndo end",
        "--[[ a\n\n]]\n\n\n-- b\ndo end -- c\n\n\n-- d\nprint(1)",
        // last statements and last tokens of every kind (rules append to / read the last token of a file)
        "return", "do return end", "local function f() return end\nreturn", "while true do break end", "return ...",
        "return `hello {name}!`", "return `tail`;", "return f()", "return function() end", "return {}", "return (1)",
        "return 1 :: number", "return a.b", "return a[1]", "return a:m()", "return f'x'", "return f{}", "return not a",
        "return if a then 1 else 2", "local a = 1", "local a", "a.b = 1", "f()", "type T = number", "local a: number",
        "export type U = { x: number }", "function f() end", "repeat until x", "for i = 1, 2 do end", "continue_ = 1",
        // literal parts of interpolated strings: bytes without a named escape followed by a digit, parts spanning lines
        "return `\\x1b0{count}`", "return `id:\\0307`", "return `\\31\\0579{1}\\0019`", "return `\\2550`",
        "return `first line\\\nsecond line`", "return `a\\z\n   b{1}c\\\nd`", "return `{1}\\\n{2}\\\r\n`",
        "return `{ --[[c]] {1} }`", "return `{\n{1}\n}`", "return `{ { `{ {2} }` } }`", "return `{ ({1}) }`", "return `{ #{1} }`",
    ]
    .iter()
    .map(|s| s.replace("\\n", "\n"))
    .collect();
    // long-bracket candidates: >= 60 printable bytes, inner closers of the lower levels, ending in a half closer
    for k in 0..4usize {
        for j in 0..4usize {
            let mut text = "x".repeat(30);
            for level in 0..k {
                text.push(']');
                text.push_str(&"=".repeat(level));
                text.push(']');
                text.push_str("yyyyyyyyyy");
            }
            text.push_str(&"z".repeat(30));
            text.push(']');
            text.push_str(&"=".repeat(j));
            v.push(format!("local s = \"{}\" return s, #s", text));
        }
    }
    v
}

/// line comments at the end of random lines and on lines of their own (rules and generators must
/// cope with trivia everywhere)
fn commentify(source: &str, rng: &mut Rng) -> String {
    let mut out = String::new();
    for line in source.lines() {
        if rng.chance(1, 5) {
            out.push_str("-- note\n");
        }
        out.push_str(line);
        if rng.chance(1, 3) && !line.contains("[[") && !line.contains('`') {
            out.push_str(*rng.pick(&[" -- c", " --[[b]]", " -- trailing ]] x", " --- doc"]));
        }
        out.push('\n');
    }
    out
}

fn process_guarded(source: String, config_text: String) -> Outcome<Result<String, String>> {
    guarded(move || {
        let config: Configuration = json5::from_str(&config_text).map_err(|e| format!("config: {}", e))?;
        let resources = Resources::from_memory();
        resources.write("src/main.lua", &source).map_err(|e| format!("write: {:?}", e))?;
        match darklua_core::process(&resources, Options::new("src/main.lua").with_configuration(config)) {
            Ok(worker) => {
                let errors: Vec<String> = worker.collect_errors().iter().map(|e| e.to_string()).collect();
                if !errors.is_empty() {
                    return Err(format!("process: {}", errors.join("; ")));
                }
            }
            Err(err) => return Err(format!("process: {}", err)),
        }
        resources.get("src/main.lua").map_err(|e| format!("read: {:?}", e))
    })
}

fn report(kind: &str, detail: &str, config: &str, input: &[u8]) {
    println!("{}\t{}\t{}\t{}", kind, detail.replace(['\n', '\t'], " "), config, hex(input));
}

fn main() {
    let args: Vec<String> = std::env::args().skip(1).collect();
    // keep panic messages out of stderr noise
    std::panic::set_hook(Box::new(|_| {}));
    let seed = arg_u64(&args, "--seed", 1);
    let n = arg_u64(&args, "--n", 200);
    let mut rng = Rng::new(seed ^ 0xc12);
    let mut parsed_inputs = 0u64;
    let mut parse_attempts = 0u64;
    let mut process_runs = 0u64;
    let mut rule_errors = 0u64;
    let mut hung = false;

    let mut check_parse = |bytes: &[u8], label: &str, hung: &mut bool| -> bool {
        parse_attempts += 1;
        let text = String::from_utf8_lossy(bytes).into_owned();
        match parse_guarded(text) {
            Outcome::Done(ok) => ok,
            Outcome::Panic(msg) => {
                report("PARSE-PANIC", &msg, label, bytes);
                false
            }
            Outcome::Hang => {
                report("PARSE-HANG", "no result within the time limit", label, bytes);
                *hung = true;
                false
            }
        }
    };

    // 0. the corpus: parse each snippet, and push the ones that parse through every generator
    for snippet in corpus() {
        if hung {
            break;
        }
        // process() runs whatever the parse verdict is: an input the parser rejects must come back as an error
        // value naming the file, one it accepts must give output that parses
        check_parse(snippet.as_bytes(), "corpus", &mut hung);
        {
            for generator in GENERATORS {
                for rules in [
                    "",
                    "\"remove_spaces\"",
                    "\"compute_expression\", \"remove_unused_variable\"",
                    "\"remove_comments\", \"remove_spaces\"",
                    "{ rule: \"append_text_comment\", text: \"generated\" }",
                    "{ rule: \"append_text_comment\", text: \"generated\", location: \"end\" }, \"remove_spaces\"",
                    "{ rule: \"append_text_comment\", text: \"generated\", location: \"end\" }",
                    "\"remove_interpolated_string\", \"compute_expression\"",
                    "\"remove_empty_do\", \"remove_unused_variable\", \"remove_types\", \"convert_index_to_field\"",
                    "\"remove_compound_assignment\", { rule: \"append_text_comment\", text: \"two\\nlines\", location: \"end\" }, \"remove_spaces\"",
                ] {
                    let config = format!("{{ generator: {}, rules: [{}] }}", generator, rules);
                    process_runs += 1;
                    match process_guarded(snippet.clone(), config.clone()) {
                        Outcome::Done(Ok(output)) => {
                            if !check_parse(output.as_bytes(), "darklua-output", &mut hung) {
                                report("OUTPUT-UNPARSABLE", &output, &config, snippet.as_bytes());
                            }
                        }
                        Outcome::Done(Err(msg)) => {
                            rule_errors += 1;
                            if !msg.contains("main.lua") {
                                report("ERROR-WITHOUT-FILE", &msg, &config, snippet.as_bytes());
                            }
                        }
                        Outcome::Panic(msg) => report("PROCESS-PANIC", &msg, &config, snippet.as_bytes()),
                        Outcome::Hang => {
                            report("PROCESS-HANG", "no result within the time limit", &config, snippet.as_bytes());
                            hung = true;
                        }
                    }
                }
            }
        }
    }

    // 0a. comments that LOOK like long-bracket openers (`--[= x` is a line comment, `--[=[ x ]=]` is not) after the
    //     last token of the sub-expressions that lowering rules rebuild from token-less nodes: whatever the generator
    //     writes next must not be swallowed by the comment
    {
        let comments = ["--[= item", "--[== todo", "--[=", "--[ [x", "--[=x[ y", "--[=[ b ]=]", "--[[ b ]]", "--[==[ ]] ]==]", "--[[\nb ]]", "-- [[x"];
        let templates = [
            "local t = {}\nreturn `v: {t %C\n} and {t %C\n}`\n",
            "local a = 1\na += 2 %C\nreturn a %C\n",
            "local a, b = 7, 2\nreturn a // b %C\n",
            "local o = {}\nreturn if o %C\nthen 1 %C\nelse 2 %C\n",
            "local t = { f = function() end }\nt:f( %C\n)\nreturn t %C\n",
            "for i = 1, 2 do\n if i == 1 then continue %C\n end\nend %C\n",
            "local x: number %C\n= 1\nreturn x :: any %C\n",
            "local t = { 1_0 %C\n, 0b1 %C\n}\nreturn t[1] %C\n",
        ];
        let lowering = [
            "\"remove_interpolated_string\"", "\"remove_compound_assignment\"", "\"remove_floor_division\"", "\"remove_if_expression\"",
            "\"remove_method_call\"", "\"remove_continue\"", "\"remove_types\"", "\"convert_luau_number\"", "\"compute_expression\"",
        ];
        for template in templates {
            for comment in comments {
                let source = template.replace("%C", comment).replace("\\n", "\n");
                for rule in lowering {
                    for rules in [format!("\"remove_spaces\", {}", rule), format!("{}, \"remove_spaces\"", rule), rule.to_owned()] {
                        let config = format!("{{ generator: \"retain_lines\", rules: [{}] }}", rules);
                        process_runs += 1;
                        match process_guarded(source.clone(), config.clone()) {
                            Outcome::Done(Ok(output)) => {
                                if !check_parse(output.as_bytes(), "darklua-output", &mut hung) {
                                    report("OUTPUT-UNPARSABLE", &output, &config, source.as_bytes());
                                }
                            }
                            Outcome::Done(Err(_)) => rule_errors += 1,
                            Outcome::Panic(msg) => report("PROCESS-PANIC", &msg, &config, source.as_bytes()),
                            Outcome::Hang => {
                                report("PROCESS-HANG", "no result within the time limit", &config, source.as_bytes());
                                hung = true;
                            }
                        }
                    }
                }
            }
        }
    }

    // 0b. small bundles: a required module whose last statement carries a `;` (with a comment after it), entries shorter
    //     and longer than the module, every generator: inlining re-bases every token of the module
    {
        let modules = [
            "local i = 1\nreturn i; -- done\n", "return nil;", "return { value = 1 };\n-- end of module\n",
            "local function f()\n  for _ = 1, 2 do\n    break;\n  end\n  return 1;\nend\nreturn f(); --[[ tail ]]",
            "return `a{1}b`;", "return 1 -- no semicolon",
        ];
        let entries = [
            "return require('./m')",
            "local m = require('./m')\nlocal other = 'a fairly long line of code so that the entry point is longer than the module it requires'\nreturn m, other\n",
        ];
        for module in modules {
            for entry in entries {
                for generator in ["\"retain_lines\"", "\"dense\"", "\"readable\""] {
                    for rules in ["", "\"remove_spaces\"", "\"remove_comments\""] {
                        let config = format!(
                            "{{ generator: {}, rules: [{}], bundle: {{ require_mode: \"path\" }} }}",
                            generator, rules
                        );
                        process_runs += 1;
                        let outcome = {
                            let (entry, module, config_text) = (entry.to_owned(), module.to_owned(), config.clone());
                            guarded(move || -> Result<String, String> {
                                let config: Configuration =
                                    json5::from_str(&config_text).map_err(|e| format!("config: {}", e))?;
                                let resources = Resources::from_memory();
                                resources.write("src/main.lua", &entry).map_err(|e| format!("write: {:?}", e))?;
                                resources.write("src/m.lua", &module).map_err(|e| format!("write: {:?}", e))?;
                                match darklua_core::process(
                                    &resources,
                                    Options::new("src/main.lua").with_output("out/main.lua").with_configuration(config),
                                ) {
                                    Ok(worker) => {
                                        let errors: Vec<String> =
                                            worker.collect_errors().iter().map(|e| e.to_string()).collect();
                                        if !errors.is_empty() {
                                            return Err(format!("process: {}", errors.join("; ")));
                                        }
                                    }
                                    Err(err) => return Err(format!("process: {}", err)),
                                }
                                resources.get("out/main.lua").map_err(|e| format!("read: {:?}", e))
                            })
                        };
                        let input = format!("-- src/main.lua\n{}\n-- src/m.lua\n{}", entry, module);
                        match outcome {
                            Outcome::Done(Ok(output)) => {
                                if !check_parse(output.as_bytes(), "darklua-output", &mut hung) {
                                    report("OUTPUT-UNPARSABLE", &output, &config, input.as_bytes());
                                }
                            }
                            Outcome::Done(Err(msg)) => {
                                rule_errors += 1;
                                report("BUNDLE-ERROR", &msg, &config, input.as_bytes());
                            }
                            Outcome::Panic(msg) => report("PROCESS-PANIC", &msg, &config, input.as_bytes()),
                            Outcome::Hang => {
                                report("PROCESS-HANG", "no result within the time limit", &config, input.as_bytes());
                                hung = true;
                            }
                        }
                    }
                }
            }
        }
    }

    // 0c. bundle settings that are accepted by the configuration reader but unusual: the modules identifier
    for identifier in ["", "a-b", "1x", "end", "with space", "__M", "\u{e9}"] {
        let config = format!(
            "{{ generator: \"dense\", rules: [], bundle: {{ require_mode: \"path\", modules_identifier: \"{}\" }} }}",
            identifier
        );
        process_runs += 1;
        let outcome = {
            let config_text = config.clone();
            guarded(move || -> Result<String, String> {
                let config: Configuration = json5::from_str(&config_text).map_err(|e| format!("config: {}", e))?;
                let resources = Resources::from_memory();
                resources.write("src/main.lua", "return require('./m')").map_err(|e| format!("write: {:?}", e))?;
                resources.write("src/m.lua", "return 1").map_err(|e| format!("write: {:?}", e))?;
                match darklua_core::process(
                    &resources,
                    Options::new("src/main.lua").with_output("out/main.lua").with_configuration(config),
                ) {
                    Ok(worker) => {
                        let errors: Vec<String> = worker.collect_errors().iter().map(|e| e.to_string()).collect();
                        if !errors.is_empty() {
                            return Err(format!("process: {}", errors.join("; ")));
                        }
                    }
                    Err(err) => return Err(format!("process: {}", err)),
                }
                resources.get("out/main.lua").map_err(|e| format!("read: {:?}", e))
            })
        };
        let input = b"-- src/main.lua\nreturn require('./m')\n-- src/m.lua\nreturn 1";
        match outcome {
            Outcome::Done(Ok(output)) => {
                if !check_parse(output.as_bytes(), "darklua-output", &mut hung) {
                    report("OUTPUT-UNPARSABLE", &output, &config, input);
                }
            }
            Outcome::Done(Err(_)) => rule_errors += 1,
            Outcome::Panic(msg) => report("PROCESS-PANIC", &msg, &config, input),
            Outcome::Hang => {
                report("PROCESS-HANG", "no result within the time limit", &config, input);
                hung = true;
            }
        }
    }

    for case in 0..n {
        if hung {
            break;
        }
        // 1. random bytes
        let len = rng.below(48);
        let alphabet: &[u8] = b" \n\t\"'[]=-.{}()#,;:`\\09azAZ_+*/%^<>~\xc3\xa9\xff\0";
        let bytes: Vec<u8> = (0..len)
            .map(|_| if rng.chance(3, 4) { *rng.pick(alphabet) } else { rng.below(256) as u8 })
            .collect();
        check_parse(&bytes, "random-bytes", &mut hung);

        // 2. a valid program
        let mut features = Features::default();
        features.luau = rng.chance(2, 3);
        features.foldable = rng.chance(1, 2);
        features.refactor = rng.chance(1, 2);
        features.removal = rng.chance(1, 2);
        features.meta = rng.chance(1, 3);
        let mut source = Gen::new(&mut rng, features).program(5);
        if rng.chance(1, 2) {
            source = commentify(&source, &mut rng);
        }
        let valid = check_parse(source.as_bytes(), "generated-program", &mut hung);
        if !valid {
            report("GENERATOR-INVALID", "generated program does not parse", "-", source.as_bytes());
            continue;
        }
        parsed_inputs += 1;

        // 3. mutations of it
        for _ in 0..6 {
            let mut m = source.as_bytes().to_vec();
            match rng.below(4) {
                0 => {
                    let at = rng.below(m.len());
                    m[at] = *rng.pick(alphabet);
                }
                1 => {
                    let at = rng.below(m.len() + 1);
                    let ins: &[u8] = *rng.pick(&[&b"\xc3\xa9"[..], b"\xe2\x80\xa8", b"\xf0\x9f\x98\x80", b"\xff", b"\r", b"\\u{D800}", b"\\z", b"[==[", b"]]", b"--[[", b"`{", b"::", b"0x", b"1e", b"..."]);
                    m.splice(at..at, ins.iter().copied());
                }
                2 => {
                    let at = rng.below(m.len());
                    let end = (at + 1 + rng.below(6)).min(m.len());
                    m.drain(at..end);
                }
                _ => {
                    let at = rng.below(m.len());
                    m.truncate(at);
                }
            }
            check_parse(&m, "mutated-program", &mut hung);
        }
        // truncation at every offset for one program in eight
        if case % 8 == 0 {
            let b = source.as_bytes();
            for cut in 0..b.len() {
                if hung {
                    break;
                }
                check_parse(&b[..cut], "truncated-program", &mut hung);
            }
        }

        // 3b. ordered pairs of rules where one of them edits trivia, token-preserving generator
        if case % 8 == 0 {
            let trivia_rules = ["\"remove_spaces\"", "\"remove_comments\"", "{ rule: \"append_text_comment\", text: \"hello\" }"];
            for t in trivia_rules {
                for other in RULES {
                    for (first, second) in [(t, *other), (*other, t)] {
                        let config = format!("{{ generator: \"retain_lines\", rules: [{}, {}] }}", first, second);
                        process_runs += 1;
                        match process_guarded(source.clone(), config.clone()) {
                            Outcome::Done(Ok(output)) => {
                                if !check_parse(output.as_bytes(), "darklua-output", &mut hung) {
                                    report("OUTPUT-UNPARSABLE", &output, &config, source.as_bytes());
                                }
                            }
                            Outcome::Done(Err(_)) => rule_errors += 1,
                            Outcome::Panic(msg) => report("PROCESS-PANIC", &msg, &config, source.as_bytes()),
                            Outcome::Hang => {
                                report("PROCESS-HANG", "no result within the time limit", &config, source.as_bytes());
                                hung = true;
                            }
                        }
                    }
                }
            }
        }

        // 3c. the same program behind a byte order mark / a shebang line, and one mutation of it, through process()
        //     (whatever the parser says about them: error value naming the file, or output that parses)
        if case % 4 == 0 {
            let mut variants: Vec<Vec<u8>> = Vec::new();
            variants.push(format!("\u{feff}{}", source).into_bytes());
            variants.push(format!("#!/usr/bin/env lua\n{}", source).into_bytes());
            let mut m = source.as_bytes().to_vec();
            let at = rng.below(m.len());
            m[at] = *rng.pick(alphabet);
            variants.push(m);
            for bytes in variants {
                let text = String::from_utf8_lossy(&bytes).into_owned();
                let k = rng.below(3);
                let rules: Vec<&str> = (0..k).map(|_| *rng.pick(RULES)).collect();
                let generator = *rng.pick(&["\"retain_lines\"", "\"retain_lines\"", "\"dense\"", "\"readable\""]);
                let config = format!("{{ generator: {}, rules: [{}] }}", generator, rules.join(", "));
                process_runs += 1;
                match process_guarded(text, config.clone()) {
                    Outcome::Done(Ok(output)) => {
                        if !check_parse(output.as_bytes(), "darklua-output", &mut hung) {
                            report("OUTPUT-UNPARSABLE", &output, &config, &bytes);
                        }
                    }
                    Outcome::Done(Err(msg)) => {
                        rule_errors += 1;
                        if !msg.contains("main.lua") {
                            report("ERROR-WITHOUT-FILE", &msg, &config, &bytes);
                        }
                    }
                    Outcome::Panic(msg) => report("PROCESS-PANIC", &msg, &config, &bytes),
                    Outcome::Hang => {
                        report("PROCESS-HANG", "no result within the time limit", &config, &bytes);
                        hung = true;
                    }
                }
            }
        }

        // 4. rule chains x generators
        for _ in 0..3 {
            let k = rng.below(5);
            let rules: Vec<&str> = (0..k).map(|_| *rng.pick(RULES)).collect();
            let generator = *rng.pick(GENERATORS);
            let config = format!("{{ generator: {}, rules: [{}] }}", generator, rules.join(", "));
            process_runs += 1;
            match process_guarded(source.clone(), config.clone()) {
                Outcome::Done(Ok(output)) => {
                    if !check_parse(output.as_bytes(), "darklua-output", &mut hung) {
                        report("OUTPUT-UNPARSABLE", &output, &config, source.as_bytes());
                    }
                }
                Outcome::Done(Err(msg)) => {
                    // an error value naming the file is allowed; count it
                    rule_errors += 1;
                    if !msg.contains("main.lua") && !msg.starts_with("config:") {
                        report("ERROR-WITHOUT-FILE", &msg, &config, source.as_bytes());
                    }
                }
                Outcome::Panic(msg) => report("PROCESS-PANIC", &msg, &config, source.as_bytes()),
                Outcome::Hang => {
                    report("PROCESS-HANG", "no result within the time limit", &config, source.as_bytes());
                    hung = true;
                }
            }
        }
    }
    println!(
        "STATS\tparse_attempts={}\tvalid_programs={}\tprocess_runs={}\trule_errors={}",
        parse_attempts, parsed_inputs, process_runs, rule_errors
    );
    if hung {
        std::process::exit(0);
    }
}
