//! `dl-ast`: darklua syntax trees as Coq terms (see the `astdump` crate). Lua source on stdin.
//!
//! * `dl-ast parse`                      -> `<coq term of the parsed block>` (one line);
//!                                          parse error: `ERROR <msg>`, exit code 3
//! * `dl-ast apply '<json5 rule array>'` -> `IN <term>` then `OUT <term>` (block after the rules,
//!                                          applied in order directly to the block);
//!                                          `RULE-ERROR <msg>` (exit code 4) when a rule fails,
//!                                          `CONFIG-ERROR <msg>` (exit code 2) for a bad rule array
//! * `dl-ast gen <dense|readable|retain_lines>` -> the regenerated code
//! * `dl-ast prelude`                    -> the Coq helper definitions the terms rely on
//! * `dl-ast selftest`                   -> the term of a block built in code with the node shapes the
//!                                          parser never produces (hex exponents, odd names, NaN, ...)

use std::io::Read;
use std::panic::{catch_unwind, AssertUnwindSafe};

use darklua_core::generator::{
    DenseLuaGenerator, LuaGenerator, ReadableLuaGenerator, TokenBasedLuaGenerator,
};
use darklua_core::nodes::Block;
use darklua_core::rules::{ContextBuilder, Rule};
use darklua_core::{Parser, Resources};

const DEFAULT_COLUMN_SPAN: usize = 80;
/// path given to the rule context for the code read from stdin
const SOURCE_PATH: &str = "src/stdin.lua";

fn one_line(message: impl ToString) -> String {
    message
        .to_string()
        .replace('\\', "\\\\")
        .replace('\n', "\\n")
        .replace('\r', "\\r")
}

fn read_stdin() -> String {
    let mut bytes = Vec::new();
    std::io::stdin()
        .read_to_end(&mut bytes)
        .expect("unable to read stdin");
    match String::from_utf8(bytes) {
        Ok(source) => source,
        Err(err) => {
            println!("ERROR input is not valid UTF-8: {}", one_line(err));
            std::process::exit(3);
        }
    }
}

fn parse_or_exit(parser: &Parser, source: &str) -> Block {
    match catch_unwind(AssertUnwindSafe(|| parser.parse(source))) {
        Ok(Ok(block)) => block,
        Ok(Err(err)) => {
            println!("ERROR {}", one_line(err));
            std::process::exit(3);
        }
        Err(_) => {
            println!("ERROR parser panicked");
            std::process::exit(3);
        }
    }
}

/// Nodes that cannot be obtained from the parser, to check that their printed form is accepted by Coq.
fn selftest_block() -> Block {
    use darklua_core::nodes::*;

    let all_bytes: Vec<u8> = (0..=255).collect();
    let values: Vec<Expression> = vec![
        NumberExpression::Hex(HexNumber::new(u64::MAX, true).with_exponent(u32::MAX, true)).into(),
        NumberExpression::Hex(HexNumber::new(0, false).with_exponent(0, false)).into(),
        NumberExpression::Binary(BinaryNumber::new(u64::MAX, false)).into(),
        NumberExpression::Decimal(DecimalNumber::new(f64::NAN)).into(),
        NumberExpression::Decimal(DecimalNumber::new(-0.0).with_exponent(i64::MIN, true)).into(),
        NumberExpression::Decimal(
            DecimalNumber::new(f64::NEG_INFINITY).with_exponent(i64::MAX, false),
        )
        .into(),
        StringExpression::from_value(all_bytes).into(),
        StringExpression::empty().into(),
        Expression::identifier("with \"quote\""),
        Expression::identifier("caf\u{e9}"),
        Expression::identifier("tab\there"),
        Expression::identifier(""),
        Expression::identifier("back\\slash (* not a comment *)"),
        FieldExpression::new(Prefix::from_name("a"), "f\"g").into(),
        FunctionExpression::default()
            .with_attribute(
                AttributeGroup::new(AttributeGroupElement::new("native"))
                    .with_attribute(AttributeGroupElement::new("checked")),
            )
            .with_attribute(NamedAttribute::new("native"))
            .into(),
    ];
    let variables = (0..values.len())
        .map(|i| TypedIdentifier::new(format!("v{}", i)))
        .collect();
    Block::default().with_statement(VariableAssignment::new(variables, values))
}

fn usage() -> ! {
    eprintln!(
        "usage: dl-ast parse | apply '<json5 array of rules>' | gen <dense|readable|retain_lines> | prelude   (Lua source on stdin)"
    );
    std::process::exit(2);
}

fn main() {
    let args: Vec<String> = std::env::args().skip(1).collect();
    // the default panic message goes to stderr; keep it, stdout stays machine readable
    match args.first().map(String::as_str) {
        Some("parse") => {
            let source = read_stdin();
            let block = parse_or_exit(&Parser::default(), &source);
            println!("{}", astdump::block_to_coq(&block));
        }
        Some("apply") => {
            let config = args.get(1).unwrap_or_else(|| usage());
            let rules: Vec<Box<dyn Rule>> = match json5::from_str(config) {
                Ok(rules) => rules,
                Err(err) => {
                    println!("CONFIG-ERROR {}", one_line(err));
                    std::process::exit(2);
                }
            };
            let source = read_stdin();
            let mut block = parse_or_exit(&Parser::default(), &source);
            println!("IN {}", astdump::block_to_coq(&block));

            let resources = Resources::from_memory();
            // rules that read the current file (or files next to it) find it there
            let _ = resources.write(SOURCE_PATH, &source);

            for rule in &rules {
                let context = ContextBuilder::new(SOURCE_PATH, &resources, &source).build();
                let result = catch_unwind(AssertUnwindSafe(|| rule.process(&mut block, &context)));
                match result {
                    Ok(Ok(())) => {}
                    Ok(Err(err)) => {
                        println!("RULE-ERROR {}: {}", rule.get_name(), one_line(err));
                        std::process::exit(4);
                    }
                    Err(_) => {
                        println!("RULE-ERROR {}: panicked", rule.get_name());
                        std::process::exit(4);
                    }
                }
            }
            println!("OUT {}", astdump::block_to_coq(&block));
        }
        Some("gen") => {
            let kind = args.get(1).unwrap_or_else(|| usage());
            let source = read_stdin();
            let code = match kind.as_str() {
                "dense" => {
                    let block = parse_or_exit(&Parser::default(), &source);
                    let mut generator = DenseLuaGenerator::new(DEFAULT_COLUMN_SPAN);
                    generator.write_block(&block);
                    generator.into_string()
                }
                "readable" => {
                    let block = parse_or_exit(&Parser::default(), &source);
                    let mut generator = ReadableLuaGenerator::new(DEFAULT_COLUMN_SPAN);
                    generator.write_block(&block);
                    generator.into_string()
                }
                "retain_lines" | "retain-lines" => {
                    let block = parse_or_exit(&Parser::default().preserve_tokens(), &source);
                    let mut generator = TokenBasedLuaGenerator::new(&source);
                    generator.write_block(&block);
                    generator.into_string()
                }
                _ => usage(),
            };
            println!("{}", code);
        }
        Some("prelude") => print!("{}", astdump::coq_prelude()),
        Some("selftest") => println!("{}", astdump::block_to_coq(&selftest_block())),
        _ => usage(),
    }
}
