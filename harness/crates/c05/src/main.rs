//! C05: the real bundler, driven on in-memory projects.
//!
//! `dl-c05 run` reads one project per line on stdin (JSON):
//!   { "id": 7, "files": { "src/main.lua": "...", ... }, "entry": "src/main.lua",
//!     "config": "<json5 text of the darklua configuration>", "reference": "<lua text>",
//!     "modules_identifier": "__DARKLUA_BUNDLE_MODULES", "timeout_ms": 20000 }
//! and prints one tab-separated line per project:
//!   id  OUT  REF  TEXT  SHAPE
//! OUT   = Coq term (Lua/Syntax.v) of the bundle written by `darklua_core::process`, re-parsed;
//!         or `ERR:<hex of the error text>` (process reported errors), `PANIC:<hex>`, `HANG`,
//!         `BAD:<hex>` (the written bundle does not parse)
//! REF   = Coq term of the reference program text (parsed with darklua's parser) or `ERR:<hex>`; `-` when no reference given
//! TEXT  = hex of the written bundle or `-`
//! SHAPE = what the bundle looks like, read off the re-parsed tree (pre-order):
//!         `I` start of a module implementation function, `S<hex>` a string literal starting with `@@`,
//!         `C<name>` a call `<modules_identifier>.<name>()`, `R` a call of the identifier `require`,
//!         `D<name>` the accessor definition `function <modules_identifier>.<name>()`; space separated, `-` if none.
//!
//! `dl-c05 names N` prints the first N identifiers of the generator used for module names.

use std::panic::{catch_unwind, AssertUnwindSafe};
use std::sync::mpsc;
use std::time::Duration;

use darklua_core::nodes::{
    Block, FunctionCall, FunctionStatement, FunctionAssignment, Prefix, StringExpression,
};
use darklua_core::process::{DefaultVisitor, NodeProcessor, NodeVisitor};
use darklua_core::{Configuration, Options, Parser, Resources};
use hutil::hex;

fn parse(source: &str) -> Result<Block, String> {
    match catch_unwind(AssertUnwindSafe(|| Parser::default().parse(source))) {
        Ok(Ok(block)) => Ok(block),
        Ok(Err(err)) => Err(format!("parse: {}", err)),
        Err(_) => Err("parse: panic".to_owned()),
    }
}

struct Shape {
    modules_identifier: String,
    events: Vec<String>,
}

impl NodeProcessor for Shape {
    fn process_function_call(&mut self, call: &mut FunctionCall) {
        if call.get_method().is_some() {
            return;
        }
        match call.get_prefix() {
            Prefix::Identifier(identifier) if identifier.get_name() == "require" => {
                self.events.push("R".to_owned());
            }
            Prefix::Field(field) => {
                if let Prefix::Identifier(root) = field.get_prefix() {
                    if root.get_name() == &self.modules_identifier {
                        self.events.push(format!("C{}", field.get_field().get_name()));
                    }
                }
            }
            _ => {}
        }
    }

    fn process_function_statement(&mut self, function: &mut FunctionStatement) {
        let name = function.get_name();
        if name.get_name().get_name() == &self.modules_identifier
            && name.get_field_names().len() == 1
            && name.get_method().is_none()
        {
            self.events
                .push(format!("D{}", name.get_field_names()[0].get_name()));
        }
    }

    fn process_local_function_statement(&mut self, function: &mut FunctionAssignment) {
        if function.get_name() == "__modImpl" {
            self.events.push("I".to_owned());
        }
    }

    fn process_string_expression(&mut self, string: &mut StringExpression) {
        if string.get_value().starts_with(b"@@") {
            self.events.push(format!("S{}", hex(string.get_value())));
        }
    }
}

fn shape_of(block: &Block, modules_identifier: &str) -> String {
    let mut block = block.clone();
    let mut shape = Shape {
        modules_identifier: modules_identifier.to_owned(),
        events: Vec::new(),
    };
    DefaultVisitor::visit_block(&mut block, &mut shape);
    if shape.events.is_empty() {
        "-".to_owned()
    } else {
        shape.events.join(" ")
    }
}

enum Outcome {
    Text(String),
    Errors(String),
    Panic(String),
}

fn bundle(files: &[(String, String)], entry: &str, config_text: &str) -> Outcome {
    let config: Configuration = match json5::from_str(config_text) {
        Ok(config) => config,
        Err(err) => return Outcome::Errors(format!("config: {}", err)),
    };
    let resources = Resources::from_memory();
    for (path, content) in files {
        if let Err(err) = resources.write(path, content) {
            return Outcome::Errors(format!("write {}: {:?}", path, err));
        }
    }
    darklua_core::verif_hooks::c15::clear_luau_configuration_cache();
    let output = "out/bundle.lua";
    let result = catch_unwind(AssertUnwindSafe(|| {
        darklua_core::process(
            &resources,
            Options::new(entry)
                .with_output(output)
                .with_configuration(config),
        )
    }));
    match result {
        Ok(Ok(worker)) => {
            let errors: Vec<String> = worker
                .collect_errors()
                .iter()
                .map(|e| e.to_string())
                .collect();
            if !errors.is_empty() {
                return Outcome::Errors(errors.join("\n;; "));
            }
        }
        Ok(Err(err)) => return Outcome::Errors(format!("{}", err)),
        Err(payload) => {
            let message = payload
                .downcast_ref::<String>()
                .cloned()
                .or_else(|| payload.downcast_ref::<&str>().map(|s| s.to_string()))
                .unwrap_or_else(|| "panic".to_owned());
            return Outcome::Panic(message);
        }
    }
    match resources.get(output) {
        Ok(text) => Outcome::Text(text),
        Err(err) => Outcome::Errors(format!("no output written: {:?}", err)),
    }
}

fn run_case(case: &serde_json::Value) -> String {
    let id = case["id"].as_i64().unwrap_or(-1);
    let entry = case["entry"].as_str().unwrap_or("src/main.lua").to_owned();
    let config = case["config"].as_str().unwrap_or("{}").to_owned();
    let modules_identifier = case["modules_identifier"]
        .as_str()
        .unwrap_or("__DARKLUA_BUNDLE_MODULES")
        .to_owned();
    let mut files: Vec<(String, String)> = Vec::new();
    if let Some(map) = case["files"].as_object() {
        for (path, content) in map {
            files.push((path.clone(), content.as_str().unwrap_or("").to_owned()));
        }
    }
    let reference = match case["reference"].as_str() {
        Some(text) => match parse(text) {
            Ok(block) => astdump::block_to_coq(&block),
            Err(message) => format!("ERR:{}", hex(message.as_bytes())),
        },
        None => "-".to_owned(),
    };
    let (out, text, shape) = match bundle(&files, &entry, &config) {
        Outcome::Text(text) => match parse(&text) {
            Ok(block) => (
                astdump::block_to_coq(&block),
                hex(text.as_bytes()),
                shape_of(&block, &modules_identifier),
            ),
            Err(message) => (
                format!("BAD:{}", hex(message.as_bytes())),
                hex(text.as_bytes()),
                "-".to_owned(),
            ),
        },
        Outcome::Errors(message) => (
            format!("ERR:{}", hex(message.as_bytes())),
            "-".to_owned(),
            "-".to_owned(),
        ),
        Outcome::Panic(message) => (
            format!("PANIC:{}", hex(message.as_bytes())),
            "-".to_owned(),
            "-".to_owned(),
        ),
    };
    format!("{}\t{}\t{}\t{}\t{}", id, out, reference, text, shape)
}

fn main() {
    let args: Vec<String> = std::env::args().skip(1).collect();
    let sub = args.first().map(String::as_str).unwrap_or("");
    match sub {
        "run" => {
            use std::io::BufRead;
            // keep panic messages out of stderr noise: they are reported in the OUT column
            std::panic::set_hook(Box::new(|_| {}));
            let stdin = std::io::stdin();
            for line in stdin.lock().lines() {
                let line = line.expect("stdin");
                if line.trim().is_empty() {
                    continue;
                }
                let case: serde_json::Value = match serde_json::from_str(&line) {
                    Ok(value) => value,
                    Err(err) => {
                        println!("-1\tERR:{}\t-\t-\t-", hex(format!("input: {}", err).as_bytes()));
                        continue;
                    }
                };
                let id = case["id"].as_i64().unwrap_or(-1);
                let timeout = case["timeout_ms"].as_u64().unwrap_or(20000);
                // a worker thread per project: a hang is reported, not suffered (the thread is
                // abandoned; the process exits at the end of the input)
                let (sender, receiver) = mpsc::channel();
                let builder = std::thread::Builder::new().stack_size(64 * 1024 * 1024);
                let handle = builder.spawn(move || {
                    let line = catch_unwind(AssertUnwindSafe(|| run_case(&case)));
                    let _ = sender.send(line);
                });
                match receiver.recv_timeout(Duration::from_millis(timeout)) {
                    Ok(Ok(line)) => println!("{}", line),
                    Ok(Err(_)) => println!("{}\tPANIC:{}\t-\t-\t-", id, hex(b"harness")),
                    Err(_) => println!("{}\tHANG\t-\t-\t-", id),
                }
                drop(handle);
            }
            std::process::exit(0);
        }
        "names" => {
            let n: usize = args.get(1).and_then(|v| v.parse().ok()).unwrap_or(10);
            for name in darklua_core::verif_hooks::generated_identifiers(n) {
                println!("{}", name);
            }
        }
        _ => {
            eprintln!("dl-c05: unknown subcommand {:?}", sub);
            std::process::exit(2);
        }
    }
}
