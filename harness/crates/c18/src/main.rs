//! C18: comment and whitespace rules never touch code.
//!
//! `dl-c18 run`   reads one JSON object per line on stdin
//!        {"id": n, "config": "<json5 configuration text>", "src": "<lua source>"}
//!    runs `darklua_core::process` on memory resources (`src/main.lua`, `.darklua.json`)
//!    and prints one JSON object per line
//!        {"id": n, "ok": true, "out": "<generated text>"}
//!        {"id": n, "ok": false, "err": "<message>", "panic": bool}
//!
//! `dl-c18 classify` reads {"id": n, "text": "<comment trivia>"} lines and prints the token
//!    generator's `is_single_line_comment` for each.
//!
//! `dl-c18 text`  reads {"id": n, "text": "<comment text>"} lines and prints
//!        {"id": n, "comment": "<hex of AppendTextComment::text()>", "single": [bool...]}
//!    (the comment trivia the rule builds, through the verif hook).

use std::io::{BufRead, Write};
use std::panic::{catch_unwind, AssertUnwindSafe};

use darklua_core::{Options, Resources};
use hutil::hex;
use serde_json::{json, Value};

fn run_one(config: &str, src: &str) -> Result<String, String> {
    let resources = Resources::from_memory();
    resources
        .write("src/main.lua", src)
        .map_err(|e| format!("write: {:?}", e))?;
    resources
        .write(".darklua.json", config)
        .map_err(|e| format!("write: {:?}", e))?;
    let options = Options::new("src/main.lua")
        .with_configuration_at(".darklua.json")
        .with_output("out/main.lua");
    let tree = darklua_core::process(&resources, options).map_err(|e| e.to_string())?;
    tree.result().map_err(|errors| {
        errors
            .iter()
            .map(|e| e.to_string())
            .collect::<Vec<_>>()
            .join(" | ")
    })?;
    resources
        .get("out/main.lua")
        .map_err(|e| format!("no output: {:?}", e))
}

fn main() {
    let args: Vec<String> = std::env::args().skip(1).collect();
    let sub = args.first().map(String::as_str).unwrap_or("");
    std::panic::set_hook(Box::new(|_| {}));
    let stdin = std::io::stdin();
    let stdout = std::io::stdout();
    let mut out = stdout.lock();
    match sub {
        "run" => {
            for line in stdin.lock().lines() {
                let line = line.expect("stdin");
                if line.trim().is_empty() {
                    continue;
                }
                let case: Value = serde_json::from_str(&line).expect("case json");
                let id = case["id"].clone();
                let config = case["config"].as_str().unwrap_or("{}").to_owned();
                let src = case["src"].as_str().unwrap_or("").to_owned();
                let result = catch_unwind(AssertUnwindSafe(|| run_one(&config, &src)));
                let answer = match result {
                    Ok(Ok(text)) => json!({"id": id, "ok": true, "out": text}),
                    Ok(Err(err)) => json!({"id": id, "ok": false, "err": err, "panic": false}),
                    Err(_) => json!({"id": id, "ok": false, "err": "panic", "panic": true}),
                };
                writeln!(out, "{}", answer).unwrap();
            }
        }
        "text" => {
            for line in stdin.lock().lines() {
                let line = line.expect("stdin");
                if line.trim().is_empty() {
                    continue;
                }
                let case: Value = serde_json::from_str(&line).expect("case json");
                let id = case["id"].clone();
                let text = case["text"].as_str().unwrap_or("").to_owned();
                let comment = darklua_core::verif_hooks::append_text_comment_text(&text);
                let single = darklua_core::verif_hooks::is_single_line_comment(&comment);
                writeln!(
                    out,
                    "{}",
                    json!({"id": id, "text": hex(text.as_bytes()), "comment": hex(comment.as_bytes()),
                           "single": single, "lines": comment.lines().count()})
                )
                .unwrap();
            }
        }
        "classify" => {
            // {"id": n, "text": "<comment trivia>"} -> {"id": n, "single": is_single_line_comment(text)}
            for line in stdin.lock().lines() {
                let line = line.expect("stdin");
                if line.trim().is_empty() {
                    continue;
                }
                let case: Value = serde_json::from_str(&line).expect("case json");
                let id = case["id"].clone();
                let text = case["text"].as_str().unwrap_or("").to_owned();
                let single = darklua_core::verif_hooks::is_single_line_comment(&text);
                writeln!(out, "{}", json!({"id": id, "text": hex(text.as_bytes()), "single": single})).unwrap();
            }
        }
        _ => {
            eprintln!("dl-c18: unknown subcommand {:?}", sub);
            std::process::exit(2);
        }
    }
}
