//! Seeded generator of small, mostly error-free, observable Lua/Luau programs.
//!
//! Programs observe themselves through external functions `ext_*` (their calls and arguments
//! form the trace compared by the reference interpreter) and return values at the end.
//! Generation is typed (number / string / boolean / table / function / any) so that most programs
//! run without error, with a deliberate minority of risky constructs.

use hutil::Rng;

#[derive(Clone, Copy, PartialEq, Eq, Debug)]
pub enum Ty {
    Num,
    Str,
    Bool,
    Tbl,
    Fun,
    Any,
}

#[derive(Clone, Default)]
pub struct Features {
    pub luau: bool,       // compound assignment, continue, if-expressions, interpolation, //, types, 0b / _ numbers
    pub foldable: bool,   // constant-foldable expressions, dead code, unused variables
    pub refactor: bool,   // consecutive locals, local functions, method calls, math.sqrt
    pub removal: bool,    // assert / debug.profile* / injected global reads
    pub meta: bool,       // metatables with observable metamethods
}

pub struct Gen<'a> {
    pub rng: &'a mut Rng,
    pub f: Features,
    scopes: Vec<Vec<(String, Ty)>>,
    counter: usize,
    loop_depth: usize,
    fn_depth: usize,
    out: String,
    indent: usize,
    in_vararg_fn: bool,
}

const NAMES: &[&str] = &["a", "b", "c", "d", "e", "x", "y", "z", "v", "w", "k", "r", "m", "q"];

impl<'a> Gen<'a> {
    pub fn new(rng: &'a mut Rng, f: Features) -> Self {
        Gen {
            rng,
            f,
            scopes: vec![Vec::new()],
            counter: 0,
            loop_depth: 0,
            fn_depth: 0,
            out: String::new(),
            indent: 0,
            in_vararg_fn: false,
        }
    }

    fn line(&mut self, s: &str) {
        for _ in 0..self.indent {
            self.out.push_str("  ");
        }
        self.out.push_str(s);
        self.out.push('\n');
    }

    fn fresh(&mut self, ty: Ty) -> String {
        // reuse short names often (shadowing), fresh numbered names otherwise
        let name = if self.rng.chance(1, 3) {
            (*self.rng.pick(NAMES)).to_owned()
        } else {
            self.counter += 1;
            format!("{}{}", self.rng.pick(NAMES), self.counter)
        };
        self.scopes.last_mut().unwrap().push((name.clone(), ty));
        name
    }

    fn declare(&mut self, name: &str, ty: Ty) {
        self.scopes.last_mut().unwrap().push((name.to_owned(), ty));
    }

    fn var_of(&mut self, ty: Ty) -> Option<String> {
        let mut found: Vec<String> = Vec::new();
        let mut seen: Vec<&str> = Vec::new();
        for scope in self.scopes.iter().rev() {
            for (n, t) in scope.iter().rev() {
                if seen.contains(&n.as_str()) {
                    continue;
                }
                seen.push(n);
                if *t == ty {
                    found.push(n.clone());
                }
            }
        }
        if found.is_empty() {
            None
        } else {
            Some(found[self.rng.below(found.len())].clone())
        }
    }

    fn num_lit(&mut self) -> String {
        let luau = self.f.luau;
        match self.rng.below(if luau { 19 } else { 10 }) {
            14 => "1_000.25".into(),
            15 => "2_5e-1".into(),
            16 => "0.000_1".into(),
            17 => "1_0e+2".into(),
            18 => "0xFF_FF".into(),
            0 => "0".into(),
            1 => "1".into(),
            2 => "2".into(),
            3 => "3".into(),
            4 => "10".into(),
            5 => "0.5".into(),
            6 => "7".into(),
            7 => "-4".into(),
            8 => "1e2".into(),
            9 => "0x10".into(),
            10 => "0b101".into(),
            11 => "1_000".into(),
            12 => "0x_ff".into(),
            _ => "2.5".into(),
        }
    }

    fn str_lit(&mut self) -> String {
        (*self.rng.pick(&["\"a\"", "'b'", "\"hello\"", "\"\"", "\"x y\"", "'7'", "\"field\"", "[[long]]"])).to_owned()
    }

    pub fn expr(&mut self, ty: Ty, depth: usize) -> String {
        let ty = if ty == Ty::Any {
            *self.rng.pick(&[Ty::Num, Ty::Str, Ty::Bool, Ty::Num, Ty::Tbl])
        } else {
            ty
        };
        if depth == 0 || self.rng.chance(1, 4) {
            return self.leaf(ty);
        }
        let d = depth - 1;
        match ty {
            Ty::Num => match self.rng.below(17) {
                0..=4 => {
                    let op = *self.rng.pick(&["+", "-", "*", "+", "-"]);
                    format!("{} {} {}", self.expr(Ty::Num, d), op, self.expr(Ty::Num, d))
                }
                5 => format!("({} / 2)", self.expr(Ty::Num, d)),
                6 => format!("({} % {})", self.expr(Ty::Num, d), self.rng.pick(&["3", "-3", "2", "0.5", "-2"])),
                7 => format!("#{}", self.paren_if_needed(Ty::Str, d)),
                8 => format!("-{}", self.paren_if_needed(Ty::Num, d)),
                9 => format!("({})", self.expr(Ty::Num, d)),
                10 if self.f.luau => format!("({} // 2)", self.expr(Ty::Num, d)),
                11 if self.f.luau => self.if_expr(Ty::Num, d),
                12 if self.f.refactor => format!("math.sqrt({})", self.rng.pick(&["4", "9", "16", "0", "2.25", "4", "9"])),
                15 if self.f.refactor => "(1 / math.sqrt(-0))".to_owned(),
                13 => format!("ext_n({})", self.expr(Ty::Num, d)),
                14 if self.f.luau => format!("({} :: number)", self.expr(Ty::Num, d)),
                _ => format!("({} and {} or {})", self.expr(Ty::Bool, d), self.expr(Ty::Num, d), self.expr(Ty::Num, d)),
            },
            Ty::Str => match self.rng.below(8) {
                0 | 1 => format!("{} .. {}", self.expr(Ty::Str, d), self.expr(Ty::Str, d)),
                2 => format!("{} .. {}", self.expr(Ty::Str, d), self.rng.pick(&["1", "2", "10", "0.5"])),
                3 if self.f.luau => {
                    let a = self.expr(Ty::Any, d);
                    let b = self.expr(Ty::Str, d);
                    let a = if a.starts_with('{') { format!("({})", a) } else { a };
                    format!("`<{{{}}}|{{{}}}>`", a, b)
                }
                4 => format!("tostring({})", self.expr(Ty::Num, d)),
                5 if self.f.luau => self.if_expr(Ty::Str, d),
                6 => format!("type({})", self.expr(Ty::Any, d)),
                _ => format!("({})", self.expr(Ty::Str, d)),
            },
            Ty::Bool => match self.rng.below(10) {
                0 | 1 => {
                    let op = *self.rng.pick(&["<", "<=", ">", ">=", "==", "~="]);
                    format!("{} {} {}", self.expr(Ty::Num, d), op, self.expr(Ty::Num, d))
                }
                2 => format!("{} == {}", self.expr(Ty::Str, d), self.expr(Ty::Str, d)),
                3 => format!("not {}", self.paren_if_needed(Ty::Bool, d)),
                4 => format!("({} and {})", self.expr(Ty::Bool, d), self.expr(Ty::Bool, d)),
                5 => format!("({} or {})", self.expr(Ty::Bool, d), self.expr(Ty::Bool, d)),
                6 => format!("{} ~= nil", self.expr(Ty::Any, d)),
                7 => format!("ext_b({})", self.expr(Ty::Num, d)),
                _ => format!("{} < {}", self.expr(Ty::Str, d), self.expr(Ty::Str, d)),
            },
            Ty::Tbl => match self.rng.below(5) {
                0 => format!("{{ {}, {} }}", self.expr(Ty::Num, d), self.expr(Ty::Any, d)),
                1 => format!("{{ k = {}, [({})] = {} }}", self.expr(Ty::Any, d), self.expr(Ty::Str, d), self.expr(Ty::Num, d)),
                2 => format!("{{ {}; n = {} }}", self.expr(Ty::Str, d), self.expr(Ty::Num, d)),
                3 if self.f.meta => format!(
                    "setmetatable({{ v = {} }}, {{ __index = function(t, key) ext_p(\"index\", key) return {} end, __add = function(l, r) ext_p(\"add\") return {} end, __tostring = function() ext_p(\"tostring\") return \"obj\" end, __call = function(self, arg) ext_p(\"call\", arg) return arg end }})",
                    self.expr(Ty::Num, d),
                    self.expr(Ty::Num, 0),
                    self.expr(Ty::Num, 0)
                ),
                _ => "{}".into(),
            },
            Ty::Fun => {
                let body = self.expr(Ty::Num, d);
                format!("function(p) return p, {} end", body)
            }
            Ty::Any => unreachable!(),
        }
    }

    /// condition of an if-expression: often statically known (true / false / foldable)
    fn if_cond(&mut self, d: usize) -> String {
        match self.rng.below(6) {
            0 => "true".into(),
            1 => "false".into(),
            2 => "(1 < 2)".into(),
            _ => self.expr(Ty::Bool, d),
        }
    }

    /// `(if c then r {elseif c then r} else r)` with 0..3 elseif branches
    fn if_expr(&mut self, ty: Ty, d: usize) -> String {
        let mut out = format!("(if {} then {}", self.if_cond(d), self.if_result(ty, d));
        for _ in 0..self.rng.below(4) {
            out.push_str(&format!(" elseif {} then {}", self.if_cond(d), self.if_result(ty, d)));
        }
        out.push_str(&format!(" else {})", self.if_result(ty, d)));
        out
    }

    fn if_result(&mut self, ty: Ty, d: usize) -> String {
        if self.rng.chance(1, 6) && d > 0 {
            // nested if-expression as a branch result
            self.if_expr(ty, d - 1)
        } else {
            self.expr(ty, d)
        }
    }

    /// an expression of any kind whose value may be nil or false: falsy if-expression results,
    /// multi-value calls
    fn any_expr(&mut self, d: usize) -> String {
        if self.f.luau && self.rng.chance(1, 2) {
            let mut out = format!("(if {} then {}", self.if_cond(d), self.falsy_or(d));
            for _ in 0..self.rng.below(3) {
                out.push_str(&format!(" elseif {} then {}", self.if_cond(d), self.falsy_or(d)));
            }
            out.push_str(&format!(" else {})", self.falsy_or(d)));
            out
        } else {
            self.falsy_or(d)
        }
    }

    fn falsy_or(&mut self, d: usize) -> String {
        match self.rng.below(8) {
            0 => "nil".into(),
            1 => "false".into(),
            2 => "ext_n()".into(),
            3 if self.f.luau && d > 0 => {
                // nested: statically false first condition, unknown elseif, falsy / truthy results
                format!("(if false then \"dbg\" elseif {} then nil else \"verbose\")", self.expr(Ty::Bool, d - 1))
            }
            4 => self.expr(Ty::Str, d),
            _ => self.expr(Ty::Num, d),
        }
    }

    fn paren_if_needed(&mut self, ty: Ty, d: usize) -> String {
        let e = self.expr(ty, d);
        if e.chars().all(|c| c.is_alphanumeric() || c == '_' || c == '"' || c == '\'') {
            e
        } else {
            format!("({})", e)
        }
    }

    fn leaf(&mut self, ty: Ty) -> String {
        if self.rng.chance(3, 5) {
            if let Some(v) = self.var_of(ty) {
                return v;
            }
        }
        match ty {
            Ty::Num => {
                if self.f.foldable && self.rng.chance(1, 4) {
                    (*self.rng.pick(&["1 + 2", "2 * 3", "#\"abc\"", "(4 - 1)", "10 / 4", "7 % 3", "2 ^ 3", "\"3\" + 1", "-(-2)", "7 % -3", "-7 % 3", "5.5 % -2", "-4 % 2", "7 // -2", "-7 // 2", "2 ^ -1", "1 / 4", "0.1 + 0.2 > 0.3", "10 - 2 - 3", "2 ^ 3 ^ 2", "-2 ^ 2"])).to_owned()
                } else if self.rng.chance(1, 8) {
                    "ext_n()".into()
                } else if self.f.removal && self.rng.chance(1, 8) {
                    (*self.rng.pick(&["(DEBUG_LEVEL or 0)", "(_G.DEBUG_LEVEL or 0)", "(_G[\"DEBUG_LEVEL\"] or 0)"])).to_owned()
                } else {
                    self.num_lit()
                }
            }
            Ty::Str => {
                if self.f.foldable && self.rng.chance(1, 4) {
                    (*self.rng.pick(&["\"a\" .. \"b\"", "\"n\" .. 1", "(\"x\")", "(true and \"t\")", "(nil or \"d\")"])).to_owned()
                } else {
                    self.str_lit()
                }
            }
            Ty::Bool => {
                if self.f.foldable && self.rng.chance(1, 3) {
                    (*self.rng.pick(&["not true", "1 < 2", "\"a\" == \"a\"", "(true and false)", "not nil", "1 == 1.0", "(false or true)"])).to_owned()
                } else if self.f.removal && self.rng.chance(1, 8) {
                    "(DEBUG ~= nil)".into()
                } else {
                    (*self.rng.pick(&["true", "false", "true", "ext_b()"])).to_owned()
                }
            }
            Ty::Tbl => (*self.rng.pick(&["{}", "{ 1, 2, 3 }", "{ x = 1 }", "{ \"s\", n = 2 }"])).to_owned(),
            Ty::Fun => "function(p) return p end".into(),
            Ty::Any => "nil".into(),
        }
    }

    fn push_scope(&mut self) {
        self.scopes.push(Vec::new());
    }
    fn pop_scope(&mut self) {
        self.scopes.pop();
    }

    fn block(&mut self, depth: usize, max_stmts: usize) {
        self.block_with(depth, max_stmts, true)
    }

    fn block_with(&mut self, depth: usize, max_stmts: usize, allow_exit: bool) {
        self.push_scope();
        self.indent += 1;
        let n = 1 + self.rng.below(max_stmts);
        for _ in 0..n {
            self.stmt(depth);
        }
        // occasional early exit at the end of a block
        if !allow_exit {
        } else if self.loop_depth > 0 && self.rng.chance(1, 6) {
            if self.f.luau && self.rng.chance(1, 2) {
                self.line("continue");
            } else {
                self.line("break");
            }
        } else if self.fn_depth > 0 && self.rng.chance(1, 8) {
            let e = self.expr(Ty::Num, 1);
            self.line(&format!("return {}", e));
        }
        self.indent -= 1;
        self.pop_scope();
    }

    fn observe(&mut self) {
        let n = 1 + self.rng.below(3);
        let mut args = Vec::new();
        for _ in 0..n {
            if self.rng.chance(1, 5) {
                args.push(self.any_expr(2));
                continue;
            }
            let ty = *self.rng.pick(&[Ty::Num, Ty::Str, Ty::Bool, Ty::Any, Ty::Num]);
            args.push(self.expr(ty, 2));
        }
        let call = format!("ext_p({})", args.join(", "));
        self.line(&call);
    }

    pub fn stmt(&mut self, depth: usize) {
        let d = depth.saturating_sub(1);
        let choice = self.rng.below(46);
        match choice {
            0..=5 => {
                // local declaration
                let ty = *self.rng.pick(&[Ty::Num, Ty::Num, Ty::Str, Ty::Bool, Ty::Tbl]);
                let e = self.expr(ty, 2);
                let ann = if self.f.luau && self.rng.chance(1, 4) {
                    match ty {
                        Ty::Num => ": number",
                        Ty::Str => ": string",
                        Ty::Bool => ": boolean",
                        _ => ": any",
                    }
                } else {
                    ""
                };
                let name = self.fresh(ty);
                self.line(&format!("local {}{} = {}", name, ann, e));
            }
            6 => {
                // multiple declaration, possibly fed by a multi-value call
                let e1 = self.expr(Ty::Num, 1);
                let n1 = self.fresh(Ty::Num);
                let n2 = self.fresh(Ty::Any);
                match self.rng.below(3) {
                    0 => self.line(&format!("local {}, {} = {}, ext_n()", n1, n2, e1)),
                    1 => self.line(&format!("local {}, {} = {}", n1, n2, e1)),
                    _ => {
                        let e2 = self.expr(Ty::Str, 1);
                        self.line(&format!("local {}, {} = {}, {}", n1, n2, e1, e2))
                    }
                }
            }
            7 | 8 => self.observe(),
            9 | 10 => {
                // assignment to an existing variable
                let ty = *self.rng.pick(&[Ty::Num, Ty::Str, Ty::Bool]);
                if let Some(v) = self.var_of(ty) {
                    let e = self.expr(ty, 2);
                    if self.f.luau && ty == Ty::Num && self.rng.chance(1, 2) {
                        let op = *self.rng.pick(&["+=", "-=", "*=", "//=", "%="]);
                        let rhs = if op == "//=" || op == "%=" { "2".to_owned() } else { e };
                        self.line(&format!("{} {} {}", v, op, rhs));
                    } else if self.f.luau && ty == Ty::Str && self.rng.chance(1, 2) {
                        self.line(&format!("{} ..= {}", v, e));
                    } else {
                        self.line(&format!("{} = {}", v, e));
                    }
                } else {
                    self.observe();
                }
            }
            11 | 12 => {
                // table field updates
                if let Some(t) = self.var_of(Ty::Tbl) {
                    let e = self.expr(Ty::Num, 1);
                    match self.rng.below(7) {
                        0 => self.line(&format!("{}.f = {}", t, e)),
                        1 => self.line(&format!("{}[\"g\"] = {}", t, e)),
                        2 if self.f.luau => self.line(&format!("{}.n = 1 {}.n += {}", t, t, e)),
                        3 if self.f.luau => {
                            // the key is an effectful expression in various syntactic wrappers: it must
                            // be evaluated once (each ext_n call returns the next oracle value)
                            let key = *self.rng.pick(&[
                                "ext_n(2)",
                                "(ext_n(2))",
                                "ext_n(2) :: number",
                                "(ext_n(2) :: number)",
                                "ext_n(2) + 0",
                                "#{ ext_n(2) }",
                                "`{ext_n(2)}`",
                                "(if ext_b() then 1 else 1)",
                            ]);
                            for k in ["1", "2", "3", "0", "7", "\"1\"", "\"2\"", "\"3\"", "\"0\"", "\"7\""] {
                                self.line(&format!("{}[{}] = 5", t, k));
                            }
                            let op = *self.rng.pick(&["+=", "-=", "*=", "//=", "%="]);
                            self.line(&format!("{}[{}] {} {}", t, key, op, if op == "//=" || op == "%=" { "2".to_owned() } else { e }));
                            self.line(&format!("ext_p({}[1], {}[2], {}[3], {}[\"1\"], {}[\"2\"])", t, t, t, t, t));
                        }
                        5 if self.f.luau => {
                            // effectful prefix
                            self.line(&format!("local function pick() ext_p(\"pick\") return {} end", t));
                            self.line(&format!("{}.m = 1", t));
                            let target = *self.rng.pick(&["pick().m", "(pick()).m", "pick()[\"m\"]", "(pick() :: any).m"]);
                            self.line(&format!("{} += {}", target, e));
                            self.line(&format!("ext_p({}.m)", t));
                        }
                        _ => {
                            let key = *self.rng.pick(&["1", "2", "\"s\""]);
                            self.line(&format!("{}[{}] = {}", t, key, e))
                        }
                    }
                    if self.rng.chance(1, 2) {
                        self.line(&format!("ext_p({}.f, {}[1], #{})", t, t, t));
                    }
                } else {
                    let name = self.fresh(Ty::Tbl);
                    self.line(&format!("local {} = {{}}", name));
                }
            }
            13 | 14 | 15 if depth > 0 => {
                let c = self.expr(Ty::Bool, 2);
                self.line(&format!("if {} then", c));
                self.block(d, 3);
                if self.rng.chance(1, 3) {
                    let c2 = self.expr(Ty::Bool, 1);
                    self.line(&format!("elseif {} then", c2));
                    self.block(d, 2);
                }
                if self.rng.chance(1, 2) {
                    self.line("else");
                    self.block(d, 2);
                }
                self.line("end");
            }
            16 | 17 if depth > 0 => {
                // bounded numeric for; sometimes the header reads an outer local that the loop variable shadows
                if self.rng.chance(1, 4) {
                    let hi = 1 + self.rng.below(3);
                    let name = (*self.rng.pick(NAMES)).to_owned();
                    self.line(&format!("local {} = {}", name, hi));
                    self.declare(&name, Ty::Num);
                    match self.rng.below(3) {
                        0 => self.line(&format!("for {} = 1, {} do", name, name)),
                        1 => self.line(&format!("for {} = {}, 3 do", name, name)),
                        _ => self.line(&format!("for {} = 3, 1, -{} do", name, name)),
                    }
                    self.indent += 1;
                    self.line(&format!("ext_p(\"loop\", {})", name));
                    self.indent -= 1;
                    self.line("end");
                    self.line(&format!("ext_p({})", name));
                    return;
                }
                let v = self.fresh(Ty::Num);
                let hi = 1 + self.rng.below(3);
                self.line(&format!("for {} = 1, {} do", v, hi));
                self.loop_depth += 1;
                self.block(d, 3);
                self.loop_depth -= 1;
                self.line("end");
            }
            18 if depth > 0 => {
                // bounded while
                self.counter += 1;
                let i = format!("i{}", self.counter);
                self.line(&format!("local {} = 0", i));
                self.declare(&i, Ty::Num);
                let bound = 1 + self.rng.below(3);
                self.line(&format!("while {} < {} do", i, bound));
                self.indent += 1;
                self.line(&format!("{} = {} + 1", i, i));
                self.indent -= 1;
                self.loop_depth += 1;
                self.block(d, 3);
                self.loop_depth -= 1;
                self.line("end");
            }
            19 if depth > 0 => {
                // bounded repeat, condition may read a body local
                self.counter += 1;
                let i = format!("j{}", self.counter);
                self.line(&format!("local {} = 0", i));
                self.declare(&i, Ty::Num);
                self.line("repeat");
                self.indent += 1;
                self.line(&format!("{} = {} + 1", i, i));
                let reads_body_local = self.rng.chance(1, 2);
                if reads_body_local {
                    let bound = 1 + self.rng.below(3);
                    self.line(&format!("local done = {} >= {}", i, bound));
                }
                self.indent -= 1;
                self.loop_depth += 1;
                self.block(d, 2);
                self.loop_depth -= 1;
                if reads_body_local {
                    self.line("until done");
                } else {
                    let bound = 1 + self.rng.below(3);
                    self.line(&format!("until {} >= {}", i, bound));
                }
            }
            20 if depth > 0 => {
                // generic for over a literal sequence
                let k = self.fresh(Ty::Num);
                let v = self.fresh(Ty::Any);
                let iter = *self.rng.pick(&["ipairs({ 10, 20, 30 })", "ipairs({ \"a\", \"b\" })", "pairs({ 5 })", "next, { 7 }"]);
                self.line(&format!("for {}, {} in {} do", k, v, iter));
                self.loop_depth += 1;
                self.block(d, 2);
                self.loop_depth -= 1;
                self.line("end");
            }
            21 | 22 if depth > 0 => {
                // local function and calls
                let f = self.fresh(Ty::Fun);
                let variadic = self.rng.chance(1, 4);
                let recursive = self.rng.chance(1, 4);
                self.line(&format!("local function {}(p, q{})", f, if variadic { ", ..." } else { "" }));
                self.push_scope();
                self.declare("p", Ty::Num);
                self.declare("q", Ty::Any);
                self.fn_depth += 1;
                let saved_loop = self.loop_depth;
                self.loop_depth = 0;
                self.indent += 1;
                if recursive {
                    self.line(&format!("if p > 0 then return {}(p - 1, q) end", f));
                }
                if variadic {
                    self.line("ext_p(select(\"#\", ...), ...)");
                }
                self.indent -= 1;
                self.block_with(d, 3, false);
                self.indent += 1;
                let r1 = self.expr(Ty::Num, 1);
                if self.rng.chance(1, 2) {
                    self.line(&format!("return {}, q", r1));
                } else {
                    self.line(&format!("return {}", r1));
                }
                self.indent -= 1;
                self.loop_depth = saved_loop;
                self.fn_depth -= 1;
                self.pop_scope();
                self.line("end");
                let a1 = self.expr(Ty::Num, 1);
                match self.rng.below(3) {
                    0 => self.line(&format!("ext_p({}({}, \"s\"))", f, a1)),
                    1 => self.line(&format!("ext_p(({}({}, 2)))", f, a1)),
                    _ => {
                        let r = self.fresh(Ty::Num);
                        self.line(&format!("local {} = {}({}, nil, 8, 9)", r, f, a1))
                    }
                }
            }
            23 | 24 if depth > 0 => {
                // object with methods, method calls
                let t = self.fresh(Ty::Tbl);
                self.line(&format!("local {} = {{ count = 0, inner = {{}} }}", t));
                match self.rng.below(5) {
                    0 => {
                        self.line(&format!("function {}:bump(by)", t));
                        self.indent += 1;
                        self.line("self.count = self.count + by");
                        self.line("return self.count");
                        self.indent -= 1;
                        self.line("end");
                        self.line(&format!("ext_p({}:bump(2), {}:bump(3))", t, t));
                    }
                    1 => {
                        self.line(&format!("function {}.inner.make(v)", t));
                        self.indent += 1;
                        self.line("return { v }");
                        self.indent -= 1;
                        self.line("end");
                        self.line(&format!("ext_p({}.inner.make(4)[1])", t));
                    }
                    3 => {
                        self.line(&format!("function {}.inner:get(a)", t));
                        self.indent += 1;
                        self.line("return self, a");
                        self.indent -= 1;
                        self.line("end");
                        self.line(&format!("local reg = {{ {}.inner, {}.inner }}", t, t));
                        match self.rng.below(4) {
                            0 => self.line("ext_p(select(2, (reg[ext_n(1) > 100 and 2 or 1]):get(5)))"),
                            1 => self.line(&format!("ext_p(select(2, ({}.inner):get(6)))", t)),
                            2 => self.line("ext_p(select(2, reg[ext_n(2) > 100 and 2 or 1]:get(7)))"),
                            _ => self.line(&format!("ext_p(select(2, ({}).inner:get(ext_n(3))))", t)),
                        }
                    }
                    _ => {
                        self.line(&format!("function {}.inner:get()", t));
                        self.indent += 1;
                        self.line("return self, 1");
                        self.indent -= 1;
                        self.line("end");
                        self.line(&format!("ext_p(select(2, {}.inner:get()))", t));
                        self.line(&format!("ext_p(({}).inner:get() == {}.inner)", t, t));
                    }
                }
            }
            25 if depth > 0 => {
                self.line("do");
                self.block(d, 3);
                self.line("end");
            }
            26 if self.f.foldable => {
                // dead / foldable statements
                match self.rng.below(8) {
                    0 => self.line("do end"),
                    1 => {
                        self.line("while false do");
                        self.indent += 1;
                        self.line("ext_p(\"never\")");
                        self.indent -= 1;
                        self.line("end");
                    }
                    2 => {
                        self.line("if false then");
                        self.indent += 1;
                        self.line("ext_p(\"never\")");
                        self.indent -= 1;
                        self.line("else");
                        self.indent += 1;
                        self.observe();
                        self.indent -= 1;
                        self.line("end");
                    }
                    3 => {
                        let e = self.expr(Ty::Num, 1);
                        self.line(&format!("local unused = {}", e));
                    }
                    4 => match self.rng.below(7) {
                        0 => self.line("local unused2 = ext_n()"),
                        // composite values of a dropped declaration: an effect in every slot a side-effect analysis
                        // has to look into (computed key, entry value, nested table, field of a call, operands)
                        4 => {
                            let shape = match self.rng.below(6) {
                                0 => "{ [ext_n(21)] = true }",
                                1 => "{ [ext_n(22)] = 1, [2] = ext_n(23) }",
                                2 => "{ k = 1, { [ext_n(24)] = 2 } }",
                                3 => "{ 1, [ext_n(25) + 1] = 2, 3 }",
                                4 => "{ [{ ext_n(26) }] = 1 }",
                                _ => "{ [1] = 1, [ext_b(27) and 1 or 2] = 3 }",
                            };
                            self.line(&format!("local unused7 = {}", shape))
                        }
                        5 => {
                            let shape = match self.rng.below(4) {
                                0 => "({ ext_n(31) })[1]",
                                1 => "#{ [ext_n(32)] = 1 }",
                                2 => "-ext_n(33)",
                                _ => "({ n = 1 })[ext_n(34) and \"n\"]",
                            };
                            self.line(&format!("local unused8 = {}", shape))
                        }
                        6 => self.line("local unused9, unused10 = { [ext_n(41)] = 1 }, { ext_n(42) }"),
                        1 => {
                            let v = self.var_of(Ty::Num).unwrap_or_else(|| "ext_n(0)".to_owned());
                            self.line(&format!("local unused4 = {} or ext_n(9)", v))
                        }
                        2 => {
                            let v = self.var_of(Ty::Bool).unwrap_or_else(|| "ext_b(0)".to_owned());
                            self.line(&format!("local unused5 = {} and ext_n(8)", v))
                        }
                        _ => self.line("local unused6 = (ext_b(1) or ext_n(2)) and ext_n(3)"),
                    },
                    5 => {
                        let n = self.fresh(Ty::Any);
                        self.line(&format!("local {} = nil", n));
                    }
                    6 => {
                        self.line("if 1 + 1 == 2 then");
                        self.indent += 1;
                        self.observe();
                        self.indent -= 1;
                        self.line("end");
                    }
                    _ => {
                        let n1 = self.fresh(Ty::Any);
                        let n2 = self.fresh(Ty::Num);
                        self.line(&format!("local {}, {} = nil, 3", n1, n2));
                    }
                }
            }
            36 if self.f.luau => {
                // `//` first where `math` is the library, then where a parameter / local shadows it
                self.line("local function half(n) return n // 2 end");
                match self.rng.below(4) {
                    2 => {
                        // the caching idiom `local math = math`, the local re-assigned later: the lowered code must not
                        // go through the program's variable
                        self.line("local function cached(n) local math = math math = { floor = function(v) ext_p(\"user floor\", v) return -1 end } return n // 2 end");
                        self.line("ext_p(cached(7))");
                        self.line("local function scaled(m, n) return (n * m.factor) // 3 end");
                    }
                    3 => {
                        self.line("local function shown(v) local tostring = tostring local string = string tostring = function() return \"mine\" end string = { format = function() return \"mine\" end } return `<{v}>` end");
                        self.line("ext_p(shown(3))");
                        self.line("local function scaled(m, n) return (n * m.factor) // 3 end");
                    }
                    0 => self.line("local function scaled(math, n) return (n * math.factor) // 3 end"),
                    _ => self.line("local function scaled(m, n) local math = m return (n * math.factor) // 3 end"),
                }
                self.line("ext_p(half(9), scaled({ factor = 2, floor = function(v) ext_p(\"user floor\", v) return -1 end }, 10))");
            }
            40 if self.f.luau => {
                // a function statement declared inside a loop that uses continue (same body, and an inner loop)
                self.line("local handlers = {}");
                self.line("for i = 1, 3 do");
                self.indent += 1;
                self.line("if i == 2 then continue end");
                self.line("function handlers.latest() return i end");
                self.line("ext_p(\"record\", i)");
                self.indent -= 1;
                self.line("end");
                self.line("for i = 1, 2 do for j = 1, 2 do function handlers.inner() return j end end if i == 1 then continue end ext_p(\"outer\", i) end");
                self.line("ext_p(handlers.latest())");
            }
            41 if self.f.luau => {
                // variables named like libraries as branch results (they may hold nil / false), and the forced-cast idiom
                // on a multi-value expression
                self.line("local function describe(cond, string, fallback) return if cond then string else fallback end");
                self.line("local function pick(cond, table, math) return if cond then table elseif math then math else \"none\" end");
                self.line("ext_p(describe(true, nil, \"n/a\"), describe(true, false, \"n/a\"), pick(true, false, 1), pick(false, 1, false))");
                self.line("local function pair() return ext_n(1), ext_n(2) end");
                self.line("ext_p((pair() :: any) :: number)");
                self.line("ext_p(#{ (pair() :: any) :: number })");
            }
            39 if self.f.luau => {
                // a result that is false at run time next to a nil else: false and nil are different values
                self.line("local fv = ext_b(1) == ext_b(1) and false");
                self.line("ext_p(if ext_n(1) then fv else nil, if fv then 1 elseif ext_n(2) then fv else nil, (if ext_n(3) then fv else nil) == false)");
            }
            37 => {
                // sibling functions with nested local functions of the same name, then a fresh local
                self.line("local function first() local function helper() return 1 end return helper() end");
                self.line("local function second(node) local function helper() return node end local total = 10 return total + helper() end");
                self.line("ext_p(first() + second(2))");
            }
            38 => {
                // several locals of one declaration read only by the until condition
                self.counter += 1;
                let i = format!("r{}", self.counter);
                self.line(&format!("local {} = 0", i));
                self.declare(&i, Ty::Num);
                self.line("local function step(i) return i >= 3, i end");
                self.line("repeat");
                self.indent += 1;
                self.line(&format!("{} = {} + 1", i, i));
                self.line(&format!("local done, value = step({})", i));
                self.indent -= 1;
                self.line("until done or value == nil");
                self.line(&format!("ext_p({})", i));
            }
            35 if self.f.foldable => {
                // adversarial shapes: a known-true guard in front of a multi-value call, a user
                // variable named `_`, an unused local initialised by a field read, duplicate names
                match self.rng.below(14) {
                    12 => {
                        // a used local whose name is shadowed by the first scope-creating statement that follows
                        self.line("local kept = ext_n(1)");
                        match self.rng.below(4) {
                            0 => self.line("for kept = 1, 2 do ext_p(\"loop\", kept) end"),
                            1 => self.line("local function shadowing(kept) return kept end"),
                            2 => self.line("do local kept = 2 ext_p(kept) end"),
                            _ => self.line("for kept, v in pairs({ 5 }) do ext_p(kept, v) end"),
                        }
                        self.line("ext_p(kept)");
                    }
                    13 => {
                        // a statically truthy but effectful left operand of and / or
                        self.line("ext_p({ ext_n(1) } and ext_n(2), not { ext_n(3) } or ext_n(4), ({ ext_n(5) }) and 7)");
                    }
                    9 => {
                        // values of `and` / `or` whose known operand is falsy: the value is the FIRST falsy operand
                        self.line("local fl = ext_b(1)");
                        self.line("local nl = ext_n(1)");
                        self.line("ext_p(fl and false, fl and nil, nl and false, (fl and nil) == nil, (fl and false) == false)");
                        self.line("ext_p(fl or false, fl or nil, nil or fl, false or nl, { fl and nil, 1 }, #{ fl and false })");
                    }
                    10 => {
                        // lengths and comparisons of strings that are not ASCII: bytes, not characters
                        match self.rng.below(3) {
                            0 => self.line("ext_p(#\"h\u{e9}llo\", #\"\u{65e5}\u{672c}\", #\"\u{2022} \", #\"abc\", #\"\\255\\254\")"),
                            1 => self.line("if #\"\u{2192}\" == 1 then ext_p(\"narrow\") else ext_p(\"wide\") end"),
                            _ => self.line("ext_p(\"\u{e9}\" < \"z\", \"\u{e9}\" .. 1, #(\"\u{e9}\" .. \"\u{e9}\"))"),
                        }
                    }
                    11 => {
                        // a comment between the tokens of a foldable expression: the folded node has no token and is
                        // written right after the comment
                        match self.rng.below(3) {
                            0 => self.line("local dbg = -- set by the build\n  1 == 2\next_p(dbg)"),
                            1 => self.line("ext_p(-- note\n  1 + 1 == 2, \"x\" .. -- c\n  \"y\", not -- why\n  nil)"),
                            _ => self.line("local function resolved()\n  return -- resolved at build time\n    1 == 2\nend\next_p(resolved())"),
                        }
                    }
                    5 => {
                        // all-unused multiple declaration whose values interleave effectful reads and calls: every
                        // effect must stay, in source order
                        self.line("local px = setmetatable({}, { __index = function(_, key) ext_p(\"px\", key) return 1 end })");
                        match self.rng.below(3) {
                            0 => self.line("local ua, ub, uc = px.first, ext_n(1), px.second"),
                            1 => self.line("local ua, ub, uc, ud = ext_n(1), px.a, ext_n(2), px[ext_n(3)]"),
                            _ => self.line("local ua, ub = px.first, (ext_n(1)), px.third"),
                        }
                    }
                    6 => {
                        // statically false loop conditions that still perform a call when evaluated
                        match self.rng.below(4) {
                            0 => self.line("while { ext_n(1) } == nil do ext_p(\"never\") end"),
                            1 => self.line("while not { ext_n(2) } do ext_p(\"never\") end"),
                            2 => self.line("while { ext_n(3) } and false do ext_p(\"never\") end"),
                            _ => self.line("while (ext_n(4) and nil) do ext_p(\"never\") end"),
                        }
                    }
                    7 => {
                        // more variables than values with a nil and a trailing multi-value expression
                        self.line("local function pair() return ext_n(1), ext_n(2) end");
                        match self.rng.below(3) {
                            0 => self.line("local e1, e2, e3 = nil, pair()"),
                            1 => self.line("local e1, e2, e3 = nil, (pair())"),
                            _ => self.line("local e1, e2, e3 = pair(), nil, pair()"),
                        }
                        self.line("ext_p(e1, e2, e3)");
                    }
                    8 => {
                        // near-equal constants: comparisons must not be folded with a tolerance
                        match if self.f.luau { self.rng.below(3) } else { 0 } {
                            0 => self.line("ext_p(0.1 + 0.2 == 0.3, 1e-17 == 0, 1 + 1e-16 == 1)"),
                            1 => self.line("ext_p(if ext_b(1) then 0.1 + 0.2 == 0.3 else \"fallback\")"),
                            _ => self.line("ext_p(if ext_b(0) then {} elseif ext_b(1) then 1e-17 == 0 else \"fallback\")"),
                        }
                    }
                    0 => self.line("ext_p(true and select(1, 7, 8))"),
                    1 => self.line("ext_p((1 < 2) and select(2, \"a\", \"b\", \"c\"), \"end\")"),
                    2 => {
                        self.line("local _ = 5");
                        self.line("local holder = { k = 1 }");
                        self.line("local unused3 = holder.k");
                        self.line("ext_p(_)");
                    }
                    3 => {
                        self.line("local dup, dup = nil, 1");
                        self.line("ext_p(dup)");
                    }
                    _ => {
                        self.line("local tt = { field = 1 }");
                        self.line("ext_p(tt[{ ext_n() } and \"field\"])");
                    }
                }
            }
            27 if self.f.foldable && self.fn_depth > 0 && depth > 0 => {
                // early return followed by dead code
                self.line("do");
                self.indent += 1;
                self.line("return 1");
                self.indent -= 1;
                self.line("end");
                self.line("ext_p(\"dead\")");
            }
            28 | 29 if self.f.refactor && self.rng.chance(1, 2) => {
                match self.rng.below(6) {
                    3 => {
                        // a local function that mentions itself without calling itself directly (callback, return)
                        self.line("local function sched(f, n) if n > 0 then return f(n) end return n end");
                        self.line("local function tick(n) ext_p(\"tick\", n) return sched(tick, n - 1) end");
                        self.line("local function again(k) if k > 1 then return again end return k end");
                        self.line("ext_p(tick(2), again(1), type(again(2)))");
                    }
                    4 => {
                        // a multi-value or unbalanced initialiser followed directly by a declaration without values
                        self.line("local function two() return ext_n(1), ext_n(2) end");
                        match self.rng.below(3) {
                            0 => {
                                self.line("local okv, msg = two()");
                                self.line("local res");
                                self.line("ext_p(okv, msg, res)");
                            }
                            1 => {
                                self.line("local idv = 1, ext_n(3)");
                                self.line("local owner");
                                self.line("ext_p(idv, owner)");
                            }
                            _ => {
                                self.line("local fa, fb = ...");
                                self.line("local cachev");
                                self.line("ext_p(fa, fb, cachev)");
                            }
                        }
                    }
                    5 => {
                        // several names of one declaration, not in alphabetical order, read by the next declaration
                        self.line("local width = ext_n(1)");
                        self.line("local height = 3");
                        self.line("local doubled = width * 2");
                        self.line("local tailv, countv = 0, 0");
                        self.line("local getter = function() return countv + tailv + height end");
                        self.line("ext_p(doubled, getter())");
                    }
                    0 => {
                        // a method definition that lists `self` explicitly: two parameters named self
                        self.line("local acct = { handlers = {} }");
                        self.line("function acct.handlers:on_event(self, payload) ext_p(\"event\", type(self), self, payload) return payload end");
                        self.line("ext_p(acct.handlers:on_event(\"explicit\", 42))");
                    }
                    1 => {
                        // math.sqrt of an operator expression in statement position: metamethods of the operand run
                        self.line("local mv = setmetatable({}, { __add = function(l, r) ext_p(\"add\") return 4 end, __unm = function() ext_p(\"unm\") return 9 end, __index = function(_, k) ext_p(\"index\", k) return 16 end })");
                        match self.rng.below(3) {
                            0 => self.line("math.sqrt(mv + mv)"),
                            1 => self.line("math.sqrt(-mv)"),
                            _ => self.line("math.sqrt(mv.total)"),
                        }
                    }
                    _ => {
                        // a declaration without value followed by one that reads the same name: the read sees the
                        // fresh nil, not an outer variable of that name
                        self.line("local cache = ext_n(1)");
                        self.line("do");
                        self.indent += 1;
                        self.line("local cache");
                        self.line("local hit = cache");
                        self.line("local limit");
                        self.line("local effective = limit or 10");
                        self.line("ext_p(hit, effective)");
                        self.indent -= 1;
                        self.line("end");
                    }
                }
            }
            28 | 29 if self.f.refactor => {
                // consecutive locals whose initialisers may mention earlier ones
                let e1 = self.expr(Ty::Num, 1);
                let n1 = self.fresh(Ty::Num);
                self.line(&format!("local {} = {}", n1, e1));
                let e2 = if self.rng.chance(1, 2) { format!("{} + 1", n1) } else { self.expr(Ty::Num, 1) };
                let n2 = self.fresh(Ty::Num);
                self.line(&format!("local {} = {}", n2, e2));
                if self.rng.chance(1, 3) {
                    let n3 = self.fresh(Ty::Any);
                    let n4 = self.fresh(Ty::Any);
                    self.line(&format!("local {}, {} = ext_n()", n3, n4));
                    let n5 = self.fresh(Ty::Num);
                    self.line(&format!("local {} = 1", n5));
                }
                if self.rng.chance(1, 3) {
                    let n6 = self.fresh(Ty::Num);
                    self.line(&format!("local {} = 1, ext_n()", n6));
                    let n7 = self.fresh(Ty::Num);
                    self.line(&format!("local {} = 2", n7));
                }
            }
            30 | 31 if self.f.removal => {
                match self.rng.below(15) {
                    12 => {
                        // `variable or call()` arguments: the call runs when the variable is falsy
                        self.line("local cachedv = ext_b(0)");
                        match self.rng.below(3) {
                            0 => self.line("assert(cachedv or ext_n(1))"),
                            1 => self.line("assert(ext_n(1), cachedv or ext_n(2), ext_n(3))"),
                            _ => self.line("debug.profilebegin(cachedv or ext_n(4))"),
                        }
                    }
                    13 => {
                        // a removed call in expression position whose last preserved argument is false: the value
                        // of the expression is nil, not false
                        let r = self.fresh(Ty::Any);
                        self.line(&format!("local {} = debug.profilebegin(ext_b(0))", r));
                        self.line(&format!("ext_p({}, {} == nil, debug.profileend(ext_n(1), \"label\", ext_b(0)) == nil)", r, r));
                    }
                    14 => {
                        // injected values of every JSON kind are read through every access path
                        self.line("ext_p(DEBUG_LEVEL, _G.DEBUG_LEVEL, _G[\"DEBUG_LEVEL\"], DEBUG, _G.DEBUG)");
                        self.line("if type(DEBUG_LEVEL) == \"table\" then ext_p(DEBUG_LEVEL[1], DEBUG_LEVEL[2], DEBUG_LEVEL[3], DEBUG_LEVEL[4], DEBUG_LEVEL.offset, type(DEBUG_LEVEL.list) == \"table\" and DEBUG_LEVEL.list[3], type(DEBUG_LEVEL.deep) == \"table\" and DEBUG_LEVEL.deep.n) end");
                        self.line("if type(DEBUG) == \"table\" then ext_p(DEBUG[1], DEBUG[2], DEBUG[3], DEBUG[4], DEBUG.offset) end");
                    }
                    8 => match self.rng.below(3) {
                        // table-call syntax: keys of [k] = v entries are evaluated too
                        0 => self.line("debug.profilebegin { [ext_n(1)] = ext_n(2) }"),
                        1 => self.line("assert { ext_n(1), [ext_n(2)] = true, name = ext_n(3), [ext_n(4)] = ext_n(5) }"),
                        _ => {
                            let r = self.fresh(Ty::Any);
                            self.line(&format!("local {} = debug.profileend {{ [ext_n(7)] = 1, ext_n(8) }}", r));
                        }
                    },
                    9 => {
                        // several effectful arguments in expression position: evaluation order is observable
                        let r = self.fresh(Ty::Any);
                        self.line(&format!("local {} = debug.profilebegin(ext_n(1), \"constant\", ext_n(2), ext_n(3))", r));
                        self.line("ext_p((debug.profileend(ext_n(4), ext_n(5))))");
                    }
                    10 => {
                        // method calls on the removed names are not calls to those functions (they fail at run time
                        // in the reference environment, which must stay observable)
                        match self.rng.below(3) {
                            0 => self.line("ext_p(pcall(function() local snapshot = assert:snapshot() return snapshot end))"),
                            1 => self.line("ext_p(pcall(function() return debug.profilebegin:bind(ext_n(1)) end))"),
                            _ => self.line("ext_p(pcall(function() if assert:has_failed() then return 1 end return 2 end))"),
                        }
                    }
                    11 => {
                        // keys that are only evaluated, in a positional / field / index mix
                        self.line("debug.profilebegin({ ext_n(1), k = ext_n(2), [ext_n(3)] = 1 }, ext_n(4))");
                    }
                    0 => {
                        let c = self.expr(Ty::Bool, 1);
                        self.line(&format!("assert({} or true, \"message\")", c));
                    }
                    1 => self.line("assert(ext_b() or true)"),
                    2 => {
                        let r = self.fresh(Ty::Any);
                        self.line(&format!("local {} = assert(ext_n(1) or 1, ext_n(2))", r));
                    }
                    3 => self.line("debug.profilebegin(\"section\")"),
                    4 => self.line("debug.profileend()"),
                    5 => match self.rng.below(3) {
                        0 => self.line("debug.profilebegin(ext_n(3))"),
                        1 => {
                            // arguments whose evaluation order is observable: field reads through __index, a call, another read
                            self.line("local probe = setmetatable({}, { __index = function(_, key) ext_p(\"read\", key) return true end })");
                            self.line("assert(probe.first, ext_b(5), probe.second)");
                        }
                        _ => {
                            self.line("local probe2 = setmetatable({}, { __index = function(_, key) ext_p(\"read2\", key) return 1 end })");
                            self.line("debug.profilebegin(probe2.a, ext_n(6), probe2.b)");
                        }
                    },
                    6 => {
                        let r = self.fresh(Ty::Any);
                        self.line(&format!("local {} = debug.profilebegin(ext_b())", r));
                        self.line(&format!("ext_p({})", r));
                    }
                    _ => {
                        // shadowing: these must be left alone
                        self.line("do");
                        self.indent += 1;
                        match self.rng.below(3) {
                            0 => {
                                self.line("local assert = function(...) ext_p(\"local assert\", ...) return ... end");
                                self.line("assert(false, 1)");
                            }
                            1 => {
                                self.line("local debug = { profilebegin = function(n) ext_p(\"local begin\", n) end, profileend = function() ext_p(\"local end\") return 4 end }");
                                self.line("debug.profilebegin(\"x\")");
                                self.line("debug.profileend()");
                                self.line("ext_p(debug.profileend())");
                            }
                            _ => {
                                self.line("local DEBUG = 5");
                                self.line("ext_p(DEBUG)");
                                self.line("local DEBUG_LEVEL = { n = 1 }");
                                self.line("DEBUG_LEVEL.n = 2");
                                self.line("ext_p(DEBUG_LEVEL.n)");
                            }
                        }
                        self.indent -= 1;
                        self.line("end");
                    }
                }
            }
            32 if self.f.meta => {
                let t = self.fresh(Ty::Any);
                let e = self.expr(Ty::Tbl, 2);
                self.line(&format!("local {} = {}", t, e));
                match self.rng.below(4) {
                    0 => self.line(&format!("ext_p({}.missing)", t)),
                    1 if self.f.luau => self.line(&format!("ext_p(`{{{}}}`)", t)),
                    2 => self.line(&format!("ext_p(tostring({}))", t)),
                    _ => self.line(&format!("ext_p(#{})", t)),
                }
            }
            33 if self.f.luau && depth > 0 => {
                // loop with continue in the middle
                let v = self.fresh(Ty::Num);
                self.line(&format!("for {} = 1, 3 do", v));
                self.indent += 1;
                self.line(&format!("if {} == 2 then continue end", v));
                self.line(&format!("ext_p(\"it\", {})", v));
                self.indent -= 1;
                self.line("end");
            }
            34 if self.in_vararg_fn => self.line("ext_p(...)"),
            _ => self.observe(),
        }
    }

    pub fn program(mut self, size: usize) -> String {
        // the chunk itself is a vararg function
        self.in_vararg_fn = true;
        let n = 2 + self.rng.below(size);
        self.fn_depth = 1;
        for _ in 0..n {
            self.stmt(2);
        }
        // final observation of live variables and a return
        let mut outs = Vec::new();
        for ty in [Ty::Num, Ty::Str, Ty::Bool] {
            if let Some(v) = self.var_of(ty) {
                outs.push(v);
            }
        }
        if !outs.is_empty() {
            let l = format!("ext_p({})", outs.join(", "));
            self.line(&l);
        }
        let r = self.expr(Ty::Num, 1);
        if self.rng.chance(1, 3) {
            self.line(&format!("return {}, ext_n()", r));
        } else {
            self.line(&format!("return {}", r));
        }
        self.out
    }
}
