mod c13;
mod util;

fn main() {
    let args: Vec<String> = std::env::args().skip(1).collect();
    let cmd = args.first().map(String::as_str).unwrap_or("");
    let rest = &args[args.len().min(1)..];
    match cmd {
        "c13" => c13::main(rest),
        _ => {
            eprintln!("unknown command {:?}", cmd);
            std::process::exit(2);
        }
    }
}
