"""C03 - retain_lines with no rules reproduces the source byte for byte."""
import json
import random

from . import common as C
from . import c03_gen as G
from . import c03_shrink as S
from . import c18_lex as L

META = {
    "title": "retain_lines with no rules reproduces the source byte for byte",
    "level": "proof",
    "design_ref": "DESIGN.md section 6 / C03-C04-C18",
    "technique": "Coq proof that the token generator's write discipline (Gallina transcription of write_token_options, "
                 "write_trivia, write_symbol, should_break_with_space) writes a lossless token sequence back as the "
                 "source; the sequence of write requests is recorded from the real generator on every run, replayed "
                 "through the model inside Coq, and the theorem's hypotheses are evaluated on it; byte comparison of "
                 "darklua_core::process output with the input as the independent oracle",
    "level_text": "Machine-checked theorem (Coq 8.16 kernel): if the write requests are parsed tokens that tile the "
                  "source (every byte in exactly one token or trivia, in order), carry their true line, every line "
                  "comment is followed by a line break, and no two glued pieces trip the space check, the generated "
                  "text IS the source (identity); the last hypothesis is necessary (identity_refuted witness, a "
                  "recorded defect). The per-node code that decides which tokens exist and in which order "
                  "(ast_converter.rs, write_*_with_tokens, about 6000 lines) is NOT modelled: each run records the "
                  "requests the real generator receives, checks model = code on them, evaluates the hypotheses on "
                  "them, and byte-compares the real output with the source for sources with trivia in every gap.",
    "level_note": "Trusted: Coq kernel + vm_compute; the trace hook verif_hooks::token_trace (records arguments, add-only); "
                  "the harness and hex transport; full_moon's byte offsets are on character boundaries. The theorem is "
                  "about the generator's discipline; that the parser's token plumbing is lossless is observed per input, "
                  "not proved.",
    "trusted_base": ["Coq 8.16.1 kernel, vm_compute", "verif_hooks::token_trace (argument recorder)",
                     "harness/crates/c03 + hex transport", "byte comparison in vlib/c03.py"],
    "allowed_axioms": [],
    "rule": "sources: hand-written shapes + seeded grammar-generated programs (every statement / expression kind, all "
            "literal spellings, call sugar, both table separators, `;`) laid out with random trivia in every gap "
            "(spaces, tabs, LF / CRLF, blank lines, line comments, long comments of 3 levels, EOF with and without "
            "newline), plus dense and plain layouts; every separated list darklua stores tokens for (local / const / assign / "
            "return / for / arguments / parameters / tables / type lists) with independent trivia on each separator; "
            "statements starting with a parenthesis after statements that do not end in a prefix; byte order marks "
            "processed in place; non-trivial when the source has at least one comment or line "
            "break inside a statement; distinct by source bytes",
    "assumptions": ["inputs parse (darklua accepts them); inputs with type syntax are byte-compared too (no difference "
                    "was observed inside annotations)"],
}

PREAMBLE = """From DL Require Import Lib.Bytes Model.CommentText Model.TokenGen.
Open Scope N_scope.
Open Scope string_scope.
(* positions are transported as binary numbers *)
Definition R (a b l : N) : position := Ref (N.to_nat a) (N.to_nat b) (N.to_nat l).
Definition Ow (c : bytes) (l : N) : position := Owned c (N.to_nat l).
Definition T := (string * string * list event)%type.
Definition c_src (c : T) := unhex (fst (fst c)).
Definition c_out (c : T) := unhex (snd (fst c)).
Definition c_evs (c : T) := snd c.
Definition model_ok (c : T) : bool :=
  match generate (c_src c) (c_evs c) with
  | Some o => bytes_eqb o (c_out c)
  | None => false
  end.
Definition b2s (b : bool) : string := if b then "1" else "0".
Definition flags (c : T) : string :=
  match layout (c_evs c) with
  | Some lps =>
    ("layout=1 tiles=" ++ b2s (tiles (List.length (c_src c)) 0 lps)
     ++ " lines=" ++ b2s (lines_true (c_src c) lps)
     ++ " cm=" ++ b2s (cm_ok false (List.map (lp_resolve (c_src c)) lps))
     ++ " nobreak=" ++ b2s (no_adjacent_break (c_src c) lps))%string
  | None => "layout=0"
  end.
Definition hyps (c : T) : bool :=
  match layout (c_evs c) with
  | Some lps => tiles (List.length (c_src c)) 0 lps && lines_true (c_src c) lps
                && cm_ok false (List.map (lp_resolve (c_src c)) lps) && no_adjacent_break (c_src c) lps
  | None => false
  end.
Definition same (c : T) : bool := bytes_eqb (c_out c) (c_src c).
(* flagged: model differs from code, or the output is not the source, or (cannot happen by the theorem
   when model = code) all hypotheses hold and the output differs *)
Definition check_case (c : T) : bool := model_ok c && same c && hyps c.
Definition diag_case (c : T) : string :=
  ((if model_ok c then "model=ok " else "model=BAD ") ++ (if same c then "same=1 " else "same=0 ") ++ flags c)%string.
"""

PREAMBLE_SBWS = """From DL Require Import Lib.Bytes Model.TokenGen.
Open Scope N_scope.
Open Scope string_scope.
Definition row (a : N) : string :=
  to_string (List.map (fun b => if should_break_with_space a (N.of_nat b) then 49 else 48) (List.seq 0 128)).
Definition check_case (c : N * string) : bool := String.eqb (row (fst c)) (snd c).
Definition diag_case (c : N * string) : string := row (fst c).
"""


def coq_pos(p):
    if p[0] == 0:
        return "(R %d %d %d)" % (p[1], p[2], p[3])
    if p[0] == 1:
        return "(Ow (unhex %s) %d)" % (C.coq_string(p[1]), p[2])
    return "(AnyPos (unhex %s))" % C.coq_string(p[1])


def coq_trivia(ts):
    return "[" + "; ".join("mk_trivia %s %s" % ("KComment" if t[0] else "KWhitespace", coq_pos(t[1])) for t in ts) + "]"


def coq_events(trace):
    out = []
    for e in trace:
        if e["t"] == "tok":
            out.append("EToken (mk_token %s %s %s) %s" % (coq_pos(e["p"]), coq_trivia(e["l"]), coq_trivia(e["r"]),
                                                        "true" if e["sc"] else "false"))
        elif e["t"] == "sym":
            out.append("ESymbol (unhex %s) %s" % (C.coq_string(e["c"]), "true" if e["sc"] else "false"))
        else:
            out.append("ERaw (unhex %s)" % C.coq_string(e["c"]))
    if not out:
        return "(@nil event)"
    return "[" + ";\n ".join(out) + "]"


def coq_case(src, out, trace):
    return "(%s, %s, %s)" % (C.coq_string(src.encode("utf-8").hex()), C.coq_string(out.encode("utf-8").hex()),
                             coq_events(trace))


def run_harness(rows, crate="dl-c03"):
    inp = "\n".join(json.dumps(r) for r in rows) + "\n"
    out = C.harness(crate, ["run"], input=inp)
    res = {}
    for line in out.splitlines():
        line = line.strip()
        if line.startswith("{"):
            r = json.loads(line)
            res[r["id"]] = r
    if len(res) != len(rows):
        raise C.CheckBroken("%s run answered %d of %d cases" % (crate, len(res), len(rows)))
    return res


NO_RULES = json.dumps({"rules": []})


def sbws(a, b):
    """Python transcription of should_break_with_space, used ONLY to name the class of an inserted space"""
    if a.isdigit():
        return b.isalnum() and b.isascii() or b in "_."
    if (a.isalpha() and a.isascii()) or a == "_":
        return (b.isalnum() and b.isascii()) or b == "_"
    return {">": b == "=", "-": b == "-", "[": b == "[", "]": b == "]", ".": b == "." or b.isdigit()}.get(a, False)


def char_class(ch):
    if ch.isdigit():
        return "digit"
    if ch.isalpha() or ch == "_":
        return "alpha"
    return ch


def classify(src, out):
    """name the first difference between source and output (symptom side, no model involved)"""
    n = min(len(src), len(out))
    k = next((i for i in range(n) if src[i] != out[i]), n)
    if src.startswith("#!") and G.BOM in src.split("\n", 2)[1][:1] and not out.startswith("#!"):
        return "dropped:shebang-followed-by-bom", k
    if k < len(out) and out[k] == " " and k > 0 and out[k + 1:k + 2] == src[k:k + 1] and k < len(src) \
            and sbws(src[k - 1], src[k]):
        a, b = src[k - 1], src[k]
        if a == "." and b.isdigit():
            return "space-inserted:..digit", k
        return "space-inserted:%s%s" % (char_class(a) if a not in "].[->" else a, char_class(b) if b not in "].[-=" else b), k
    # a `;` (with trivia around it) is missing: the first code token of the source at / after the first
    # difference is `;`, and the output continues with the token that follows it
    try:
        toks, _ = L.lex(src.encode("utf-8"))
        otoks, _ = L.lex(out.encode("utf-8"))
    except L.LexError:
        toks, otoks = None, None
    if toks is not None:
        pos = len(src[:k].encode("utf-8"))
        idx = next((i for i, t in enumerate(toks) if t.end > pos), None)
        if idx is not None and toks[idx].text == b";" and [t.text for t in toks[:idx]] == [t.text for t in otoks[:idx]]:
            nxt = toks[idx + 1].text if idx + 1 < len(toks) else b"<eof>"
            onxt = otoks[idx].text if idx < len(otoks) else b"<eof>"
            if nxt == onxt:
                if nxt in (b"end", b"until", b"else", b"elseif", b"<eof>"):
                    return "dropped:last-semicolon", k
                return "dropped:;", k
    # a piece of the source is missing: look at what was removed (common prefix / suffix stripped)
    suf = 0
    while suf < min(len(src), len(out)) - k and src[len(src) - 1 - suf] == out[len(out) - 1 - suf]:
        suf += 1
    removed, inserted = src[k:len(src) - suf], out[k:len(out) - suf]
    if inserted == "" and ";" in removed:
        try:
            rt, _ = L.lex(removed.encode("utf-8"))
            toks, _ = L.lex(src.encode("utf-8"))
        except L.LexError:
            rt, toks = None, None
        if rt is not None and [t.text for t in rt] == [b";"]:
            pos = len(src[:k].encode("utf-8")) + rt[0].start
            idx = next((i for i, t in enumerate(toks) if t.start == pos), None)
            if idx is not None:
                nxt = toks[idx + 1].text if idx + 1 < len(toks) else b"<eof>"
                if nxt in (b"end", b"until", b"else", b"elseif", b"<eof>"):
                    return "dropped:last-semicolon", k
            return "dropped:;", k
    # trivia in front of the `}` that closes a hole of an interpolated string
    try:
        toks, _ = L.lex(src.encode("utf-8"))
    except L.LexError:
        return "other", k
    pos = len(src[:k].encode("utf-8"))
    nxt = next((t for t in toks if t.end > pos), None)
    if nxt is not None and nxt.kind == "istring" and nxt.text.startswith(b"}") and nxt.start >= pos:
        return "dropped:trivia-before-interpolation-closing-brace", k
    return "other", k


NUMBER_RE = None


def strict_numbers(src):
    """shrinking must not glue a number to a following word (`3e0if`), which full_moon accepts but Lua does not"""
    import re
    global NUMBER_RE
    if NUMBER_RE is None:
        NUMBER_RE = re.compile(rb"^(0[xX][0-9a-fA-F_]+|0[bB][01_]+|([0-9][0-9_]*(\.[0-9_]*)?|\.[0-9][0-9_]*)([eE][+-]?[0-9][0-9_]*)?)$")
    try:
        toks, _ = L.lex(src.encode("utf-8"))
    except L.LexError:
        return False
    return all(NUMBER_RE.match(t.text) for t in toks if t.kind == "number")


def make_sources(rng, tier):
    quick = tier == "quick"
    out = []          # (label, source, avoid_known)
    for s in G.FIXED_SOURCES:
        out.append(("fixed", s))
    for s in G.TYPED_SOURCES:
        out.append(("typed", s))
    for label, src in G.separator_sources(rng, 51 if quick else 510):
        out.append(("separators", src))
    for label, src in G.paren_statement_sources(rng, 42 if quick else 420):
        out.append(("paren-statement", src))
    n = 90 if quick else 1500
    for i in range(n):
        mode = ["random", "random", "random", "dense", "plain"][i % 5]
        nl = "\r\n" if i % 7 == 3 else "\n"
        src, toks, feats, gaps = G.program(rng, mode=mode, newline=nl, density=2 + i % 3, avoid_known=(i % 4 != 0))
        if len(src.encode("utf-8")) > 3500:
            continue
        out.append((mode, src))
    return out


def nontrivial(src):
    try:
        toks, comments = L.lex(src.encode("utf-8"))
    except L.LexError:
        return False
    return bool(comments) or src.count("\n") > len(toks) // 6


def run(ctx):
    from .c18 import clean_replays
    clean_replays(ctx.prop)
    C.build_harness("dl-c03")
    proofs_ok = C.proof_gate(ctx)
    rng = random.Random(ctx.seed)

    # ---- should_break_with_space: the whole table of the Rust function against the model
    table = [l for l in C.harness("dl-c03", ["sbws"]).splitlines() if len(l) == 128]
    if len(table) != 128:
        raise C.CheckBroken("dl-c03 sbws printed %d rows" % len(table))
    tbad = C.run_coq_cases(ctx.prop, PREAMBLE_SBWS, [(a, "(%d, %s)" % (a, C.coq_string(table[a]))) for a in range(128)],
                           chunk=64, tag="sbws")
    ctx.stream("should_break_with_space: 128x128 table, model vs Rust", 128 * 128, sum(r.count("1") for r in table),
               [{"pairs that break": sum(r.count("1") for r in table)}], mismatches=len(tbad))

    # ---- sources through process, rules: [] (default generator), with the generator's requests recorded
    sources = make_sources(rng, ctx.tier)
    seen = set()
    uniq = []
    for label, s in sources:
        if s not in seen:
            seen.add(s)
            uniq.append((label, s))
    rows = [{"id": i, "config": NO_RULES, "src": s, "trace": True} for i, (_, s) in enumerate(uniq)]
    res = run_harness(rows)
    cases = []
    errors = {}
    identical = 0
    for i, (label, s) in enumerate(uniq):
        r = res[i]
        if not r["ok"]:
            if r.get("panic"):
                ctx.violation("darklua panicked on a source with no rules", {"source": s})
            errors[r["err"][:70]] = s[:80]
            continue
        if r["out"] == s:
            identical += 1
        cases.append((i, label, s, r["out"], r["trace"]))
    bad = C.run_coq_cases(ctx.prop, PREAMBLE, [(c[0], coq_case(c[2], c[3], c[4])) for c in cases],
                          chunk=min(24, max(4, len(cases) // (C.NPROC * 2) + 1)))
    diag = dict(bad)
    by_id = {c[0]: c for c in cases}
    model_bad = []
    theorem_gap = []
    failing = {}          # class key -> list of (source, out, flags)
    for cid, d in bad:
        _, label, s, out, trace = by_id[cid]
        if "model=BAD" in d:
            model_bad.append((s, out, d))
        if "same=1" in d:
            # output equals the source although a hypothesis is reported false: harmless, but say so
            if "model=ok" in d:
                theorem_gap.append((s, d))
            continue
        key, at = classify(s, out)
        failing.setdefault(key, []).append((s, out, d, at))
    for cid, label, s, out, trace in cases:
        if cid not in diag and out != s:
            raise C.CheckBroken("Coq says output == source but python disagrees for case %d" % cid)

    ctx.stream("process(rules: []) on sources with trivia in every gap: byte comparison with the input; the recorded "
               "write requests replayed through Model/TokenGen.generate (model vs Rust output); hypotheses of the identity "
               "theorem evaluated on the recorded requests", len(cases), sum(1 for c in cases if nontrivial(c[2])),
               [{"source": c[2][:100], "identical": c[3] == c[2]} for c in cases[30:33]],
               identical=identical, differing=len(cases) - identical, model_mismatches=len(model_bad),
               by_layout=dict((lab, sum(1 for c in cases if c[1] == lab)) for lab in sorted(set(c[1] for c in cases))),
               rejected_by_darklua=len(uniq) - len(cases), rejected_kinds=errors,
               hypothesis_false_but_identical=len(theorem_gap))

    # ---- byte order marks: processed IN PLACE; darklua either rejects the file and leaves it untouched, or
    # accepts it and writes it back byte for byte; a panic is a failure
    rows = [{"id": i, "config": NO_RULES, "src": s, "inplace": True} for i, s in enumerate(G.BOM_SOURCES)]
    bres = run_harness(rows)
    untouched = accepted = 0
    for i, s in enumerate(G.BOM_SOURCES):
        r = bres[i]
        if r.get("panic"):
            ctx.violation("darklua panicked on a source with a byte order mark", {"source": s})
        elif not r["ok"] and r.get("after") == s:
            untouched += 1
        elif r["ok"] and r.get("after") == s:
            accepted += 1
        else:
            key, at = classify(s, r.get("after") or "")
            failing.setdefault(key, []).append((s, r.get("after") or "", "in place: %s" % ("accepted" if r["ok"] else "rejected: " + r.get("err", "")[:80]), at))
    ctx.stream("byte order mark (start of file, after a shebang, inside a string / comment), processed in place: rejected and "
               "untouched, or accepted and byte-identical", len(G.BOM_SOURCES), len(G.BOM_SOURCES),
               [{"source": G.BOM_SOURCES[0]}], rejected_and_untouched=untouched, accepted_and_identical=accepted)

    # ---- verdicts per class of difference; the smallest source of each class is shrunk for the replay
    def still(key):
        def fails(candidate):
            if not strict_numbers(candidate):
                return False
            rr = run_harness([{"id": 0, "config": NO_RULES, "src": candidate}])[0]
            return rr["ok"] and rr["out"] != candidate and classify(candidate, rr["out"])[0] == key
        return fails

    for key in sorted(failing):
        items = sorted(failing[key], key=lambda it: len(it[0]))
        s, out, d, at = items[0]
        known = key in ctx.known
        small = S.shrink(s, still(key), max_tests=150 if known else 400)
        so = run_harness([{"id": 0, "config": NO_RULES, "src": small}])[0].get("out")
        ctx.violation("output differs from the source (%s): %r -> %r" % (key, small[:80], (so or "")[:80]),
                      {"class": key, "source": small, "output": so, "original_source": s, "original_output": out,
                       "first_difference_at": at, "theorem_hypotheses_on_recorded_requests": d, "cases_in_class": len(items),
                       "replay": "process src/main.lua with {rules: []} and the default generator; compare bytes"},
                      key=key if key != "other" else None)

    if tbad and not ctx.violations:
        ctx.violation("correspondence broken: should_break_with_space differs from Model/TokenGen.v",
                      {"rows": [a for a, _ in tbad][:10]}, found_input=False)
    if model_bad and not ctx.violations:
        s, out, d = model_bad[0]
        ctx.violation("correspondence broken: replaying the recorded write requests through Model/TokenGen.generate does "
                      "not give the Rust output (theorems no longer apply to the code)",
                      {"source": s, "rust_output": out, "diag": d, "mismatches": len(model_bad)}, found_input=False)
    if not proofs_ok and not ctx.violations:
        failed = [n for n, ok, _ in ctx.obligations if not ok]
        ctx.violation("proof obligation no longer checks: " + "; ".join(failed), {"obligations": failed}, found_input=False)


def replay(ctx, path):
    r = json.load(open(path))
    print(json.dumps(r, indent=1))
    rep = r.get("replay", {})
    if "source" in rep:
        C.build_harness("dl-c03")
        res = run_harness([{"id": 0, "config": NO_RULES, "src": rep["source"]}])
        print("darklua output now:", json.dumps(res[0]))
        print("identical" if res[0].get("out") == rep["source"] else "DIFFERENT")
    return 0
