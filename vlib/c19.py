"""C19 - configurations are read strictly and round-trip without loss."""
import glob
import json
import math
import os
import random
import re

from . import common as C

META = {
    "title": "Configurations are read strictly and round-trip without loss",
    "level": "proof",
    "design_ref": "DESIGN.md section 6 / C19 ... C20",
    "technique": "Coq proofs about a Gallina model of the rule / configuration (de)serializers and of every rule's "
                 "property table; model tied to the Rust code by running json5::from_str / serde_json::to_string on "
                 "every rule x property x JSON kind and on structured configurations and comparing accept/reject and the "
                 "written JSON with the model evaluated inside Coq (vm_compute); round-trip, injectivity and strictness "
                 "additionally checked on the real code by behaviour (darklua_core::process on a probe tree)",
    "level_text": "Machine-checked theorems (Coq 8.16 kernel) on the model: an accepted rule object has only known keys "
                  "(strict); for every accepted rule/configuration that only uses properties the rule's serializer writes, "
                  "reading back the written JSON succeeds and gives the same name, properties and filters (roundtrip), and "
                  "two such configurations with the same written JSON are equal (injective); the round trip is REFUTED for "
                  "convert_require (its required current/target are never written: unreadable, and not injective), with "
                  "witnesses replayed on the real code. On every run the model is compared with the compiled code on an "
                  "exhaustive rule x key x JSON-kind grid and on structured valid and corrupted configurations, and every "
                  "accepted configuration is serialized, read back, serialized again and run against its round-tripped "
                  "form on a probe tree; its meaning with every default written out (python reading of the documentation) is "
                  "compared with the meaning of the text read back; bundle blocks range over every field of the path / luau require "
                  "modes at non-default values (incl. use_luau_configuration false) and are run on a project where each field matters.",
    "level_note": "Trusted: Coq kernel + vm_compute; Model/Config.v statement of behavioural equality (same name, property "
                  "map, filters); harness + python driver (JSON transport, canonical forms); oracles: wax globs, regex "
                  "crate, identifier check, normal forms of `globals`, require-mode and bundle blocks (dumped as tables). "
                  "That equal (name, properties, filters) implies equal behaviour of the Rust rule objects is exercised by "
                  "the probe runs, not proved.",
    "trusted_base": ["Coq 8.16.1 kernel, vm_compute", "Model/Config.v rule_equiv/config_equiv (specification)",
                     "harness/crates/c19 + vlib/c19.py (transport, canonical forms, catalogue of legitimate values)",
                     "serde / json5 / serde_json derive machinery for the parts modelled as oracles (RequireMode, BundleConfiguration)"],
    "allowed_axioms": [],
    "rule": "every rule name x string/object form x a catalogue of property sets (each property at default and non-default "
            "values, pairs) x filter shapes (none / apply / skip / both; string, one-element list, list, empty list) x key "
            "orders; the full 5 x 5 matrix apply x skip in {absent, string, 1, 2, 3 distinct patterns} on four rules (with and "
            "without properties) and at the top level, run on a tree where removing any single pattern of any cell changes the "
            "selection (checked on every run); configurations: rules/process alias, default rules, generator forms, bundle settings, top-level "
            "filters; grid: every rule x every candidate key (all string literals found in the rules' configure functions "
            "+ junk) x sample values of every JSON kind; corruptions: every key misspelt, every value replaced by every "
            "other kind, every key of every object (rule, configuration, generator, bundle, bundle require mode) written twice "
            "with the other occurrence an empty list / empty string / null / false / 0 / the real value before or after it, "
            "duplicates inside map-typed values, extra properties, unknown rule names / top-level keys, invalid globs, "
            "regexes, identifiers, enum values. A case is non-trivial when it is not a bare rule name; distinct by text",
    "assumptions": ["equal (name, normalized property map, filter lists) implies equal behaviour of the configured rule "
                    "(exercised on the probe tree, not proved)",
                    "glob / regex / identifier validity, the normal form of rename_variables.globals, of require-mode values "
                    "and of the bundle block are oracles in the theorems (Section variables); the check uses dumped tables for the "
                    "first four and the concrete Model/ConfigBundle.v (transcribed serde attributes) for the bundle block",
                    "environment variables read by inject_global_value (env, env_json) are fixed during a run"],
}

HERE = os.path.dirname(os.path.abspath(__file__))
PROBE = open(os.path.join(HERE, "c19_probe.luau")).read()

ENV = {"DL_C19_STR": "from-env", "DL_C19_JSON": '{"k": [1, "two"]}', "DL_C19_BADJSON": "{"}
ENV_JSON_BAD = ["DL_C19_BADJSON"]


# ---------------------------------------------------------------------------------------------
# JSON with ordered, possibly duplicated keys

class O(list):
    """JSON object: list of (key, value) in source order"""


def obj(*pairs, **kw):
    return O(list(pairs) + list(kw.items()))


def render(v):
    if isinstance(v, O):
        return "{" + ",".join(json.dumps(k) + ":" + render(x) for k, x in v) + "}"
    if isinstance(v, (list, tuple)):
        return "[" + ",".join(render(x) for x in v) + "]"
    return json.dumps(v)


def loads(text):
    return json.loads(text, object_pairs_hook=O)


def num(v):
    if isinstance(v, float) and math.isfinite(v) and v == int(v) and abs(v) < 2 ** 63:
        return int(v)
    return v


def deep(v, sort_excludes=False):
    """canonical form of a value nested inside a property (serde_json::Map: sorted keys, last duplicate wins)"""
    if isinstance(v, O):
        d = {}
        for k, x in v:
            d[k] = deep(x, sort_excludes)
        out = O(sorted(d.items()))
        if sort_excludes:
            out = O((k, sorted(x) if k == "excludes" and isinstance(x, list) and all(isinstance(e, str) for e in x) else x)
                    for k, x in out)
        return out
    if isinstance(v, list):
        return [deep(x, sort_excludes) for x in v]
    if isinstance(v, bool) or v is None:
        return v
    if isinstance(v, (int, float)):
        return num(v)
    return v


RESERVED = ("rule", "apply_to_files", "skip_files")


def has_dup(v):
    if isinstance(v, O):
        keys = [k for k, _ in v]
        return len(set(keys)) != len(keys) or any(has_dup(x) for _, x in v)
    if isinstance(v, list):
        return any(has_dup(x) for x in v)
    return False


def canon_rule(r):
    if isinstance(r, O) and any(k not in RESERVED and has_dup(x) for k, x in r):
        raise C.CheckBroken("a case has duplicate keys inside a property value (not supported by the transport): " + render(r))
    if not isinstance(r, O):
        return num(r) if isinstance(r, (int, float)) and not isinstance(r, bool) else r
    return O((k, x if k in RESERVED else deep(x)) for k, x in r)


def canon_config(c, written=False):
    if not isinstance(c, O):
        return c
    out = O()
    for k, x in c:
        if k in ("rules", "process") and isinstance(x, list):
            out.append((k, [canon_rule(r) for r in x]))
        elif k == "bundle":
            # written bundles are compared in sorted form; the bundle of an input is kept as given (duplicates matter)
            out.append((k, canon_bundle_written(x) if written else deep_keep_order(x)))
        elif k == "generator":
            out.append((k, deep_keep_order(x)))
        else:
            out.append((k, x))
    return out


def canon_bundle_written(v, inside=None):
    """what darklua wrote for a bundle block: fields in declaration order; the entries of the `sources` / `aliases`
    maps and the `excludes` set come out of hash tables, so they are compared sorted"""
    if isinstance(v, O):
        pairs = [(k, canon_bundle_written(x, k)) for k, x in v]
        if inside in ("sources", "aliases"):
            pairs.sort()
        return O(pairs)
    if isinstance(v, list):
        out = [canon_bundle_written(x) for x in v]
        return sorted(out) if inside == "excludes" and all(isinstance(e, str) for e in out) else out
    if isinstance(v, (int, float)) and not isinstance(v, bool):
        return num(v)
    return v


def deep_keep_order(v):
    if isinstance(v, O):
        return O((k, deep_keep_order(x)) for k, x in v)
    if isinstance(v, list):
        return [deep_keep_order(x) for x in v]
    if isinstance(v, (int, float)) and not isinstance(v, bool):
        return num(v)
    return v


def coq_str(s):
    if any(ord(ch) > 126 or ord(ch) < 32 for ch in s):
        # only newline is used by the catalogue
        parts = s.split("\n")
        if any(ord(ch) > 126 or ord(ch) < 32 for p in parts for ch in p):
            raise C.CheckBroken("non-ASCII string in a case: %r" % s)
        return "(" + " ++ nl ++ ".join('"%s"' % p.replace('"', '""') for p in parts) + ")"
    return '"%s"' % s.replace('"', '""')


def to_coq(v):
    if v is None:
        return "JNull"
    if isinstance(v, bool):
        return "(JBool %s)" % ("true" if v else "false")
    if isinstance(v, int):
        return "(JNum (NInt (%d)%%Z))" % v
    if isinstance(v, float):
        return "(JNum (NFlt %s))" % coq_str(repr(v))
    if isinstance(v, str):
        return "(JStr %s)" % coq_str(v)
    if isinstance(v, O):
        return "(JObj [" + ";".join("(%s, %s)" % (coq_str(k), to_coq(x)) for k, x in v) + "])"
    if isinstance(v, (list, tuple)):
        return "(JArr [" + ";".join(to_coq(x) for x in v) + "])"
    raise C.CheckBroken("cannot transport %r" % (v,))


# ---------------------------------------------------------------------------------------------
# catalogue (python side = documentation-level specification, independent of the Coq tables)

PATH_MODE = obj(name="path", module_folder_name="index")
ROBLOX_MODE = obj(name="roblox", indexing_style="property")
LUAU_MODE = obj(name="luau", use_luau_configuration=False)

VALUES_ANY = [True, False, None, 1, 0, -1, 1.5, -2.25, 3.0, "s", "", ["a", "b"], [], [1, "a"], [[1], obj(z=1)],
              obj(a=1), obj(b=obj(c=[1, 2]), a="x"), obj(name="path"), obj(name="nothing"), ["path", "init", obj(), True]]


def catalogue(tmpfile):
    """rule name -> list of valid property sets (as O)"""
    cat = {}
    cat["append_text_comment"] = [
        obj(text="hello"), obj(text="two\nlines"), obj(text=""), obj(text="x", location="start"),
        obj(text="x", location="end"), obj(file=tmpfile), obj(location="end", file=tmpfile)]
    cat["convert_require"] = [
        obj(current="path", target="roblox"), obj(current="path", target="luau"), obj(target="path", current="path"),
        obj(current=PATH_MODE, target=ROBLOX_MODE), obj(current=LUAU_MODE, target="path"),
        obj(current="luau", target=obj(name="roblox", rojo_sourcemap="./sourcemap.json"))]
    inj = [obj(identifier="FLAG")]
    for v in VALUES_ANY:
        inj.append(obj(identifier="FLAG", value=v))
    inj += [obj(value=1, identifier="OTHER"), obj(identifier="FLAG", env="DL_C19_UNSET"),
            obj(identifier="FLAG", env="DL_C19_STR"), obj(identifier="FLAG", env_json="DL_C19_JSON"),
            obj(identifier="FLAG", env_json="DL_C19_UNSET"),
            obj(identifier="FLAG", env="DL_C19_UNSET", default_value=5),
            obj(identifier="FLAG", env_json="DL_C19_UNSET", default_value=obj(d=[1])),
            obj(identifier="FLAG", env="DL_C19_STR", default_value="d"),
            obj(identifier="FLAG", default_value="alone")]
    cat["inject_global_value"] = inj
    for name in ("remove_assertions", "remove_debug_profiling"):
        cat[name] = [obj(), obj(preserve_arguments_side_effects=True), obj(preserve_arguments_side_effects=False)]
    # pattern lists: order, duplicates, regex syntax with characters that need escaping in JSON or Lua, empty list
    # (= no list), one element; a bare string instead of a list is not a documented form (see `legit`: rejected)
    cat["remove_attribute"] = [
        obj(), obj(match=[]), obj(match=["native"]), obj(match=["^na", "checked"]), obj(match=["checked", "^na"]),
        obj(match=["zzz"]), obj(match=["native", "native"]), obj(match=["zzz", "native", "zzz"]),
        obj(match=["^(native|checked)$"]), obj(match=["^nat\\w+$", "check.d"]), obj(match=["(?i)NATIVE"]),
        obj(match=["[a-m]{3,}", "\"quoted\"", "it's"]), obj(match=[""])]
    cat["remove_comments"] = [
        obj(), obj(**{"except": []}), obj(**{"except": ["^ keep"]}), obj(**{"except": ["^ keep", "drop"]}),
        obj(**{"except": ["drop", "^ keep"]}), obj(**{"except": ["zzz"]}), obj(**{"except": ["^ keep", "^ keep"]}),
        obj(**{"except": ["zzz", "^ keep", "zzz"]}), obj(**{"except": ["^\\s*keep\\b"]}),
        obj(**{"except": ["this\\.|\\(c\\)", "k[e]{2}p"]}), obj(**{"except": ["(?i)KEEP THIS"]}),
        obj(**{"except": ["\"quoted\"", "it's", "a\\\\b"]}), obj(**{"except": [""]})]
    cat["remove_interpolated_string"] = [obj(), obj(strategy="string"), obj(strategy="tostring")]
    cat["rename_variables"] = [
        obj(), obj(globals=["$default"]), obj(globals=[]), obj(globals=["$default", "$roblox"]),
        obj(globals=["helper", "count"]), obj(globals=["count", "$default", "helper", "count"]),
        obj(globals=["$default", "print"]), obj(globals=["$roblox"]),
        # short names that the generator would otherwise hand out: losing the list changes the output
        obj(globals=["$default", "a"], detect_globals=False), obj(globals=["a", "b", "c"], detect_globals=False),
        obj(globals=["$roblox", "a", "b"], detect_globals=False),
        obj(include_functions=True), obj(include_functions=False), obj(detect_globals=False), obj(detect_globals=True),
        obj(include_functions=True, detect_globals=False, globals=["t"]),
        obj(detect_globals=False, include_functions=False)]
    return cat


GLOBS = ["**/*.luau", "src/sub/**", "src/main.luau", "**/leaf.lua", "nomatch/**"]
BAD_GLOBS = ["[", "**a", "{a", "a/***"]

FILTER_SHAPES = [
    obj(),
    obj(apply_to_files=GLOBS[0]), obj(apply_to_files=[GLOBS[1]]), obj(apply_to_files=[GLOBS[2], GLOBS[3]]), obj(apply_to_files=[]),
    obj(skip_files=GLOBS[1]), obj(skip_files=[GLOBS[0]]), obj(skip_files=[GLOBS[3], GLOBS[4], GLOBS[2]]), obj(skip_files=[]),
    obj(apply_to_files=GLOBS[0], skip_files=GLOBS[1]), obj(skip_files=[GLOBS[2]], apply_to_files=[GLOBS[0], GLOBS[3]]),
    obj(apply_to_files=[], skip_files=GLOBS[2]), obj(apply_to_files=[GLOBS[1]], skip_files=[]),
]

GENERATORS = ["retain_lines", "retain-lines", "dense", "readable", obj(name="retain_lines"), obj(name="retain-lines"),
              obj(name="dense"), obj(name="readable"), obj(name="dense", column_span=120), obj(column_span=40, name="readable"),
              obj(name="dense", column_span=0), obj(name="readable", column_span=80),
              obj(name="dense", column_span=79), obj(name="dense", column_span=81), obj(name="readable", column_span=81),
              obj(name="readable", column_span=79)]

SRC_MAP = obj(("@pkg", "./src/pkgdir"), ("@other", "src/rcdir"))
BUNDLES = [None, obj(require_mode="path"), obj(require_mode="luau"), obj(require_mode=obj(name="path")),
           obj(require_mode=obj(name="luau")),
           obj(require_mode=obj(name="path", module_folder_name="index")),
           obj(require_mode=obj(name="path", module_folder_name="init")),
           obj(require_mode=obj(name="path", use_luau_configuration=False)),
           obj(require_mode=obj(name="path", use_luau_configuration=True)),
           obj(require_mode=obj(name="path", sources=SRC_MAP)),
           obj(require_mode=obj(name="path", sources=obj())),
           obj(require_mode=obj(use_luau_configuration=False, sources=obj(("@pkg", "./src/pkgdir")), module_folder_name="index", name="path")),
           obj(require_mode=obj(name="luau", use_luau_configuration=False)),
           obj(require_mode=obj(name="luau", use_luau_configuration=True)),
           obj(require_mode=obj(name="luau", aliases=obj(pkg="./src/pkgdir", other="src/rcdir"))),
           obj(require_mode=obj(name="luau", sources=obj(pkg="./src/pkgdir"))),
           obj(require_mode=obj(aliases=obj(pkg="./src/pkgdir"), name="luau", use_luau_configuration=False)),
           # near-default values: another letter case, surrounding space, trailing slash / dot
           obj(require_mode=obj(name="path", module_folder_name="Init")),
           obj(require_mode=obj(name="path", module_folder_name="INIT")),
           obj(require_mode=obj(name="path", module_folder_name=" init")),
           obj(require_mode=obj(name="path", module_folder_name="init ")),
           obj(require_mode=obj(name="path", module_folder_name="init/")),
           obj(require_mode=obj(name="path", module_folder_name="init.")),
           obj(require_mode="path", modules_identifier="__darklua_bundle_modules"),
           obj(require_mode="path", modules_identifier="__DARKLUA_BUNDLE_MODULES_"),
           obj(require_mode="path", modules_identifier="__MODS"),
           obj(require_mode="path", modules_identifier=None),
           obj(require_mode="path", modules_identifier="__DARKLUA_BUNDLE_MODULES"),
           obj(require_mode="path", excludes=["@lune/**", "secret"]),
           obj(require_mode="path", excludes=["b", "a", "b"]),
           obj(require_mode="luau", excludes=["@pkg/**"], modules_identifier="MODS"),
           obj(excludes=[], require_mode=obj(name="luau", use_luau_configuration=False), modules_identifier="M")]

KIND_SAMPLES = [None, True, False, 7, 0, -2, 1.5, "zz", "", [], ["zz"], ["zz", "yy"], [1], [None], obj(), obj(zz=1), [["zz"]]]
KIND_SAMPLES_QUICK = [None, True, 7, -2, 1.5, "zz", [], ["zz"], [1], obj(zz=1)]
JUNK_KEYS = ["prop", "rules", "name", "Rule", "apply_to_file", "skip_file", "value ", "texts", ""]


# the full matrix of filter shapes: apply x skip, each absent / one string / one-element list / two / three patterns, with
# DISTINCT patterns on a tree (matrix_tree) where dropping any single pattern of any cell changes the selection:
# `one/**` selects four files, each further apply pattern adds one file, each skip pattern removes one file of `one/`
MATRIX_APPLY = [None, "src/f/one/**", ["src/f/one/**"], ["src/f/one/**", "**/two/*.luau"],
                ["src/f/one/**", "**/two/*.luau", "src/f/three/y.lua"]]
MATRIX_SKIP = [None, "**/one/a.luau", ["**/one/a.luau"], ["**/one/a.luau", "src/f/one/b.*"],
               ["**/one/a.luau", "src/f/one/b.*", "**/c.luau"]]
MATRIX_FILES = ["src/f/one/a.luau", "src/f/one/b.luau", "src/f/one/c.luau", "src/f/one/d.luau", "src/f/two/x.luau",
                "src/f/three/y.lua", "src/f/other/z.luau"]


def matrix_tree():
    return {p: "-- comment of %s\nassert(_G.FLAG)\nreturn _G.FLAG\n" % p for p in MATRIX_FILES}


def matrix_filter(ai, si):
    pairs = []
    if MATRIX_APPLY[ai] is not None:
        pairs.append(("apply_to_files", MATRIX_APPLY[ai]))
    if MATRIX_SKIP[si] is not None:
        pairs.append(("skip_files", MATRIX_SKIP[si]))
    return O(pairs if (ai + si) % 2 == 0 else pairs[::-1])


def matrix_config(where, ai, si, drop=None):
    """where: a (rule name, properties) pair, or "top"; drop = (key, index) removes one pattern of the cell"""
    flt = matrix_filter(ai, si)
    if drop is not None:
        key, idx = drop
        flt = O((k, ([p for j, p in enumerate(x) if j != idx] if isinstance(x, list) else None) if k == key else x) for k, x in flt)
        flt = O((k, x) for k, x in flt if x is not None)
    if where == "top":
        return O([("rules", [obj(rule="append_text_comment", text="m")]), ("generator", "retain_lines")] + list(flt))
    name, props = where
    return obj(rules=[rule_object(name, props, flt, (ai + 2 * si) % 3)], generator="retain_lines")


MATRIX_WHERE = [("remove_comments", obj()), ("append_text_comment", obj(text="m")),
                ("inject_global_value", obj(identifier="FLAG", value=7)), ("remove_assertions", obj()), "top"]


def legit(path, v):
    """does the documentation allow value v at this place?  path = tuple of keys from the root
    ('rules', <rule name>, <property>) / ('generator', 'column_span') / ..."""
    def is_str(x):
        return isinstance(x, str)
    def strs(x):
        return isinstance(x, list) and all(isinstance(e, str) for e in x)
    def usize(x):
        return isinstance(x, int) and not isinstance(x, bool) and 0 <= x < 2 ** 64
    last = path[-1]
    if last in ("apply_to_files", "skip_files"):
        return (is_str(v) and v not in BAD_GLOBS) or (strs(v) and not any(e in BAD_GLOBS for e in v))
    if path == ("rules",):
        return v == []
    if path[0] == "rules":
        rule, prop = path[1], path[2]
        if prop == "rule":
            return False
        table = {
            ("append_text_comment", "text"): is_str, ("append_text_comment", "file"): is_str,
            ("append_text_comment", "location"): lambda x: x in ("start", "end"),
            ("convert_require", "current"): lambda x: x in ("path", "luau", "roblox") or (isinstance(x, O) and dict(x).get("name") in ("path", "luau", "roblox")),
            ("convert_require", "target"): lambda x: x in ("path", "luau", "roblox") or (isinstance(x, O) and dict(x).get("name") in ("path", "luau", "roblox")),
            ("inject_global_value", "identifier"): is_str, ("inject_global_value", "value"): lambda x: True,
            ("inject_global_value", "default_value"): lambda x: True, ("inject_global_value", "env"): is_str,
            ("inject_global_value", "env_json"): lambda x: is_str(x) and x not in ENV_JSON_BAD,
            ("remove_assertions", "preserve_arguments_side_effects"): lambda x: isinstance(x, bool),
            ("remove_debug_profiling", "preserve_arguments_side_effects"): lambda x: isinstance(x, bool),
            ("remove_attribute", "match"): strs, ("remove_comments", "except"): strs,
            ("remove_interpolated_string", "strategy"): lambda x: x in ("string", "tostring"),
            ("rename_variables", "globals"): lambda x: strs(x) and all(re.fullmatch(r"[A-Za-z_][A-Za-z0-9_]*|\$default|\$roblox", e) for e in x),
            ("rename_variables", "include_functions"): lambda x: isinstance(x, bool),
            ("rename_variables", "detect_globals"): lambda x: isinstance(x, bool),
        }
        f = table.get((rule, prop))
        return bool(f and f(v))
    if path == ("generator",):
        return v in ("retain_lines", "retain-lines", "dense", "readable")
    if path == ("generator", "name"):
        return False
    if path == ("generator", "column_span"):
        return usize(v)
    if path == ("bundle",):
        return v is None
    if path == ("bundle", "require_mode"):
        return v in ("path", "luau")
    if path == ("bundle", "modules_identifier"):
        return is_str(v) or v is None
    if path == ("bundle", "excludes"):
        return strs(v)
    return False


# ---------------------------------------------------------------------------------------------
# case construction

class Case:
    __slots__ = ("kind", "value", "text", "expect", "tags", "res", "why")

    def __init__(self, kind, value, expect=None, why="", **tags):
        self.kind = kind          # "rule" | "config"
        self.value = value
        self.text = render(value)
        self.expect = expect      # None = whatever; "accept"; "reject"
        self.why = why
        self.tags = tags
        self.res = None


def rule_object(name, props, flt, order):
    pairs = list(props) + list(flt)
    rule = ("rule", name)
    if order == 0:
        return O([rule] + pairs)
    if order == 1:
        return O(pairs + [rule])
    mid = len(pairs) // 2
    return O(pairs[:mid] + [rule] + pairs[mid:])


def scan_configure_literals():
    keys = set()
    for f in glob.glob(os.path.join(C.REPO, "src/rules/**/*.rs"), recursive=True):
        s = open(f, errors="replace").read()
        for m in re.finditer(r"fn configure\(.*?\n    }\n", s, flags=re.S):
            keys.update(re.findall(r'"([A-Za-z_$-]+)"', m.group(0)))
    return sorted(keys)


def build_cases(ctx, names, tmpfile):
    rng = random.Random(ctx.seed)
    quick = ctx.tier == "quick"
    cat = catalogue(tmpfile)
    cases = []
    bases = {}

    # ---- valid rules: every name x forms x property sets x filter shapes x key orders
    for name in names:
        variants = cat.get(name, [obj()])
        bases[name] = variants[1] if (name in cat and len(variants[0]) == 0) else variants[0]
        if len(variants[0]) == 0:
            cases.append(Case("rule", name, "accept", rule=name, form="string"))
        for vi, props in enumerate(variants):
            shapes = FILTER_SHAPES
            if quick and name not in cat:
                shapes = [FILTER_SHAPES[0]] + rng.sample(FILTER_SHAPES[1:], 4)
            elif quick:
                shapes = [FILTER_SHAPES[0]] + rng.sample(FILTER_SHAPES[1:], 3 if vi else 12)
            for si, flt in enumerate(shapes):
                cases.append(Case("rule", rule_object(name, props, flt, (vi + si) % 3), "accept",
                                  rule=name, form="object", props=[k for k, _ in props], shape=si))
    # property pairs the catalogue does not list (collisions and legal pairs alike: expectation from `legit` only when single)
    pair_pool = {
        "append_text_comment": [("text", "t"), ("file", tmpfile), ("location", "end")],
        "inject_global_value": [("identifier", "FLAG"), ("value", 1), ("env", "DL_C19_UNSET"), ("env_json", "DL_C19_UNSET"),
                                ("default_value", 2)],
        "rename_variables": [("globals", ["t"]), ("include_functions", True), ("detect_globals", False)],
    }
    for name, pool in pair_pool.items():
        for i in range(len(pool)):
            for j in range(len(pool)):
                if i != j:
                    base = O([p for p in bases[name] if p[0] not in (pool[i][0], pool[j][0])])
                    cases.append(Case("rule", rule_object(name, O(list(base) + [pool[i], pool[j]]), obj(), 0), None,
                                      rule=name, form="object", pair=(pool[i][0], pool[j][0])))

    # ---- grid: every rule x every candidate key x sample values of every kind (T-exh tie of the property tables)
    literals = scan_configure_literals()
    cand_keys = sorted(set(literals) | set(JUNK_KEYS))
    samples = (KIND_SAMPLES_QUICK if quick else KIND_SAMPLES) + ["start", "end", "string", "tostring", "path", "roblox",
                                                                   "$default", obj(name="luau")]
    for name in names:
        required = O([p for p in (cat[name][0] if name in cat and name in ("append_text_comment", "convert_require",
                                                                           "inject_global_value") else obj())])
        for key in cand_keys:
            for sample in samples:
                props = O([p for p in required if p[0] != key] + [(key, sample)])
                # a key the rule does not document, or a value outside the documented kind, must be rejected
                expect = None if legit(("rules", name, key), sample) else "reject"
                cases.append(Case("rule", rule_object(name, props, obj(), 0), expect,
                                  why="grid: %s.%s = %s" % (name, key, render(sample)), rule=name, grid=key))

    # ---- valid configurations
    some_rules = ["remove_comments", obj(rule="remove_spaces", skip_files=GLOBS[1]),
                  obj(rule="inject_global_value", identifier="FLAG", value=True),
                  obj(rule="rename_variables", include_functions=True, apply_to_files=[GLOBS[0]])]
    cfgs = [obj(), obj(rules=[]), obj(process=[]), obj(rules=some_rules), obj(process=some_rules[:2])]
    for g in GENERATORS:
        cfgs.append(obj(rules=some_rules[:1], generator=g))
        cfgs.append(obj(generator=g))
    for b in BUNDLES:
        cfgs.append(obj(rules=some_rules[:2], bundle=b))
        cfgs.append(obj(bundle=b, generator="dense", rules=[]))
    for flt in FILTER_SHAPES[1:]:
        cfgs.append(O([("rules", some_rules)] + list(flt)))
        cfgs.append(O(list(flt) + [("generator", "readable"), ("process", some_rules[1:3])]))
    cfgs.append(obj(rules=[n for n in names if n not in ("append_text_comment", "convert_require", "inject_global_value")]))
    cfgs.append(obj(rules=[obj(rule=n) for n in names if n not in ("append_text_comment", "convert_require", "inject_global_value")]))
    for c in cfgs:
        cases.append(Case("config", c, "accept", level="config"))
    # one configuration per catalogue entry (the behavioural comparison runs on configurations)
    for name in names:
        for props in cat.get(name, [obj()]):
            for flt in (FILTER_SHAPES[0], FILTER_SHAPES[3], FILTER_SHAPES[5], FILTER_SHAPES[9]):
                cases.append(Case("config", obj(rules=[rule_object(name, props, flt, 0)], generator="retain_lines"),
                                  "accept", level="config", rule=name, props=[k for k, _ in props]))

    # ---- the 5 x 5 matrix of filter shapes on rules (with and without properties) and at the top level
    for where in MATRIX_WHERE:
        for ai in range(5):
            for si in range(5):
                cases.append(Case("config", matrix_config(where, ai, si), "accept", level="config",
                                  matrix=("top" if where == "top" else where[0], ai, si),
                                  rule=None if where == "top" else where[0]))

    # ---- corruptions of valid configurations
    def corrupt(base_cfg, label):
        out = []
        def walk(v, path, rebuild):
            """enumerate single-field corruptions of v; rebuild(new_v) gives the whole configuration"""
            if isinstance(v, O):
                for i, (k, x) in enumerate(v):
                    sub = path + (k,)
                    lpath = legit_path(sub)
                    # misspelt key
                    for bad in (k + "s", k[:-1], k.capitalize(), k.replace("_", "-") if "_" in k else "_" + k):
                        if bad != k and bad not in [kk for kk, _ in v] and not alias_ok(lpath, bad):
                            out.append((rebuild(O(v[:i] + [(bad, x)] + v[i + 1:])), "reject", "misspelt key %s -> %s" % (".".join(map(str, sub)), bad)))
                    # duplicate key (same value, then a different value)
                    out.append((rebuild(O(v[:i + 1] + [(k, x)] + v[i + 1:])), "reject", "duplicate key " + ".".join(map(str, sub))))
                    out.append((rebuild(O(list(v) + [(k, x)])), "reject", "duplicate key (at the end) " + ".".join(map(str, sub))))
                    # wrong kind
                    for sample in KIND_SAMPLES:
                        if render(sample) == render(x):
                            continue
                        if legit(lpath, sample):
                            continue
                        out.append((rebuild(O(v[:i] + [(k, sample)] + v[i + 1:])), "reject",
                                    "wrong kind %s = %s" % (".".join(map(str, sub)), render(sample))))
                    walk(x, sub, lambda nv, i=i, k=k, v=v, rebuild=rebuild: rebuild(O(v[:i] + [(k, nv)] + v[i + 1:])))
            elif isinstance(v, list) and path and path[-1] in ("rules", "process"):
                for i, x in enumerate(v):
                    walk(x, path + (i,), lambda nv, i=i, v=v, rebuild=rebuild: rebuild(v[:i] + [nv] + v[i + 1:]))
        def legit_path(sub):
            # ('rules', 2, 'text') -> ('rules', <rule name>, 'text')
            if sub and sub[0] in ("rules", "process") and len(sub) >= 3 and isinstance(sub[1], int):
                r = base_cfg_lookup(base_cfg, sub[0])[sub[1]]
                name = dict(r).get("rule") if isinstance(r, O) else r
                return ("rules", name) + tuple(sub[2:])
            if sub and sub[0] in ("rules", "process"):
                return ("rules",) + tuple(sub[1:])
            return tuple(sub)
        def alias_ok(lpath, bad):
            return (lpath == ("rules",) and bad in ("rules", "process")) or (lpath[:1] == ("bundle",) and False)
        walk(base_cfg, (), lambda nv: nv)
        return [(v, e, "%s: %s" % (label, w)) for v, e, w in out]

    def base_cfg_lookup(cfg, key):
        return dict(cfg)[key]

    corr_bases = []
    for name in names:
        props = bases[name] if name in cat else obj()
        corr_bases.append((obj(rules=[rule_object(name, props, obj(apply_to_files=GLOBS[0], skip_files=[GLOBS[1]]), 0)]), name))
    corr_bases.append((obj(rules=["remove_spaces"], generator=obj(name="dense", column_span=100),
                           bundle=obj(require_mode="path", modules_identifier="M", excludes=["x"]),
                           apply_to_files=[GLOBS[0]], skip_files=GLOBS[1]), "top"))
    corr_bases.append((obj(process=["remove_spaces"], generator=obj(name="retain_lines")), "top-retain"))
    corr_bases.append((obj(rules=[obj(rule="rename_variables", globals=["$default", "t"], include_functions=True, detect_globals=False)]), "rename-all"))
    corr_bases.append((obj(rules=[obj(rule="append_text_comment", text="x", location="end")]), "append-all"))
    corr_bases.append((obj(rules=[obj(rule="inject_global_value", identifier="FLAG", env="DL_C19_UNSET", default_value=1)]), "inject-env"))
    corr_bases.append((obj(rules=[obj(rule="remove_comments", **{"except": ["^ keep"]})]), "comments-except"))
    corr_bases.append((obj(rules=[obj(rule="remove_attribute", match=["native"])]), "attribute-match"))
    corr_bases.append((obj(rules=[obj(rule="remove_interpolated_string", strategy="tostring")]), "interp"))
    corr_bases.append((obj(rules=[obj(rule="remove_assertions", preserve_arguments_side_effects=False)]), "assertions"))
    seen = set()
    corrupted = []
    for base_cfg, label in corr_bases:
        for v, e, w in corrupt(base_cfg, label):
            t = render(v)
            if t in seen:
                continue
            seen.add(t)
            corrupted.append(Case("config", v, e, why=w, level="corrupt", base=label))
    if quick and len(corrupted) > 2600:
        keep = [c for c in corrupted if c.tags["base"] not in names or "wrong kind" not in c.why]
        rest = [c for c in corrupted if not (c.tags["base"] not in names or "wrong kind" not in c.why)]
        rng.shuffle(rest)
        corrupted = keep + rest[:max(0, 2600 - len(keep))]
    cases += corrupted

    # ---- further single corruptions that are not "replace by a sample"
    extra = []
    for name in names:
        if name not in cat:
            for k, v in (("prop", "something"), ("except", ["a"]), ("name", name), ("rules", []), ("value", None)):
                extra.append((obj(rules=[obj(rule=name, **{k: v})]), "reject", "extra property %s on parameterless %s" % (k, name)))
    for bad in ("remove_comment", "", "Remove_comments", " remove_comments", "remove_comments ", "remove-comments", "bundler",
                "replace_referenced_tokens", "shift_token_line"):
        extra.append((obj(rules=[bad]), "reject", "unknown rule name %r" % bad))
        extra.append((obj(rules=[obj(rule=bad)]), "reject", "unknown rule name %r (object form)" % bad))
    for key in ("rule", "location", "generators", "output", "input", "Rules", "bundles", "apply_to_file", ""):
        extra.append((O([("rules", []), (key, "x")]), "reject", "unknown top-level key %r" % key))
        extra.append((O([("rules", []), (key, None)]), "reject", "unknown top-level key %r (null)" % key))
    for g in BAD_GLOBS:
        extra.append((obj(rules=[], apply_to_files=g), "reject", "invalid glob %r (top apply)" % g))
        extra.append((obj(rules=[], skip_files=[GLOBS[0], g]), "reject", "invalid glob %r (top skip list)" % g))
        extra.append((obj(rules=[obj(rule="remove_spaces", apply_to_files=[g])]), "reject", "invalid glob %r (rule apply)" % g))
        extra.append((obj(rules=[obj(rule="remove_spaces", skip_files=g)]), "reject", "invalid glob %r (rule skip)" % g))
    extra += [
        (obj(rules=[obj(rule="remove_comments", **{"except": ["^[0-9"]})]), "reject", "invalid regex"),
        (obj(rules=[obj(rule="remove_attribute", match=["ok", "("])]), "reject", "invalid regex"),
        (obj(rules=[obj(rule="rename_variables", globals=["not valid"])]), "reject", "invalid identifier in globals"),
        (obj(rules=[obj(rule="rename_variables", globals=["$other"])]), "reject", "unknown $group in globals"),
        (obj(rules=[obj(rule="append_text_comment", text="x", location="middle")]), "reject", "invalid enum value"),
        (obj(rules=[obj(rule="append_text_comment", text="x", location="Start")]), "reject", "enum value in another letter case"),
        (obj(rules=[obj(rule="append_text_comment", text="x", location="start ")]), "reject", "enum value with a space"),
        (obj(rules=[obj(rule="append_text_comment", text="x", location="END")]), "reject", "enum value in another letter case"),
        (obj(rules=[obj(rule="remove_interpolated_string", strategy="String")]), "reject", "enum value in another letter case"),
        (obj(rules=[obj(rule="remove_interpolated_string", strategy=" tostring")]), "reject", "enum value with a space"),
        (obj(rules=[obj(rule="rename_variables", globals=["$Default"])]), "reject", "group name in another letter case"),
        (obj(generator="Retain_lines"), "reject", "generator name in another letter case"),
        (obj(generator="dense "), "reject", "generator name with a space"),
        (obj(generator=obj(name="Readable")), "reject", "generator name in another letter case"),
        (obj(bundle=obj(require_mode="Path")), "reject", "require mode name in another letter case"),
        (obj(bundle=obj(require_mode=obj(name="PATH"))), "reject", "require mode name in another letter case"),
        (obj(rules=[obj(rule="remove_interpolated_string", strategy="format")]), "reject", "invalid enum value"),
        (obj(rules=[obj(rule="convert_require", current="path", target="rblox")]), "reject", "invalid require mode name"),
        (obj(rules=[obj(rule="convert_require", current=obj(name="path", oops=1), target="path")]), "reject", "unknown key in require mode"),
        (obj(rules=[obj(rule="convert_require", current="path")]), "reject", "missing required property"),
        (obj(rules=[obj(rule="inject_global_value", value=1)]), "reject", "missing required property"),
        (obj(rules=[obj(rule="append_text_comment")]), "reject", "missing required property"),
        (obj(rules=["append_text_comment"]), "reject", "missing required property (string form)"),
        (obj(rules=["inject_global_value"]), "reject", "missing required property (string form)"),
        (obj(rules=["convert_require"]), "reject", "missing required property (string form)"),
        (obj(rules=[obj(rule="append_text_comment", text="a", file="b")]), "reject", "contradictory properties text+file"),
        (obj(rules=[obj(rule="inject_global_value", identifier="A", value=1, env="X")]), "reject", "contradictory properties value+env"),
        (obj(rules=[obj(rule="inject_global_value", identifier="A", value=1, env_json="X")]), "reject", "contradictory properties value+env_json"),
        (obj(rules=[obj(rule="inject_global_value", identifier="A", env="X", env_json="X")]), "reject", "contradictory properties env+env_json"),
        (obj(rules=[obj(rule="inject_global_value", identifier="A", value=1, default_value=2)]), "reject", "contradictory properties value+default_value"),
        (obj(rules=[obj(rule="inject_global_value", identifier="A", env_json="DL_C19_BADJSON")]), "reject", "environment variable holds invalid JSON"),
        (obj(rules=[obj(identifier="A")]), "reject", "rule object without rule"),
        (obj(rules=[], process=[]), "reject", "rules and process together"),
        (obj(generator=obj(name="dense", column_span=-1)), "reject", "negative column_span"),
        (obj(generator=obj(name="dense", column_span=1.5)), "reject", "fractional column_span"),
        (obj(generator=obj(name="dense", column_span="80")), "reject", "string column_span"),
        (obj(generator=obj(column_span=80)), "reject", "generator without name"),
        (obj(generator="Dense"), "reject", "unknown generator name"),
        (obj(generator=obj(name="retain_lines", column_span=80)), "reject", "column_span on retain_lines"),
        (obj(generator=obj(name="retain_lines", foo=1)), "reject", "unknown key on retain_lines generator"),
        (obj(generator=obj(name="retain-lines", columnspan=1, x=None)), "reject", "unknown keys on retain-lines generator"),
        (obj(generator=obj(name="dense", foo=1)), "reject", "unknown key on dense generator"),
        (obj(bundle=obj(require_mode="roblox")), "reject", "roblox is not a bundle require mode"),
        (obj(bundle=obj()), "reject", "bundle without require_mode"),
        (obj(bundle=obj(require_mode=obj(name="path", foo=1))), "reject", "unknown key in bundle require mode"),
    ]
    for v, e, w in extra:
        t = render(v)
        if t not in seen:
            seen.add(t)
            cases.append(Case("config", v, e, why=w, level="corrupt", base="extra"))


    # ---- duplicate keys, on the text: every key of every object twice; the other occurrence is an empty list, an empty
    #      string, a falsy value or the real value, before or after the real one (a reader that keeps a plain Vec /
    #      Option and tests is_empty() / is_none() instead of "seen" would let the last one win)
    FIRSTS = [[], "", None, False, 0]
    def duplicates_of(o, rebuild, where):
        out = []
        for i, (k, x) in enumerate(o):
            for first in FIRSTS + [x]:
                if render(first) == render(x) and first is not x:
                    continue
                out.append((rebuild(O(o[:i] + [(k, first)] + o[i:])), "%s: key %s twice, first %s" % (where, k, render(first)[:30])))
                out.append((rebuild(O(o[:i + 1] + [(k, first)] + o[i + 1:])), "%s: key %s twice, second %s" % (where, k, render(first)[:30])))
                if i + 1 < len(o):
                    out.append((rebuild(O(list(o) + [(k, first)])), "%s: key %s again at the end, %s" % (where, k, render(first)[:30])))
        return out
    dups = []
    for name in names:
        props = bases[name] if name in cat else obj()
        if name == "inject_global_value":
            props = obj(identifier="V", value=1)
        shapes = [obj(apply_to_files=GLOBS[0], skip_files=[GLOBS[1]])]
        if name in ("inject_global_value", "remove_spaces", "rename_variables"):
            shapes.append(obj(skip_files="**/test.lua", apply_to_files=[GLOBS[0], GLOBS[3]]))
        for flt in shapes:
            r = rule_object(name, props, flt, 0)
            dups += duplicates_of(r, lambda nr: obj(rules=[nr]), "rule " + name)
    top_base = obj(rules=["remove_spaces"], generator=obj(name="dense", column_span=100),
                   bundle=obj(require_mode=obj(name="path", module_folder_name="index", sources=obj(("@pkg", "./p")),
                                               use_luau_configuration=False),
                              modules_identifier="M", excludes=["x"]),
                   apply_to_files=[GLOBS[0]], skip_files=GLOBS[1])
    dups += duplicates_of(top_base, lambda nv: nv, "configuration")
    dups += duplicates_of(obj(process=["remove_spaces"], skip_files=[GLOBS[1]]), lambda nv: nv, "configuration (process)")
    def with_key(base, key, nv):
        return O((k, nv if k == key else x) for k, x in base)
    dups += duplicates_of(dict(top_base)["generator"], lambda nv: with_key(top_base, "generator", nv), "generator object")
    dups += duplicates_of(obj(name="readable", column_span=7), lambda nv: obj(rules=[], generator=nv), "generator object")
    dups += duplicates_of(dict(top_base)["bundle"], lambda nv: with_key(top_base, "bundle", nv), "bundle object")
    rm = dict(dict(top_base)["bundle"])["require_mode"]
    dups += duplicates_of(rm, lambda nv: with_key(top_base, "bundle", with_key(dict(top_base)["bundle"], "require_mode", nv)),
                          "bundle require_mode object")
    lm = obj(name="luau", use_luau_configuration=False, aliases=obj(pkg="./p"))
    dups += duplicates_of(lm, lambda nv: obj(rules=[], bundle=obj(require_mode=nv)), "bundle require_mode object (luau)")
    for v, w in dups:
        t = render(v)
        if t not in seen:
            seen.add(t)
            cases.append(Case("config", v, "reject", why="duplicate key " + w, level="corrupt", base="duplicates"))
    # duplicates inside map-typed values (no model: the transport keeps one value per key there)
    nested = [
        (obj(rules=[obj(rule="inject_global_value", identifier="A", value=O([("a", 1), ("a", 2)]))]), "inject_global_value.value"),
        (obj(rules=[obj(rule="inject_global_value", identifier="A", env="DL_C19_UNSET", default_value=O([("a", 1), ("b", 0), ("a", 1)]))]),
         "inject_global_value.value"),
        (obj(rules=[obj(rule="inject_global_value", identifier="A", value=[O([("a", []), ("a", "x")])])]), "inject_global_value.value"),
        (obj(rules=[], bundle=obj(require_mode=obj(name="path", sources=O([("@a", "x"), ("@a", "y")])))), "require_mode.sources"),
        (obj(rules=[], bundle=obj(require_mode=obj(name="luau", aliases=O([("a", "x"), ("b", "z"), ("a", "x")])))), "require_mode.sources"),
        (obj(rules=[obj(rule="convert_require", current=O([("name", "path"), ("name", "luau")]), target="path")]), "convert_require.current"),
        (obj(rules=[obj(rule="convert_require", target="path",
                        current=O([("name", "path"), ("module_folder_name", "a"), ("module_folder_name", "b")]))]), "convert_require.current"),
        (obj(rules=[obj(rule="convert_require", target="path",
                        current=obj(name="path", sources=O([("@a", "x"), ("@a", "y")])))]), "require_mode.sources"),
    ]
    for v, where in nested:
        cases.append(Case("config", v, "reject", why="duplicate key inside " + where, level="corrupt", base="nested-duplicates",
                          nomodel=True, nested=where))

    # distinct by (kind, text)
    out, seen2 = [], set()
    for c in cases:
        key = (c.kind, c.text)
        if key in seen2:
            continue
        seen2.add(key)
        out.append(c)
    return out, cat


# ---------------------------------------------------------------------------------------------
# harness

def talk(requests):
    for k, v in ENV.items():
        os.environ[k] = v
    os.environ.pop("DL_C19_UNSET", None)
    out = C.harness("dl-c19", ["serve"], input="\n".join(json.dumps(r) for r in requests) + "\n", timeout=1500)
    answers = []
    for line in out.splitlines():
        line = line.strip()
        if line.startswith("{"):
            answers.append(json.loads(line))
    if len(answers) != len(requests):
        raise C.CheckBroken("dl-c19 answered %d lines for %d requests:\n%s" % (len(answers), len(requests), out[-2000:]))
    return answers


# ---------------------------------------------------------------------------------------------
# oracle tables for the Coq side

def collect_oracle_inputs(values):
    globs, regexes, idents, modes, bundles, glists = set(), set(), set(), {}, {}, {}
    def strings_of(x):
        if isinstance(x, str):
            return [x]
        if isinstance(x, list):
            return [e for e in x if isinstance(e, str)]
        return []
    def rule(r):
        if not isinstance(r, O):
            return
        for k, x in r:
            if k in ("apply_to_files", "skip_files"):
                globs.update(strings_of(x))
            elif k != "rule":
                if isinstance(x, list) and all(isinstance(e, str) for e in x):
                    regexes.update(x)
                    idents.update(x)
                    glists[render(x)] = x
                elif isinstance(x, (O, list)):
                    modes[render(x)] = x
    for kind, v in values:
        if kind == "rule":
            rule(v)
        elif isinstance(v, O):
            for k, x in v:
                if k in ("rules", "process") and isinstance(x, list):
                    for r in x:
                        rule(r)
                elif k in ("apply_to_files", "skip_files"):
                    globs.update(strings_of(x))
                elif k == "bundle" and x is not None:
                    bundles[render(x)] = x
    return globs, regexes, idents, modes, bundles, glists


def coq_bool_table(name, d):
    return "Definition %s : list (string * bool) := [%s].\n" % (
        name, ";".join("(%s, %s)" % (coq_str(k), "true" if v else "false") for k, v in sorted(d.items())))


def coq_json_table(name, pairs):
    return "Definition %s : list (json * option json) := [%s].\n" % (
        name, ";".join("(%s, %s)" % (to_coq(k), "None" if v is None else "Some " + to_coq(v)) for k, v in pairs))


PREAMBLE_HEAD = """From Coq Require Import List Bool String Ascii ZArith NArith DecimalString.
From DL Require Import Model.Config Model.ConfigRules Model.ConfigBundle.
Import ListNotations.
Open Scope string_scope.
Definition nl : string := String (ascii_of_nat 10) EmptyString.
Definition NoJ : option json := None.
"""

PREAMBLE_TAIL = """
Definition tbl_bool (t : list (string * bool)) (s : string) : bool :=
  match lookup s t with Some b => b | None => false end.
Fixpoint jlookup (j : json) (t : list (json * option json)) : option json :=
  match t with
  | [] => None
  | (k, v) :: t' => if json_eqb j k then v else jlookup j t'
  end.
Fixpoint glookup (l : list string) (t : list (list string * list string)) : list string :=
  match t with
  | [] => l
  | (k, v) :: t' => if strings_eqb l k then v else glookup l t'
  end.
Definition o_glob := tbl_bool glob_tbl.
Definition o_regex := tbl_bool regex_tbl.
Definition o_ident := tbl_bool ident_tbl.
Definition o_globals (l : list string) := glookup l globals_tbl.
Definition o_reqmode (j : json) := jlookup j reqmode_tbl.
Definition o_envjson (s : string) := negb (mem s env_bad).
Definition o_bundle (j : json) := bundle_norm j.     (* Model/ConfigBundle.v; bundle_tbl (dumped) is kept for reference *)
Definition de_rule := deserialize_rule o_glob o_regex o_ident o_globals o_reqmode o_envjson rule_specs.
Definition se_rule := serialize_rule rule_specs.
Definition de_config := deserialize_config o_glob o_regex o_ident o_globals o_reqmode o_envjson o_bundle rule_specs default_rule_names.
Definition se_config := serialize_config rule_specs.
Definition case := (bool * json * option json)%type.
Definition model_out (c : case) : option json :=
  let '(is_config, j, _) := c in
  if is_config then option_map se_config (de_config j) else option_map se_rule (de_rule j).
Definition check_case (c : case) : bool :=
  match model_out c, snd c with
  | None, None => true
  | Some a, Some b => json_eqb a b
  | _, _ => false
  end.
Definition show_num (n : jnum) : string :=
  match n with NInt z => NilZero.string_of_int (Z.to_int z) | NFlt r => r end.
Fixpoint show (j : json) : string :=
  match j with
  | JNull => "null" | JBool true => "true" | JBool false => "false"
  | JNum n => show_num n
  | JStr s => "'" ++ s ++ "'"
  | JArr l => "[" ++ String.concat "," (map show l) ++ "]"
  | JObj l => "{" ++ String.concat "," (map (fun kv => fst kv ++ ":" ++ show (snd kv)) l) ++ "}"
  end.
Definition diag_case (c : case) : string :=
  match model_out c with None => "model=REJECT" | Some j => "model=" ++ show j end.
"""


def build_preamble(cases, answers_for_oracles):
    o = answers_for_oracles
    text = PREAMBLE_HEAD
    text += coq_bool_table("glob_tbl", o["globs"])
    text += coq_bool_table("regex_tbl", o["regexes"])
    text += coq_bool_table("ident_tbl", o["identifiers"])
    text += "Definition env_bad : list string := [%s].\n" % ";".join(coq_str(s) for s in ENV_JSON_BAD)
    text += coq_json_table("reqmode_tbl", o["modes"])
    text += coq_json_table("bundle_tbl", o["bundles"])
    text += "Definition globals_tbl : list (list string * list string) := [%s].\n" % ";".join(
        "([%s], [%s])" % (";".join(coq_str(s) for s in k), ";".join(coq_str(s) for s in v)) for k, v in o["globals"])
    return text + PREAMBLE_TAIL


# ---------------------------------------------------------------------------------------------
# a reader for the Lua literal that `inject_global_value` writes (dense generator), to compare the injected
# value with the JSON value of the configuration without going through any model

def parse_lua_value(s):
    pos = [0]
    def ws():
        while pos[0] < len(s) and s[pos[0]] in " \t\r\n":
            pos[0] += 1
    def value():
        ws()
        c = s[pos[0]]
        if c == "{":
            pos[0] += 1
            arr, rec = [], {}
            while True:
                ws()
                if s[pos[0]] == "}":
                    pos[0] += 1
                    break
                m = re.match(r"([A-Za-z_][A-Za-z0-9_]*)\s*=(?!=)", s[pos[0]:])
                if m:
                    pos[0] += m.end()
                    rec[m.group(1)] = value()
                elif s[pos[0]] == "[":
                    pos[0] += 1
                    k = value()
                    ws()
                    assert s[pos[0]] == "]"
                    pos[0] += 1
                    ws()
                    assert s[pos[0]] == "="
                    pos[0] += 1
                    rec[k] = value()
                else:
                    arr.append(value())
                ws()
                if s[pos[0]] in ",;":
                    pos[0] += 1
            if rec and arr:
                return {"__array": arr, "__record": rec}
            if rec:
                return rec
            return arr
        if c in "'\"":
            q = c
            pos[0] += 1
            out = ""
            while s[pos[0]] != q:
                if s[pos[0]] == "\\":
                    pos[0] += 1
                out += s[pos[0]]
                pos[0] += 1
            pos[0] += 1
            return out
        m = re.match(r"-?\s*(0x[0-9a-fA-F]+|[0-9]*\.?[0-9]+(?:[eE][-+]?[0-9]+)?)", s[pos[0]:])
        if m:
            pos[0] += m.end()
            t = m.group(0).replace(" ", "")
            return num(float(t)) if not t.lower().startswith(("0x", "-0x")) else int(t, 16)
        for word, val in (("true", True), ("false", False), ("nil", None)):
            if s.startswith(word, pos[0]):
                pos[0] += len(word)
                return val
        raise ValueError("cannot read lua value at %d: %r" % (pos[0], s[pos[0]:pos[0] + 20]))
    v = value()
    ws()
    if pos[0] != len(s):
        raise ValueError("trailing text %r" % s[pos[0]:])
    return v


def json_as_lua(v):
    """what a JSON value should look like once read back by parse_lua_value"""
    if isinstance(v, O):
        return {k: json_as_lua(x) for k, x in deep(v)}
    if isinstance(v, list):
        return [json_as_lua(x) for x in v]
    if isinstance(v, (int, float)) and not isinstance(v, bool):
        return num(v)
    return v


# ---------------------------------------------------------------------------------------------

# ---------------------------------------------------------------------------------------------
# what a configuration MEANS according to the documentation, with every default written out: a python-side
# specification used to compare a configuration with the one read back from its serialized text

RULE_DEFAULTS = {
    "append_text_comment": {"location": "start"},
    "remove_assertions": {"preserve_arguments_side_effects": True},
    "remove_debug_profiling": {"preserve_arguments_side_effects": True},
    "remove_attribute": {"match": []},
    "remove_comments": {"except": []},
    "remove_interpolated_string": {"strategy": "string"},
    "rename_variables": {"globals": ["$default"], "include_functions": False, "detect_globals": True},
}


def read_global_groups():
    text = open(os.path.join(C.REPO, "src/rules/rename_variables/globals.rs"), errors="replace").read()
    groups = {}
    for name, key in (("DEFAULT", "$default"), ("ROBLOX", "$roblox")):
        m = re.search(r"pub const %s: \[&str; \d+\] = \[(.*?)\];" % name, text, flags=re.S)
        groups[key] = re.findall(r'"([^"]+)"', m.group(1)) if m else [key]
    return groups


def plain(v):
    if isinstance(v, O):
        return {k: plain(x) for k, x in v}
    if isinstance(v, list):
        return [plain(x) for x in v]
    if isinstance(v, (int, float)) and not isinstance(v, bool):
        return num(v)
    return v


def as_list(v):
    if v is None:
        return []
    return [v] if isinstance(v, str) else list(v)


def full_mode(m):
    if isinstance(m, str):
        m = O([("name", m)])
    d = dict(m)
    name = d.get("name")
    if name == "path":
        return {"name": "path", "module_folder_name": d.get("module_folder_name", "init"),
                "sources": plain(d.get("sources", O())), "use_luau_configuration": d.get("use_luau_configuration", True)}
    if name == "luau":
        return {"name": "luau", "use_luau_configuration": d.get("use_luau_configuration", True),
                "aliases": plain(d.get("aliases", d.get("sources", O())))}
    style = d.get("indexing_style", "find_first_child")
    return {"name": name, "rojo_sourcemap": d.get("rojo_sourcemap"),
            "indexing_style": dict(style).get("name") if isinstance(style, O) else style}


def full_rule(r, groups):
    pairs = list(r) if isinstance(r, O) else [("rule", r)]
    name = dict(pairs).get("rule")
    out = {"rule": name, "apply_to_files": [], "skip_files": [], "props": plain(O(RULE_DEFAULTS.get(name, {}).items()))}
    for k, x in pairs:
        if k == "rule":
            continue
        if k in ("apply_to_files", "skip_files"):
            out[k] = as_list(x)
        elif k in ("current", "target") and name == "convert_require":
            out["props"][k] = full_mode(x)
        else:
            out["props"][k] = plain(x)
    if "globals" in out["props"]:
        expanded = set()
        for g in out["props"]["globals"]:
            expanded.update(groups.get(g, [g]))
        out["props"]["globals"] = sorted(expanded)
    return out


def full_config(c, groups, default_rules):
    d = dict(c)
    rules = d.get("rules", d.get("process"))
    g = d.get("generator", "retain_lines")
    gd = dict(g) if isinstance(g, O) else {"name": g}
    gname = "retain_lines" if gd.get("name") in ("retain_lines", "retain-lines") else gd.get("name")
    b = d.get("bundle")
    bd = dict(b) if isinstance(b, O) else None
    return {
        "rules": [full_rule(r, groups) for r in (default_rules if rules is None else rules)],
        "generator": {"name": gname, "column_span": None if gname == "retain_lines" else gd.get("column_span", 80)},
        "bundle": None if bd is None else {
            "require_mode": full_mode(bd["require_mode"]),
            "modules_identifier": bd.get("modules_identifier") or "__DARKLUA_BUNDLE_MODULES",
            "excludes": sorted(set(bd.get("excludes", [])))},
        "apply_to_files": as_list(d.get("apply_to_files")), "skip_files": as_list(d.get("skip_files")),
    }


def first_difference(a, b, path=""):
    if isinstance(a, dict) and isinstance(b, dict):
        for k in sorted(set(a) | set(b)):
            if k not in a or k not in b:
                return path + "." + k
            d = first_difference(a[k], b[k], path + "." + k)
            if d:
                return d
        return None
    if isinstance(a, list) and isinstance(b, list) and len(a) == len(b):
        for i, (x, y) in enumerate(zip(a, b)):
            d = first_difference(x, y, path + "[%d]" % i)
            if d:
                return d
        return None
    return None if a == b and type(a) == type(b) or (a == b and not isinstance(a, bool) and not isinstance(b, bool)) else (path or ".")


def bundle_tree():
    """a project where every field of the bundle require modes changes the bundle (or makes it fail)"""
    return {
        "src/main.luau": "local a = require(\"./folder\")\nlocal c = require(\"@pkg/mod\")\nreturn { a, c }\n",
        "src/folder/init.luau": "return \"init\"\n", "src/folder/index.luau": "return \"index\"\n",
        "src/folder/Init.luau": "return \"Init (capital)\"\n", "src/folder/INIT.luau": "return \"INIT (upper)\"\n",
        "src/folder/init .luau": "return \"init with a space\"\n", "src/folder/ init.luau": "return \"space init\"\n",
        "src/pkgdir/mod.luau": "return \"pkgdir\"\n", "src/rcdir/mod.luau": "return \"rcdir\"\n",
        ".luaurc": "{\"aliases\": {\"pkg\": \"./src/rcdir\"}}",
    }


def tree():
    t = {"src/main.luau": PROBE, "src/sub/mod.luau": PROBE, "src/sub/deep/leaf.lua": PROBE}
    for d in ("src", "src/sub", "src/sub/deep"):
        t[d + "/lib.luau"] = "return { here = \"%s\" }\n" % d
    return t


def run(ctx):
    C.build_harness("dl-c19")
    proofs_ok = C.proof_gate(ctx)

    work = os.path.join(C.WORK, "C19")
    os.makedirs(work, exist_ok=True)
    tmpfile = os.path.join(work, "c19_comment.txt")
    with open(tmpfile, "w") as f:
        f.write("from file")

    names_ans = talk([{"names": True}])[0]
    names = names_ans["names"]
    cases, cat = build_cases(ctx, names, tmpfile)

    # ---- 1. the chain parse -> serialize -> parse -> serialize on the real code
    answers = talk([{c.kind: c.text} for c in cases])
    for c, a in zip(cases, answers):
        c.res = a
    panics = [c for c in cases if c.res.get("panic")]

    # ---- 2. oracle tables
    values = [None if c.tags.get("nomodel") else
              (c.kind, canon_rule(c.value) if c.kind == "rule" else canon_config(c.value)) for c in cases]
    globs, regexes, idents, modes, bundles, glists = collect_oracle_inputs([v for v in values if v is not None])
    mode_keys = sorted(modes)
    bundle_keys = sorted(bundles)
    glist_keys = sorted(glists)
    reqs = [{"oracles": {"globs": sorted(globs), "regexes": sorted(regexes), "identifiers": sorted(idents),
                         "require_modes": mode_keys, "bundles": bundle_keys}}]
    reqs += [{"rule": render(obj(rule="rename_variables", globals=glists[k]))} for k in glist_keys]
    oa = talk(reqs)
    o = oa[0]
    globals_tbl = []
    for k, a in zip(glist_keys, oa[1:]):
        if a.get("ok"):
            ser = loads(a["ser"])
            out = dict(ser).get("globals", ["$default"]) if isinstance(ser, O) else ["$default"]
            globals_tbl.append((glists[k], out))
    oracle = {
        "globs": o["globs"], "regexes": o["regexes"], "identifiers": o["identifiers"],
        "modes": [(modes[k], None if o["require_modes"][k] is None else deep(loads(o["require_modes"][k]))) for k in mode_keys],
        "bundles": [(bundles[k], None if o["bundles"][k] is None else deep(loads(o["bundles"][k]), sort_excludes=True))
                    for k in bundle_keys],
        "globals": globals_tbl,
    }
    # idempotence of the normal forms (hypotheses of the round-trip theorems), checked on the dumped entries
    idem_reqs, idem_expect = [], []
    for _, nf in oracle["modes"]:
        if nf is not None:
            idem_reqs.append(render(nf))
            idem_expect.append(nf)
    oa2 = talk([{"oracles": {"require_modes": idem_reqs, "bundles": [render(nf) for _, nf in oracle["bundles"] if nf is not None]}}])[0]
    idem_bad = [t for t, nf in zip(idem_reqs, idem_expect)
                if oa2["require_modes"].get(t) is None or render(deep(loads(oa2["require_modes"][t]))) != render(nf)]
    for _, nf in oracle["bundles"]:
        if nf is not None:
            t = render(nf)
            back = oa2["bundles"].get(t)
            if back is None or render(deep(loads(back), sort_excludes=True)) != t:
                idem_bad.append(t)
    names_model_check = "Definition names_ok := strings_eqb (map s_name rule_specs) [%s] && strings_eqb default_rule_names [%s].\n" % (
        ";".join(coq_str(n) for n in names), ";".join(coq_str(n) for n in names_ans["default_rules"]))

    # ---- 3. model = code, inside Coq
    coq_cases = []
    for idx, (c, kv) in enumerate(zip(cases, values)):
        if kv is None:
            continue
        kind, v = kv
        a = c.res
        if a.get("ok"):
            ser = loads(a["ser"])
            expected = "Some " + to_coq(canon_rule(ser) if kind == "rule" else canon_config(ser, written=True))
        else:
            expected = "NoJ"
        coq_cases.append((idx, "(%s, %s, %s)" % ("true" if kind == "config" else "false", to_coq(v), expected)))
    preamble = build_preamble(cases, oracle)
    bad = C.run_coq_cases(ctx.prop, preamble, coq_cases, chunk=250 if ctx.tier == "quick" else 500)
    # rule names and default rules: exact table equality
    names_bad = C.run_coq_cases(
        ctx.prop, PREAMBLE_HEAD + names_model_check +
        "Definition check_case (c : bool) : bool := names_ok.\nDefinition diag_case (c : bool) : string := \"rule name tables differ\".\n",
        [(0, "true")], tag="names")

    nontrivial = sum(1 for c in cases if not (c.kind == "rule" and isinstance(c.value, str)))
    grid = [c for c in cases if "grid" in c.tags]
    samples = [{"text": c.text, "rust": c.res.get("ser", "REJECT: " + str(c.res.get("error"))[:80])}
               for c in cases if c.tags.get("props") and c.kind == "rule"][40:43]
    ctx.stream("json5::from_str -> serde_json::to_string: Coq model (Model/Config + ConfigRules) vs Rust, accept/reject and written JSON",
               len(cases), nontrivial, samples, mismatches=len(bad), grid_cases=len(grid),
               corrupted=sum(1 for c in cases if c.tags.get("level") == "corrupt"))
    ctx.stream("rule name tables: get_all_rule_names / get_default_rules == Model/ConfigRules", len(names) + len(names_ans["default_rules"]),
               len(names), [], mismatches=len(names_bad))
    ctx.stream("normal forms of require-mode and bundle blocks are idempotent (theorem hypotheses) on the dumped entries",
               len(idem_reqs) + len(oracle["bundles"]), len(idem_reqs), [], mismatches=len(idem_bad))

    # ---- 4. property-level oracles on the real code (no model involved)
    findings = []          # (key, what, replay)

    # 4a. strictness: corrupted or undocumented input must be rejected; documented input accepted
    for c in cases:
        ok = bool(c.res.get("ok"))
        if c.expect == "reject" and ok:
            findings.append((strict_key(c), "a corrupted configuration is accepted: " + c.why,
                             {"kind": c.kind, "text": c.text, "why": c.why, "serialized": c.res.get("ser")}))
        if c.expect == "accept" and not ok:
            findings.append(("accept:" + c.text[:60], "a documented configuration is rejected",
                             {"kind": c.kind, "text": c.text, "error": c.res.get("error")}))
    # 4b. round trip on the real code: written text is readable, is a fixed point, both readers agree
    accepted = [c for c in cases if c.res.get("ok")]
    for c in accepted:
        a = c.res
        canon = (lambda t: render(canon_rule(loads(t)))) if c.kind == "rule" else (lambda t: render(canon_config(loads(t), written=True)))
        if "ser_error" in a:
            findings.append(("serialize-error:" + rule_of(c), "an accepted configuration cannot be serialized",
                             {"text": c.text, "error": a["ser_error"]}))
            continue
        if not a["back"]["ok"] or not a["back_json"]["ok"]:
            findings.append(("roundtrip:unreadable:" + rule_of(c), "the serialized configuration is rejected when read back",
                             {"kind": c.kind, "text": c.text, "serialized": a["ser"],
                              "error": a["back"].get("error") or a["back_json"].get("error")}))
            continue
        if canon(a["back"]["ser"]) != canon(a["ser"]) or canon(a["back_json"]["ser"]) != canon(a["ser"]) \
                or canon(a["ser_again"]) != canon(a["ser"]):
            findings.append(("roundtrip:not-a-fixed-point:" + rule_of(c), "serialize(read(serialize(c))) differs from serialize(c)",
                             {"kind": c.kind, "text": c.text, "serialized": a["ser"], "again": a["back"]["ser"],
                              "again_serde_json": a["back_json"]["ser"]}))

    # 4c. behaviour: the configuration and its round-tripped text transform the probe tree identically;
    #     configurations with the same serialized text behave identically
    cfg_cases = [c for c in accepted if c.kind == "config" and "ser_error" not in c.res and c.res["back"]["ok"]]
    if ctx.tier == "quick":
        rule_level = []
    else:
        rule_level = [c for c in accepted if c.kind == "rule" and "grid" not in c.tags and c.res["back"]["ok"]]
    jobs = [{"tree": tree()}]
    job_index = []
    def add_job(text, who):
        jobs.append({"id": len(jobs), "config": text, "input": "src", "output": "out"})
        job_index.append(who)
    matrix_cases = [c for c in cfg_cases if c.tags.get("matrix")]
    for c in cfg_cases:
        if c.tags.get("matrix"):
            continue
        add_job(c.text, (c, "orig"))
        add_job(c.res["ser"], (c, "back"))
    for c in rule_level:
        wrap = lambda r: '{"rules":[%s],"generator":"retain_lines"}' % r
        add_job(wrap(c.text), (c, "orig"))
        add_job(wrap(c.res["ser"]), (c, "back"))
    n_main = len(jobs)
    # the filter-shape matrix runs on its own tree, where every pattern of every cell changes the selection
    jobs.append({"tree": matrix_tree()})
    for c in matrix_cases:
        add_job(c.text, (c, "orig"))
        add_job(c.res["ser"], (c, "back"))
    drops = []          # (where, ai, si, key, index): the cell with one pattern removed must behave differently
    for where in (MATRIX_WHERE[1], "top"):
        for ai in range(5):
            for si in range(5):
                for key, shape in (("apply_to_files", MATRIX_APPLY[ai]), ("skip_files", MATRIX_SKIP[si])):
                    for idx in range(len(shape) if isinstance(shape, list) else (1 if shape else 0)):
                        base = matrix_config(where, ai, si)
                        if not isinstance(shape, list):
                            dropped = O((k, x) for k, x in (base if where == "top" else dict(base)["rules"][0]) if k != key)
                            dropped = dropped if where == "top" else obj(rules=[dropped], generator="retain_lines")
                        else:
                            dropped = matrix_config(where, ai, si, drop=(key, idx))
                        drops.append((render(base), render(dropped), key, idx))
                        add_job(render(base), (("drop", len(drops) - 1), "base"))
                        add_job(render(dropped), (("drop", len(drops) - 1), "dropped"))
    # configurations with a bundle block additionally bundle a project where every require-mode field matters
    bundle_cases = [c for c in cfg_cases if isinstance(c.value, O) and isinstance(dict(c.value).get("bundle"), O)]
    jobs.append({"tree": bundle_tree()})
    for c in bundle_cases:
        for which, text in (("orig-bundle", c.text), ("back-bundle", c.res["ser"])):
            jobs.append({"id": len(jobs), "config": text, "input": "src/main.luau", "output": "out/main.luau"})
            job_index.append((c, which))
    out = [a for a in talk(jobs)[1:] if "tree" not in a]
    beh = {}
    for (c, which), a in zip(job_index, out):
        if isinstance(c, tuple):
            beh[(c, which)] = (a["ok"], tuple(sorted(a["files"].items())))
            continue
        beh[(id(c), which)] = (a["ok"], tuple(e.split(" at line")[0] for e in a["errors"]), tuple(sorted(a["files"].items())))
        if a.get("panic"):
            panics.append(c)
    bundle_outputs = set()
    for c in bundle_cases:
        b0, b1 = beh[(id(c), "orig-bundle")], beh[(id(c), "back-bundle")]
        bundle_outputs.add(b0)
        if b0 != b1:
            findings.append(("roundtrip:behaviour:bundle",
                             "the round-tripped configuration bundles the probe project differently",
                             {"kind": c.kind, "text": c.text, "serialized": c.res["ser"], "errors": [b0[1], b1[1]],
                              "outputs": [dict(b0[2]).get("out/main.luau"), dict(b1[2]).get("out/main.luau")]}))
    from .c20 import glob_regex
    def spec_selection(cfg_text):
        """files the filters of a matrix configuration select, by the python reading of the globs (no darklua involved)"""
        cfg = loads(cfg_text)
        d = dict(cfg)
        rule = d["rules"][0]
        rd = dict(rule) if isinstance(rule, O) else {}
        def ok(flt, f):
            ap, sk = as_list(flt.get("apply_to_files")), as_list(flt.get("skip_files"))
            if ap and not any(glob_regex(p).fullmatch(f) for p in ap):
                return False
            return not any(glob_regex(p).fullmatch(f) for p in sk)
        return frozenset(f for f in MATRIX_FILES if ok(d, f) and ok(rd, f))
    for k, (base_text, dropped_text, key, idx) in enumerate(drops):
        if spec_selection(base_text) == spec_selection(dropped_text):
            # the design of the matrix itself is wrong: cannot be the fault of the code under test
            raise C.CheckBroken("matrix design: by the glob reading, pattern %d of %s in %s does not matter" % (idx, key, base_text))
        if beh[(("drop", k), "base")] == beh[(("drop", k), "dropped")] or not beh[(("drop", k), "base")][0]:
            where = "top-level" if "apply_to_files" in dict(loads(base_text)) or "skip_files" in dict(loads(base_text)) else "rule"
            findings.append(("matrix:pattern-does-not-matter:%s:%s" % (where, key),
                             "removing one pattern of a filter does not change the selection although the glob model says it must "
                             "(pattern %d of %s)" % (idx, key),
                             {"kind": "config", "text": base_text, "without_the_pattern": dropped_text,
                              "selected_by_glob_reading": [sorted(spec_selection(base_text)), sorted(spec_selection(dropped_text))],
                              "tree": "vlib/c19.py matrix_tree()", "run_ok": beh[(("drop", k), "base")][0]}))
    by_ser = {}
    compared = 0
    for c in cfg_cases + rule_level:
        b0, b1 = beh[(id(c), "orig")], beh[(id(c), "back")]
        compared += 1
        if b0 != b1:
            diff = [p for (p, x), (_, y) in zip(b0[2], b1[2]) if x != y]
            findings.append(("roundtrip:behaviour:" + rule_of(c) + ":" + props_of(c),
                             "the round-tripped configuration transforms files differently",
                             {"kind": c.kind, "text": c.text, "serialized": c.res["ser"], "files_differing": diff,
                              "errors": [b0[1], b1[1]]}))
        key = (c.kind, bool(c.tags.get("matrix")),
               render(canon_config(loads(c.res["ser"]), written=True)) if c.kind == "config" else render(canon_rule(loads(c.res["ser"]))))
        by_ser.setdefault(key, []).append((c, b0))
    for key, group in by_ser.items():
        c0, b0 = group[0]
        for c, b in group[1:]:
            if b != b0:
                findings.append(("injective:" + rule_of(c) + ":" + props_of(c if props_of(c) != "-" else c0),
                                 "two configurations that behave differently serialize to the same text",
                                 {"text_1": c0.text, "text_2": c.text, "serialized": c.res["ser"]}))
                break
    # 4e. the configuration read back from the serialized text MEANS the same (every default written out, python-side
    #     reading of the documentation): catches a value that is dropped or altered even when nothing observable on the
    #     probe tree depends on it and even when the written text is a fixed point
    groups = read_global_groups()
    meaning_compared = 0
    for c in accepted:
        if "ser_error" in c.res or not c.res["back"]["ok"] or c.tags.get("nomodel"):
            continue
        try:
            if c.kind == "rule":
                fa, fb = full_rule(c.value, groups), full_rule(loads(c.res["ser"]), groups)
            else:
                fa = full_config(c.value, groups, names_ans["default_rules"])
                fb = full_config(loads(c.res["ser"]), groups, names_ans["default_rules"])
        except (KeyError, TypeError, AttributeError, ValueError):
            continue        # not a documented shape (an accepted corruption: reported by 4a)
        if c.expect == "reject":
            continue
        meaning_compared += 1
        where = first_difference(fa, fb)
        if where:
            key = "roundtrip:meaning:%s:%s" % (rule_of(c), re.sub(r"\[\d+\]", "", where))
            if rule_of(c) == "inject_global_value" and re.search(r"props\.(value|default_value)", where):
                key = "strict:inject_global_value:value:require-mode-capture"
            if where.endswith("props.globals"):
                ra = fa if c.kind == "rule" else fa["rules"][int(re.search(r"rules\[(\d+)\]", where).group(1))]
                rb = fb if c.kind == "rule" else fb["rules"][int(re.search(r"rules\[(\d+)\]", where).group(1))]
                if sorted(set(ra["props"]["globals"]) | set(groups["$default"])) == rb["props"]["globals"]:
                    key = "strict:rename_variables:globals-extend-default"
            findings.append((key, "the configuration read back from its serialized text means something else (at %s)" % where,
                             {"kind": c.kind, "text": c.text, "serialized": c.res["ser"], "differs_at": where}))

    # 4d. `means exactly what it says`: the value injected by inject_global_value is the JSON value of the configuration
    inj = [{"tree": {"src/v.lua": "return _G.FLAG\n"}}]
    inj_cases = []
    for props in cat["inject_global_value"]:
        d = dict(props)
        if "value" in d and d.get("identifier") == "FLAG":
            inj_cases.append(d["value"])
            inj.append({"id": len(inj), "input": "src",
                        "config": render(obj(generator="dense", rules=[O([("rule", "inject_global_value")] + list(props))]))})
    inj_out = talk(inj)[1:]
    for v, a in zip(inj_cases, inj_out):
        got_text = a["files"].get("src/v.lua", "")
        try:
            got = parse_lua_value(got_text[len("return"):].strip()) if got_text.startswith("return") else ("unreadable", got_text)
        except (ValueError, IndexError, AssertionError):
            got = ("unreadable", got_text)
        want = json_as_lua(v)
        if isinstance(want, dict) and not want:
            want = []
        if got != want:
            cause = "require-mode-capture" if (isinstance(got, dict) and "use_luau_configuration" in got) or \
                (isinstance(got, dict) and isinstance(v, list)) else "other"
            findings.append(("strict:inject_global_value:value:" + cause,
                             "inject_global_value injects something else than the configured value",
                             {"value": render(v), "injected_lua": got_text, "expected": want}))

    ctx.stream("corrupted / undocumented configurations are rejected, documented ones accepted (Rust only)",
               sum(1 for c in cases if c.expect), sum(1 for c in cases if c.expect == "reject"), [],
               findings=sum(1 for k, _, _ in findings if k.startswith(("strict:", "accept:"))))
    ctx.stream("serialize -> read back (json5 and serde_json) -> serialize is a fixed point (Rust only)",
               len(accepted), len(accepted), [], findings=sum(1 for k, _, _ in findings if k.startswith("roundtrip:") and "behaviour" not in k))
    ctx.stream("process(): configuration vs its round-tripped text on the probe tree; same text => same behaviour (Rust only)",
               compared * 2, compared, [], findings=sum(1 for k, _, _ in findings if "behaviour" in k or k.startswith("injective")),
               serialized_texts=len(by_ser))
    ctx.stream("meaning (all defaults written out) of a configuration == meaning of its serialized text read back (Rust only)",
               meaning_compared, meaning_compared, [], findings=sum(1 for k, _, _ in findings if k.startswith("roundtrip:meaning")))
    ctx.stream("bundle block: probe project bundled under the configuration vs under its round-tripped text (Rust only)",
               2 * len(bundle_cases), len(bundle_outputs), [], findings=sum(1 for k, _, _ in findings if k == "roundtrip:behaviour:bundle"))
    ctx.stream("filter shapes: apply x skip in {absent, string, 1, 2, 3 patterns}^2 with distinct patterns, on 4 rules and at the top "
               "level: configuration vs round-tripped text on a tree where every pattern of every cell matters (Rust only)",
               2 * len(matrix_cases) + 2 * len(drops), len(matrix_cases), [],
               findings=sum(1 for k, _, r in findings if "behaviour" in k and any(r.get("text") == c.text for c in matrix_cases)),
               cells=len(matrix_cases), single_pattern_removals_checked=len(drops))
    ctx.stream("inject_global_value: injected Lua value read back == configured JSON value (Rust only)",
               len(inj_cases), len(inj_cases), [], findings=sum(1 for k, _, _ in findings if k.startswith("strict:inject")))

    ctx.debug = {"findings": findings, "bad": [(cases[i].text, cases[i].res, d) for i, d in bad]}
    reported = set()
    for key, what, replay in findings:
        if key in reported:
            continue
        reported.add(key)
        ctx.violation(what, replay, key=key)
    for c in panics[:2]:
        ctx.violation("panic while reading or applying a configuration", {"kind": c.kind, "text": c.text}, key="panic:" + c.text[:50])

    if (bad or names_bad or idem_bad) and not ctx.violations:
        if bad:
            idx, diag = bad[0]
            c = cases[idx]
            rep = {"stream": "model-vs-code", "kind": c.kind, "text": c.text, "why": c.why,
                   "rust": c.res.get("ser", "REJECT: " + str(c.res.get("error"))), "diag": diag[:1500], "mismatches": len(bad),
                   "more": [cases[i].text[:200] for i, _ in bad[1:6]]}
        elif names_bad:
            rep = {"stream": "rule names", "rust_names": names, "rust_default_rules": names_ans["default_rules"]}
        else:
            rep = {"stream": "idempotence of oracle normal forms", "entries": idem_bad[:5]}
        ctx.violation("correspondence broken: the Rust (de)serializer differs from Model/Config (theorems no longer apply to the "
                      "code); no accepted corruption, unreadable or behaviour-changing round trip was found beyond the known ones",
                      rep, found_input=False)
    if not proofs_ok and not ctx.violations:
        failed = [n for n, ok, _ in ctx.obligations if not ok]
        ctx.violation("proof obligation no longer checks: " + "; ".join(failed), {"obligations": failed}, found_input=False)


def rule_of(c):
    if c.tags.get("rule"):
        return c.tags["rule"]
    v = c.value
    if c.kind == "config" and isinstance(v, O):
        for k, x in v:
            if k in ("rules", "process") and isinstance(x, list) and len(x) == 1:
                r = x[0]
                return dict(r).get("rule", "?") if isinstance(r, O) else str(r)
        return "config"
    return "?"


def props_of(c):
    ps = c.tags.get("props")
    if ps:
        return "+".join(sorted(ps))
    return "-"


def strict_key(c):
    if c.tags.get("nested"):
        return "strict:duplicate-key:map-value:" + c.tags["nested"]
    w = c.why
    v = c.value
    if c.kind == "config" and isinstance(v, O):
        g = dict(v).get("generator")
        if isinstance(g, O) and dict(g).get("name") in ("retain_lines", "retain-lines") and len(g) > 1:
            return "strict:generator:retain_lines:extra-key"
    if "convert_require" in w and re.search(r"(current|target) = \[", w):
        return "strict:convert_require:require-mode-from-array"
    m = re.search(r"(misspelt key|duplicate key|wrong kind|extra property|unknown rule name|unknown top-level key|invalid glob|grid)", w)
    return "strict:%s:%s" % (m.group(1).replace(" ", "-") if m else "other", w[-70:].replace(" ", "_"))


def replay(ctx, path):
    r = json.load(open(path))
    print(json.dumps(r, indent=1))
    rep = r.get("replay", {})
    if "text" in rep:
        C.build_harness("dl-c19")
        print(json.dumps(talk([{rep.get("kind", "config"): rep["text"]}])[0], indent=1))
    return 0
