"""C12 - no input or configuration crashes darklua (partial by nature, see DESIGN.md)."""
from . import common as C

META = {
    "title": "No input or configuration crashes darklua",
    "level": "proof",
    "design_ref": "DESIGN.md section 6 / C12",
    "technique": "Coq totality theorems for the partial operations that sit in modelled code (name generator, "
                 "dense generator buffer, token reads) + catch_unwind / watchdog differential runs (labelled test)",
    "level_text": "A Coq model cannot exhibit a Rust panic or a native stack overflow, and the parser is a third-party crate; "
                  "what is proved is the absence of the logic-level failure at the panic sites that sit in modelled code "
                  "(each partial operation is total on reachable states). Everything else - arbitrary bytes into the parser, "
                  "hangs, every rule sequence, generators at column spans 0 and 1, re-parse of every output - is exercised on "
                  "every run under catch_unwind and a wall-clock watchdog; that part is a test, not a proof.",
    "level_note": "PARTIAL: panics, hangs and stack depth are runtime behaviour the model cannot exhibit. Trusted: Coq kernel; "
                  "the models whose totality theorems are imported; harness dl-c12. Nesting depth is bounded by the generator "
                  "(deep nesting exhausts the parser dependency's native stack and is outside the claim).",
    "trusted_base": ["Coq 8.16.1 kernel", "harness/crates/c12 (catch_unwind, 20 s watchdog per call)",
                     "models of the name generator / dense generator / token generator (see their properties)"],
    "allowed_axioms": [],
    "rule": "per seeded case: 1 random byte string (<= 48 bytes over a syntax-heavy alphabet), 1 generated valid program, "
            "6 mutations of it (byte substitution, insertion of multi-byte / escape / bracket fragments, deletion, truncation), "
            "every truncation offset for one program in eight, and 3 random rule chains (0-4 rules out of 37 rule "
            "configurations) x 8 generator settings (column spans 0, 1, 7, default); non-trivial = a valid program pushed "
            "through process() with at least one rule; distinct by input bytes",
    "assumptions": ["full_moon (third-party parser) is exercised, not modelled"],
}


def run(ctx):
    C.build_harness("dl-c12")
    proofs_ok = C.proof_gate(ctx)
    n = 800 if ctx.tier == "quick" else 8000
    out = C.harness("dl-c12", ["fuzz", "--seed", str(ctx.seed), "--n", str(n)], timeout=3000)
    findings, stats = [], {}
    for line in out.splitlines():
        parts = line.split("\t")
        if parts[0] == "STATS":
            stats = dict(p.split("=") for p in parts[1:])
        elif len(parts) == 4:
            findings.append(parts)
    if not stats:
        raise C.CheckBroken("dl-c12 did not finish (no STATS line):\n" + out[-1000:])
    ctx.stream("parser on random / mutated / truncated inputs under catch_unwind + watchdog",
               int(stats.get("parse_attempts", 0)), int(stats.get("valid_programs", 0)),
               [{"kind": "generated program, its mutations and truncations", "count": stats.get("parse_attempts")}])
    ctx.stream("process(): random rule chains x generators x column spans; output re-parsed",
               int(stats.get("process_runs", 0)), int(stats.get("process_runs", 0)),
               [{"rule_errors_reported_as_values": stats.get("rule_errors")}])
    seen = set()
    for kind, detail, config, input_hex in findings:
        key = classify(kind, detail, config, input_hex)
        sig = (kind, detail[:60], key)
        if sig in seen:
            continue
        seen.add(sig)
        text = bytes.fromhex(input_hex).decode("utf-8", "replace")
        ctx.violation("%s: %s" % (kind, detail[:300]),
                      {"kind": kind, "detail": detail[:2000], "configuration": config, "input_hex": input_hex,
                       "input": text[:4000],
                       "replay": "feed the input (UTF-8, lossy) to darklua_core::Parser / process with this configuration"},
                      key=key)
    if not proofs_ok and not ctx.violations:
        failed = [n for n, ok, _ in ctx.obligations if not ok]
        ctx.violation("proof obligation no longer checks: " + "; ".join(failed), {"obligations": failed},
                      found_input=False)


def classify(kind, detail, config, input_hex):
    text = bytes.fromhex(input_hex).decode("utf-8", "replace")
    if kind == "OUTPUT-UNPARSABLE" and "dense" in config and "compute_expression" in config and "..-0" not in text:
        # C02 finding: a folded negative number written right before `..` by the dense generator
        import re
        if re.search(r"-0\.\.|-\d+\.\.", detail):
            return "fusion:negative-number-before-concat"
    return None


def replay(ctx, path):
    import json
    print(json.dumps(json.load(open(path)), indent=1))
    return 0
