"""C13 - string and number literals survive generation exactly."""
import re

from . import common as C

FLOCQ_AXIOMS = ["ClassicalDedekindReals.sig_not_dec", "ClassicalDedekindReals.sig_forall_dec",
                "FunctionalExtensionality.functional_extensionality_dep", "Classical_Prop.classic"]

META = {
    "title": "String and number literals survive generation exactly",
    "level": "proof",
    "design_ref": "DESIGN.md section 6 / C13",
    "technique": "Coq proof of decode-after-write identity on Gallina models of the literal writers (strings: every "
                 "quoting form; numbers: the hexadecimal, binary, non-finite and integer-valued decimal arms of "
                 "write_number against the model of NumberExpression::from_str); models tied to the Rust code by "
                 "differential runs evaluated inside Coq (vm_compute)",
    "level_text": "Machine-checked theorems (Coq 8.16 kernel) that the modelled writer's output decodes to the "
                  "same bytes for every byte string; the model is compared with the compiled Rust functions "
                  "on exhaustive short strings and structured long ones on every run, and the Rust output is "
                  "additionally decoded by the Coq reference decoder. Numbers: theorems that every hexadecimal / "
                  "binary node (any u64 value, any u32 exponent) is written to a text that darklua's reader model reads "
                  "back as the same node, and that for every node the writer model covers (also the non-finite values "
                  "and integer-valued decimal nodes below 2^53, by bit pattern) the written text passes the very oracle "
                  "the per-run check evaluates (C13_write_number_model_value_kept); on every run the bytes written by "
                  "the real write_number are compared with the writer model on those arms, the reader model with the "
                  "real from_str on literal texts, and every written number (all arms, incl. fractions and recorded "
                  "exponents, which depend on Rust's float printer and are NOT covered by a theorem) is read back "
                  "with exact decimal-to-binary conversion.",
    "level_note": "Trusted: Coq kernel + vm_compute; the reference decoders in Model/StringLit.v (specification); "
                  "Model/NumberLit.v (reader) and Lib/F64.v exact decimal->binary conversion (specification side of the number "
                  "oracle); the harness and hex transport; the fraction / recorded-exponent arms of write_number rely on "
                  "Rust's float formatting and are validated per run only. One theorem (C13_write_dec_int_reads_value) uses "
                  "the four classical / extensionality axioms of the standard library through Flocq; all others are closed.",
    "trusted_base": ["Coq 8.16.1 kernel, vm_compute", "Model/StringLit.v reference decoders (specification)",
                     "harness/src/c13.rs + hex transport", "rustc/std for fmt and parse of f64"],
    "allowed_axioms": FLOCQ_AXIOMS,  # used by C13_write_dec_int_reads_value only (float validity from Flocq)
    "rule": "all byte strings of length <= 1, all pairs over a 52-byte alphabet (quick) or all 65536 pairs (thorough), "
            "then seeded structured strings (bracket runs, control+digit, quotes, UTF-8 incl. boundary code points, "
            "threshold lengths); a case is non-trivial when the written literal contains an escape or is a long bracket; "
            "distinct by input bytes",
    "assumptions": ["Luau/Lua 5.1 escape rules are as written in Model/StringLit.v (unescape_from)",
                    "the reference reader treats backslash + CR LF inside a quoted string as malformed (Lua reads one line "
                    "break) and skips a lone CR / LF CR after the opening long bracket as Lua 5.1 does: such source "
                    "spellings are left out of the source-literal stream"],
}

PREAMBLE = """From DL Require Import Lib.Bytes Model.StringLit.
Open Scope N_scope.
Open Scope string_scope.
Definition model_ok (c : string * string) : bool := bytes_eqb (write_string (unhex (fst c))) (unhex (snd c)).
Definition oracle_ok (c : string * string) : bool :=
  match decode_literal true (unhex (snd c)) with
  | Some v => bytes_eqb v (unhex (fst c))
  | None => false
  end.
Definition check_case (c : string * string) : bool := model_ok c && oracle_ok c.
Definition diag_case (c : string * string) : string :=
  ((if model_ok c then "model=ok" else "model=" ++ tohex (write_string (unhex (fst c)))) ++
   (if oracle_ok c then " oracle=ok" else " oracle=FAIL"))%string.
"""


NUM_PREAMBLE = """From Coq Require Import ZArith.
From Coq Require Import Floats.SpecFloat.
From DL Require Import Lib.Bytes Lib.F64 Lua.Syntax Model.NumberLit Model.NumberValue.
Open Scope N_scope.
Open Scope string_scope.
(* lit_value / numeral_shape / text_value: Model/NumberValue.v (the definitions the value theorems are about) *)
Definition check_case (c : number * string) : bool :=
  match text_value (unhex (snd c)) with
  | Some v => same_f64 v (lit_value (fst c))
  | None => false
  end.
Definition diag_case (c : number * string) : string :=
  match text_value (unhex (snd c)) with
  | Some v => "reads back as bits " ++ tohex (dec_digits (to_bits v))
  | None => "does not read back as a number"
  end.
"""

WRITE_PREAMBLE = """From Coq Require Import ZArith.
From DL Require Import Lib.Bytes Lib.F64 Lua.Syntax Model.NumberLit Model.NumberWrite.
Open Scope N_scope.
Open Scope string_scope.
(* 0 = the arm is modelled and the model writes the same bytes as the code; 1 = arm not modelled
   (fraction / recorded exponent: Rust's float printer); 2 = modelled arm, different bytes *)
Definition stat_case (c : number * string) : N :=
  match write_number_model (fst c) with
  | None => 1
  | Some t => if bytes_eqb t (unhex (snd c)) then 0 else 2
  end.
"""

PARSE_PREAMBLE = """From Coq Require Import ZArith.
From DL Require Import Lib.Bytes Lib.F64 Lua.Syntax Model.NumberLit.
Open Scope N_scope.
Open Scope string_scope.
Definition oexp_eqb {A} (eqb : A -> A -> bool) (a b : option (A * bool)) : bool :=
  match a, b with
  | None, None => true
  | Some (x, u), Some (y, v) => eqb x y && Bool.eqb u v
  | _, _ => false
  end.
Definition number_eqb (a b : number) : bool :=
  match a, b with
  | NDec x e, NDec y f => N.eqb x y && oexp_eqb Z.eqb e f
  | NHex x u e, NHex y v f => N.eqb x y && Bool.eqb u v && oexp_eqb N.eqb e f
  | NBin x u, NBin y v => N.eqb x y && Bool.eqb u v
  | _, _ => false
  end.
Definition check_case (c : string * option number) : bool :=
  match from_str (unhex (fst c)), snd c with
  | Some a, Some b => number_eqb a b
  | None, None => true
  | _, _ => false
  end.
Definition diag_case (c : string * option number) : string :=
  match from_str (unhex (fst c)) with Some _ => "model accepts" | None => "model rejects" end.
"""


SEG_PREAMBLE = """From DL Require Import Lib.Bytes Model.StringLit.
Open Scope N_scope.
Open Scope string_scope.
Definition model_ok (c : string * string) : bool := bytes_eqb (segment_bytes (unhex (fst c))) (unhex (snd c)).
Definition oracle_ok (c : string * string) : bool :=
  match decode_segment (unhex (snd c)) with
  | Some v => bytes_eqb v (unhex (fst c))
  | None => false
  end.
Definition check_case (c : string * string) : bool := model_ok c && oracle_ok c.
Definition diag_case (c : string * string) : string :=
  ((if model_ok c then "model=ok" else "model=" ++ tohex (segment_bytes (unhex (fst c)))) ++
   (if oracle_ok c then " oracle=ok" else " oracle=FAIL"))%string.
"""


def run_segments(ctx):
    """literal parts of interpolated strings: write_interpolated_string_segment vs Model segment_bytes, the Coq
    reference reader on the Rust output, and the segment inside the text of both generators"""
    n = 600 if ctx.tier == "quick" else 8000
    out = C.harness("dl-c13", ["segments", "--seed", str(ctx.seed), "--n", str(n)])
    cases, seen, nontrivial, misplaced = [], set(), 0, []
    for line in out.splitlines():
        parts = line.split()
        if len(parts) != 4 or parts[0] in seen:
            continue
        hin, hout, hdense, hreadable = parts
        seen.add(hin)
        cases.append((len(cases), '(%s, %s)' % (C.coq_string(hin), C.coq_string(hout)), hin, hout))
        written = bytes.fromhex(hout)
        if b"\\" in written:
            nontrivial += 1
        for name, text in (("dense", bytes.fromhex(hdense)), ("readable", bytes.fromhex(hreadable))):
            if b"`" + written + b"{" not in text:
                misplaced.append((name, hin, hout, text))
    bad = C.run_coq_cases(ctx.prop, SEG_PREAMBLE, [(c[0], c[1]) for c in cases], chunk=600)
    ctx.stream("interpolated string segments: model vs Rust, Coq reference reader on the Rust output, generators' text",
               len(cases), nontrivial,
               [{"input_hex": c[2], "written": bytes.fromhex(c[3]).decode("latin-1")} for c in cases[700:703]],
               mismatches=len(bad) + len(misplaced))
    model_mismatch = []
    for cid, diag in bad:
        _, _, hin, hout = cases[cid]
        if "oracle=FAIL" in diag:
            ctx.violation("written interpolated-string segment does not read back as the value (Coq reference reader)",
                          {"input_hex": hin, "written_hex": hout, "written": bytes.fromhex(hout).decode("latin-1"),
                           "diag": diag, "replay": "dl-c13 segments; write_interpolated_string_segment(StringSegment::from_value(bytes))"},
                          key="segment:" + hin)
        else:
            model_mismatch.append((hin, hout, diag))
    for name, hin, hout, text in misplaced[:2]:
        ctx.violation("the %s generator does not write the segment as write_interpolated_string_segment does" % name,
                      {"input_hex": hin, "segment_hex": hout, "generator_text": text.decode("latin-1")},
                      key="segment-text:" + hin)
    return model_mismatch


STRPARSE_PREAMBLE = """From DL Require Import Lib.Bytes Model.StringLit.
Open Scope N_scope.
Open Scope string_scope.
(* case = (literal text, value darklua reads or "ERR") *)
Definition check_case (c : string * string) : bool :=
  match decode_literal true (unhex (fst c)) with
  | Some v => if String.eqb (snd c) "ERR" then false else bytes_eqb v (unhex (snd c))
  | None => String.eqb (snd c) "ERR"
  end.
Definition diag_case (c : string * string) : string :=
  match decode_literal true (unhex (fst c)) with
  | Some v => "reference value " ++ tohex v
  | None => "reference rejects the literal"
  end.
"""


def run_strparse(ctx):
    """source spellings of string literals: the value darklua's reader gives = the reference decoder's (Luau rules)"""
    n = 300 if ctx.tier == "quick" else 4000
    out = C.harness("dl-c13", ["strparse", "--seed", str(ctx.seed), "--n", str(n)])
    cases, seen = [], set()
    for line in out.splitlines():
        parts = line.split()
        if len(parts) != 2 or parts[0] in seen:
            continue
        seen.add(parts[0])
        cases.append((len(cases), '(%s, %s)' % (C.coq_string(parts[0]), '"ERR"' if parts[1] == "ERR" else C.coq_string(parts[1])),
                      parts[0], parts[1]))
    bad = C.run_coq_cases(ctx.prop, STRPARSE_PREAMBLE, [(c[0], c[1]) for c in cases], chunk=400, tag="strparse")
    crlf = sum(1 for c in cases if "0d0a" in c[2])
    ctx.stream("string literals of the source: darklua's reader vs the Coq reference decoder", len(cases), crlf,
               [{"literal": bytes.fromhex(c[2]).decode("latin-1"), "value_hex": c[3]} for c in cases[5:8]],
               mismatches=len(bad))
    for cid, diag in bad[:3]:
        _, _, hlit, hval = cases[cid]
        ctx.violation("darklua reads a string literal of the source as a different value than Lua/Luau do",
                      {"literal_hex": hlit, "literal": bytes.fromhex(hlit).decode("latin-1"), "darklua_value_hex": hval,
                       "diag": diag, "replay": "StringExpression::new(literal)"}, key="strparse:" + hlit)


def run_gens(ctx):
    """literals written by each generator (dense, readable, token-based without tokens) from token-less trees:
    numbers re-read by the Coq reference (same oracle as write_number), strings inside index brackets and table keys
    re-read by darklua's parser and compared with the dense rendering"""
    n = 30 if ctx.tier == "quick" else 600
    out = C.harness("dl-c13", ["gens", "--seed", str(ctx.seed), "--n", str(n)])
    num_cases, seen, str_total, str_bad = [], set(), 0, []
    for line in out.splitlines():
        parts = line.split("\t")
        if parts[0] == "NUM" and len(parts) == 4:
            text = bytes.fromhex(parts[3]).decode("latin-1").strip()
            if not text.startswith("return"):
                continue
            literal = text[len("return"):].strip()
            key = (parts[1], parts[2], literal)
            if key in seen:
                continue
            seen.add(key)
            num_cases.append((len(num_cases), "(%s, %s)" % (parts[1], C.coq_string(literal.encode("latin-1").hex())),
                              parts[1], parts[2], literal))
        elif parts[0] == "STR" and len(parts) == 6:
            str_total += 1
            if parts[5] != "ok":
                str_bad.append(parts)
    bad = C.run_coq_cases(ctx.prop, NUM_PREAMBLE, [(c[0], c[1]) for c in num_cases], chunk=400, tag="gens")
    ctx.stream("numbers written by each generator from token-less nodes (incl. non-finite values with exponents)",
               len(num_cases), len(num_cases), [{"number": c[2], "generator": c[3], "written": c[4]} for c in num_cases[:3]],
               mismatches=len(bad))
    ctx.stream("strings in index brackets / table keys written by each generator, re-read by darklua's parser",
               str_total, str_total, [], mismatches=len(str_bad))
    for cid, diag in bad[:3]:
        _, _, term, generator, literal = num_cases[cid]
        ctx.violation("a number written by the %s generator does not read back as the same double" % generator,
                      {"number": term, "generator": generator, "written": literal, "diag": diag}, key="gen-number:" + term + generator)
    for _, generator, shape, hval, htext, verdict in str_bad[:3]:
        ctx.violation("a string written by the %s generator inside %s is not read back as the same tree (%s)" % (generator, shape, verdict),
                      {"generator": generator, "shape": shape, "value_hex": hval,
                       "written": bytes.fromhex(htext).decode("latin-1")}, key="gen-string:" + generator + shape + hval)


def run_numbers(ctx):
    n = 600 if ctx.tier == "quick" else 20000
    out = C.harness("dl-c13", ["numbers", "--seed", str(ctx.seed), "--n", str(n)])
    cases, seen = [], set()
    for line in out.splitlines():
        parts = line.split("\t")
        if len(parts) != 2 or line in seen:
            continue
        seen.add(line)
        cases.append((len(cases), "(%s, %s)" % (parts[0], C.coq_string(parts[1])), parts[0], parts[1]))
    bad = C.run_coq_cases(ctx.prop, NUM_PREAMBLE, [(c[0], c[1]) for c in cases], chunk=400, tag="numbers")
    nontrivial = sum(1 for c in cases if len(c[3]) > 2)
    ctx.stream("write_number: written text read back (exact decimal->binary) vs the number's value",
               len(cases), nontrivial,
               [{"number": c[2], "written": bytes.fromhex(c[3]).decode()} for c in cases[40:43]], mismatches=len(bad))
    for cid, diag in bad[:3]:
        c = cases[cid]
        ctx.violation("a written number does not read back as the same double",
                      {"number": c[2], "written": bytes.fromhex(c[3]).decode("latin-1"), "diag": diag,
                       "replay": "generator_utils::write_number on this NumberExpression"},
                      key="number-write:" + c[2])

    # Model/NumberWrite.v (hex, binary, non-finite and integer-valued decimal arms) against the bytes the code wrote
    stats = C.run_coq_stats(ctx.prop, WRITE_PREAMBLE, [(c[0], c[1]) for c in cases], chunk=400, tag="numwrite")
    modelled = [c for c in cases if stats[c[0]] != 1]
    differ = [c for c in cases if stats[c[0]] == 2]
    ctx.stream("write_number: Rust vs Model/NumberWrite.write_number_model on the modelled arms (hex, binary, non-finite, "
               "integer-valued decimal without exponent)", len(modelled), len(set(c[3] for c in modelled)),
               [{"number": c[2], "written": bytes.fromhex(c[3]).decode()} for c in modelled[5:8]], mismatches=len(differ))
    if differ and not bad:
        c = differ[0]
        ctx.violation("correspondence broken: write_number differs from Model/NumberWrite.write_number_model on %d numbers "
                      "(theorems C13_write_hex_roundtrip / C13_write_bin_roundtrip no longer describe the code)" % len(differ),
                      {"stream": "write_number model-vs-code", "number": c[2],
                       "written": bytes.fromhex(c[3]).decode("latin-1")}, found_input=False)

    out = C.harness("dl-c13", ["parse", "--seed", str(ctx.seed), "--n", str(n)])
    cases, seen = [], set()
    for line in out.splitlines():
        parts = line.split("\t")
        if len(parts) != 2 or parts[0] in seen:
            continue
        seen.add(parts[0])
        if parts[1] == "PANIC":
            ctx.violation("NumberExpression::from_str panicked", {"text_hex": parts[0],
                          "text": bytes.fromhex(parts[0]).decode("utf-8", "replace")}, key="number-parse-panic:" + parts[0])
            continue
        exp = "(@None number)" if parts[1] == "ERR" else "(Some %s)" % parts[1]
        cases.append((len(cases), "(%s, %s)" % (C.coq_string(parts[0]), exp), parts[0], parts[1]))
    bad = C.run_coq_cases(ctx.prop, PARSE_PREAMBLE, [(c[0], c[1]) for c in cases], chunk=400, tag="parse")
    accepted = sum(1 for c in cases if c[3] != "ERR")
    ctx.stream("NumberExpression::from_str: Rust vs Model/NumberLit.from_str (grammar, radix, underscores, exact value)",
               len(cases), accepted, [{"text": bytes.fromhex(c[2]).decode("utf-8", "replace"), "rust": c[3]} for c in cases[5:8]],
               mismatches=len(bad))
    if bad and not ctx.violations:
        cid, diag = bad[0]
        c = cases[cid]
        ctx.violation("correspondence broken: NumberExpression::from_str differs from Model/NumberLit.from_str on %d texts"
                      % len(bad), {"stream": "from_str model-vs-code", "text": bytes.fromhex(c[2]).decode("utf-8", "replace"),
                                   "rust": c[3], "diag": diag}, found_input=False)


def run(ctx):
    C.build_harness("dl-c13")
    proofs_ok = C.proof_gate(ctx, ["Model/NumberLit.vo", "Model/NumberWrite.vo", "Model/NumberValue.vo"])
    run_numbers(ctx)
    run_strparse(ctx)
    run_gens(ctx)
    segment_mismatch = run_segments(ctx)

    n = 1500 if ctx.tier == "quick" else 20000
    args = ["strings", "--seed", str(ctx.seed), "--n", str(n)]
    if ctx.tier != "quick":
        args.append("--exhaustive2")
    out = C.harness("dl-c13", args)
    cases = []
    seen = set()
    nontrivial = 0
    readback_bad = []
    for line in out.splitlines():
        parts = line.split()
        if len(parts) != 3:
            continue
        hin, hout, back = parts
        if hin in seen:
            continue
        seen.add(hin)
        cid = len(cases)
        cases.append((cid, '(%s, %s)' % (C.coq_string(hin), C.coq_string(hout)), hin, hout))
        written = bytes.fromhex(hout)
        if b"\\" in written or written.startswith(b"["):
            nontrivial += 1
        if back != hin:
            readback_bad.append((hin, hout, back))
    bad = C.run_coq_cases(ctx.prop, PREAMBLE, [(c[0], c[1]) for c in cases], chunk=600 if ctx.tier == "quick" else 1500)
    samples = [{"input_hex": c[2], "written": bytes.fromhex(c[3]).decode("latin-1")} for c in cases[300:303]]
    ctx.stream("write_string: model vs Rust, and Coq reference decoder on the Rust output",
               len(cases), nontrivial, samples, mismatches=len(bad))
    ctx.stream("darklua's own literal reader on the written literal", len(cases), nontrivial, [],
               mismatches=len(readback_bad))

    model_mismatch = []
    for cid, diag in bad:
        _, _, hin, hout = cases[cid]
        if "oracle=FAIL" in diag:
            ctx.violation("written literal does not decode to the value (Coq reference decoder)",
                          {"input_hex": hin, "written_hex": hout, "written": bytes.fromhex(hout).decode("latin-1"),
                           "diag": diag, "replay": "dlharness c13 strings; write_string(bytes.fromhex(input_hex))"},
                          key="decode:" + hin)
        else:
            model_mismatch.append((hin, hout, diag))
    for hin, hout, back in readback_bad[:3]:
        ctx.violation("darklua reads its own written literal back as different bytes",
                      {"input_hex": hin, "written_hex": hout, "read_back_hex": back}, key="readback:" + hin)
    if model_mismatch and not ctx.violations:
        hin, hout, diag = model_mismatch[0]
        ctx.violation("correspondence broken: Rust write_string differs from Model/StringLit.write_string "
                      "(theorems no longer apply to the code); every written literal still decodes correctly",
                      {"stream": "write_string model-vs-code", "input_hex": hin, "rust_written_hex": hout, "diag": diag,
                       "mismatches": len(model_mismatch)}, found_input=False)
    if segment_mismatch and not ctx.violations:
        hin, hout, diag = segment_mismatch[0]
        ctx.violation("correspondence broken: Rust write_interpolated_string_segment differs from Model/StringLit.segment_bytes "
                      "(theorems no longer apply to the code); every written segment still reads back correctly",
                      {"stream": "segment model-vs-code", "input_hex": hin, "rust_written_hex": hout, "diag": diag,
                       "mismatches": len(segment_mismatch)}, found_input=False)
    if not proofs_ok and not ctx.violations:
        failed = [n for n, ok, _ in ctx.obligations if not ok]
        ctx.violation("proof obligation no longer checks: " + "; ".join(failed),
                      {"obligations": failed}, found_input=False)


def replay(ctx, path):
    import json
    r = json.load(open(path))
    print(json.dumps(r, indent=1))
    return 0
