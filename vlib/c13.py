"""C13 - string and number literals survive generation exactly."""
import re

from . import common as C

META = {
    "title": "String and number literals survive generation exactly",
    "level": "proof",
    "design_ref": "DESIGN.md section 6 / C13",
    "technique": "Coq proof of decode-after-write identity on a Gallina model of the literal writers; "
                 "model tied to the Rust code by differential runs evaluated inside Coq (vm_compute)",
    "level_text": "Machine-checked theorems (Coq 8.16 kernel) that the modelled writer's output decodes to the "
                  "same bytes for every byte string; the model is compared with the compiled Rust functions "
                  "on exhaustive short strings and structured long ones on every run, and the Rust output is "
                  "additionally decoded by the Coq reference decoder.",
    "level_note": "Trusted: Coq kernel + vm_compute; the reference decoders in Model/StringLit.v (specification); "
                  "the harness and hex transport; decimal<->binary conversion of numbers is an oracle (Rust fmt/parse).",
    "trusted_base": ["Coq 8.16.1 kernel, vm_compute", "Model/StringLit.v reference decoders (specification)",
                     "harness/src/c13.rs + hex transport", "rustc/std for fmt and parse of f64"],
    "allowed_axioms": [],
    "rule": "all byte strings of length <= 1, all pairs over a 52-byte alphabet (quick) or all 65536 pairs (thorough), "
            "then seeded structured strings (bracket runs, control+digit, quotes, UTF-8 incl. boundary code points, "
            "threshold lengths); a case is non-trivial when the written literal contains an escape or is a long bracket; "
            "distinct by input bytes",
    "assumptions": ["Luau/Lua 5.1 escape rules are as written in Model/StringLit.v (unescape_from)"],
}

PREAMBLE = """From DL Require Import Lib.Bytes Model.StringLit.
Open Scope N_scope.
Open Scope string_scope.
Definition model_ok (c : string * string) : bool := bytes_eqb (write_string (unhex (fst c))) (unhex (snd c)).
Definition oracle_ok (c : string * string) : bool :=
  match decode_literal true (unhex (snd c)) with
  | Some v => bytes_eqb v (unhex (fst c))
  | None => false
  end.
Definition check_case (c : string * string) : bool := model_ok c && oracle_ok c.
Definition diag_case (c : string * string) : string :=
  ((if model_ok c then "model=ok" else "model=" ++ tohex (write_string (unhex (fst c)))) ++
   (if oracle_ok c then " oracle=ok" else " oracle=FAIL"))%string.
"""


def run(ctx):
    C.build_harness("dl-c13")
    proofs_ok = C.proof_gate(ctx)

    n = 1500 if ctx.tier == "quick" else 20000
    args = ["strings", "--seed", str(ctx.seed), "--n", str(n)]
    if ctx.tier != "quick":
        args.append("--exhaustive2")
    out = C.harness("dl-c13", args)
    cases = []
    seen = set()
    nontrivial = 0
    readback_bad = []
    for line in out.splitlines():
        parts = line.split()
        if len(parts) != 3:
            continue
        hin, hout, back = parts
        if hin in seen:
            continue
        seen.add(hin)
        cid = len(cases)
        cases.append((cid, '(%s, %s)' % (C.coq_string(hin), C.coq_string(hout)), hin, hout))
        written = bytes.fromhex(hout)
        if b"\\" in written or written.startswith(b"["):
            nontrivial += 1
        if back != hin:
            readback_bad.append((hin, hout, back))
    bad = C.run_coq_cases(ctx.prop, PREAMBLE, [(c[0], c[1]) for c in cases], chunk=600 if ctx.tier == "quick" else 1500)
    samples = [{"input_hex": c[2], "written": bytes.fromhex(c[3]).decode("latin-1")} for c in cases[300:303]]
    ctx.stream("write_string: model vs Rust, and Coq reference decoder on the Rust output",
               len(cases), nontrivial, samples, mismatches=len(bad))
    ctx.stream("darklua's own literal reader on the written literal", len(cases), nontrivial, [],
               mismatches=len(readback_bad))

    model_mismatch = []
    for cid, diag in bad:
        _, _, hin, hout = cases[cid]
        if "oracle=FAIL" in diag:
            ctx.violation("written literal does not decode to the value (Coq reference decoder)",
                          {"input_hex": hin, "written_hex": hout, "written": bytes.fromhex(hout).decode("latin-1"),
                           "diag": diag, "replay": "dlharness c13 strings; write_string(bytes.fromhex(input_hex))"},
                          key="decode:" + hin)
        else:
            model_mismatch.append((hin, hout, diag))
    for hin, hout, back in readback_bad[:3]:
        ctx.violation("darklua reads its own written literal back as different bytes",
                      {"input_hex": hin, "written_hex": hout, "read_back_hex": back}, key="readback:" + hin)
    if model_mismatch and not ctx.violations:
        hin, hout, diag = model_mismatch[0]
        ctx.violation("correspondence broken: Rust write_string differs from Model/StringLit.write_string "
                      "(theorems no longer apply to the code); every written literal still decodes correctly",
                      {"stream": "write_string model-vs-code", "input_hex": hin, "rust_written_hex": hout, "diag": diag,
                       "mismatches": len(model_mismatch)}, found_input=False)
    if not proofs_ok and not ctx.violations:
        failed = [n for n, ok, _ in ctx.obligations if not ok]
        ctx.violation("proof obligation no longer checks: " + "; ".join(failed),
                      {"obligations": failed}, found_input=False)


def replay(ctx, path):
    import json
    r = json.load(open(path))
    print(json.dumps(r, indent=1))
    return 0
