(* C02 bulk evaluator: runs the EXTRACTED Coq checker (Model/C02Check.v: check_case / diag_bytes,
   instantiated with the tables of Generated/C02Tables.v) on cases read from stdin.
   Input lines :  <id> <span> <items|-> <dense hex|-> <readable hex|-> <ref hex|->
                  op <id> <polish tree> <dense hex> <readable hex>          (operator trees)
                  st <id> <0|1> <A hex> <B hex> <AB dense hex> <AB readable hex>   (statement boundaries)
                  str <id> <value hex> <dense hex> <readable hex>            (one string literal)
                  istr <id> <value hex> <dense hex> <readable hex>           (one backtick string, one text segment)
                  node <id> <literals> <text hex> <reference hex>           (literals: s<hex> string, i<hex> text part)
   Output lines:  bad <id> <diag>     for every case where check_case is false;   done <count> *)
open C02_model

let rec pos_of_int i =
  if i = 1 then XH else if i land 1 = 0 then XO (pos_of_int (i lsr 1)) else XI (pos_of_int (i lsr 1))
let n_of_int i = if i = 0 then N0 else Npos (pos_of_int i)
let rec int_of_pos = function XH -> 1 | XO p -> 2 * int_of_pos p | XI p -> 2 * int_of_pos p + 1
let int_of_n = function N0 -> 0 | Npos p -> int_of_pos p
let byte_tbl = Array.init 256 n_of_int

let hexval c =
  match c with
  | '0' .. '9' -> Char.code c - 48
  | 'a' .. 'f' -> Char.code c - 87
  | 'A' .. 'F' -> Char.code c - 55
  | _ -> failwith "bad hex"

let bytes_of_hex s =
  if s = "-" then []
  else begin
    let n = String.length s / 2 in
    let acc = ref [] in
    for i = n - 1 downto 0 do
      acc := byte_tbl.(hexval s.[2 * i] * 16 + hexval s.[2 * i + 1]) :: !acc
    done;
    !acc
  end

let string_of_bytes l =
  let b = Buffer.create 64 in
  List.iter (fun x -> Buffer.add_char b (Char.chr (int_of_n x land 255))) l;
  Buffer.contents b

let item_of s =
  match String.index_opt s ':' with
  | None -> failwith "bad item"
  | Some k ->
    let tag = String.sub s 0 k and hx = String.sub s (k + 1) (String.length s - k - 1) in
    let text = bytes_of_hex (if hx = "" then "-" else hx) in
    let mode =
      match tag with
      | "S" -> MStr
      | "B0" -> MBreak BConcat
      | "B1" -> MBreak BVarargs
      | "B2" -> MBreak BMinus
      | "B3" -> MBreak BEqual
      | "B4" -> MBreak BLongString
      | "R" -> MRaw
      | "M" -> MMerge
      | "P" -> MSpace
      | _ when tag.[0] = 'N' -> MNlRaw (n_of_int (int_of_string (String.sub tag 1 (String.length tag - 1))))
      | _ -> failwith "bad mode"
    in
    { imode = mode; itext = text }

(* type codes of the cast stream (harness type_of_code / Model.Precedence.ty) *)
let rec ty_of_code s =
  let rest () = ty_of_code (String.sub s 1 (String.length s - 1)) in
  match s.[0] with
  | 'n' -> TyName false | 'N' -> TyName true | 'f' -> TyField false | 'F' -> TyField true
  | '>' -> TyFunType (rest ()) | 'v' -> TyFunVariadic (rest ()) | 'k' -> TyFunPack | 'g' -> TyFunGeneric
  | 'u' -> TyUnion (rest ()) | 'i' -> TyInter (rest ()) | 'o' -> TyOptional | 'y' -> TyTypeOf | 't' -> TyTable
  | 'a' -> TyArray | 'p' -> TyParen | 's' -> TyString | 'b' -> TyBool | 'z' -> TyNil
  | _ -> failwith "bad type code"

(* operator trees in Polish notation: B<i>,l,r  U<i>,x  P,x  C<type code>,x  A<k> *)
let parse_polish s =
  let toks = ref (String.split_on_char ',' s) in
  let next () = match !toks with t :: r -> toks := r; t | [] -> failwith "polish: short" in
  let rec go () =
    let t = next () in
    let arg () = int_of_string (String.sub t 1 (String.length t - 1)) in
    match t.[0] with
    | 'A' -> EAtom (n_of_int (arg ()))
    | 'B' -> let o = List.nth binops (arg ()) in let l = go () in let r = go () in EBin (o, l, r)
    | 'U' -> let u = List.nth unops (arg ()) in EUn (u, go ())
    | 'P' -> EParen (go ())
    | 'C' -> let k = ty_of_code (String.sub t 1 (String.length t - 1)) in let x = go () in ECast (x, k)
    | _ -> failwith "polish: bad token"
  in
  let e = go () in
  if !toks <> [] then failwith "polish: trailing";
  e

let () =
  let count = ref 0 in
  (try
     while true do
       let line = input_line stdin in
       match String.split_on_char ' ' line with
       | [ id; span; items; dense; readable; reference ] ->
         let its = if items = "-" then None else Some (List.map item_of (String.split_on_char ',' items)) in
         let c =
           { c_span = n_of_int (int_of_string span); c_items = its; c_dense = bytes_of_hex dense;
             c_readable = bytes_of_hex readable; c_ref = bytes_of_hex reference }
         in
         incr count;
         if not (c02_check c) then Printf.printf "bad %s %s\n" id (string_of_bytes (c02_diag c))
       | [ "str"; id; value; dense; readable ] ->
         let c = { v_value = bytes_of_hex value; v_dense = bytes_of_hex dense; v_readable = bytes_of_hex readable } in
         incr count;
         if not (vcheck_case c) then Printf.printf "bad %s %s\n" id (string_of_bytes (vdiag_bytes c))
       | [ "node"; id; lits; text; reference ] ->
         let lit s = ((s.[0] = 'i'), bytes_of_hex (if String.length s = 1 then "-" else String.sub s 1 (String.length s - 1))) in
         let l = if lits = "-" then [] else List.map lit (String.split_on_char ',' lits) in
         let c = { n_lits = l; n_text = bytes_of_hex text; n_ref = bytes_of_hex reference } in
         incr count;
         if not (ncheck_case c) then Printf.printf "bad %s %s\n" id (string_of_bytes (ndiag_bytes c))
       | [ "istr"; id; value; dense; readable ] ->
         let c = { v_value = bytes_of_hex value; v_dense = bytes_of_hex dense; v_readable = bytes_of_hex readable } in
         incr count;
         if not (icheck_case c) then Printf.printf "bad %s INTERP-STRING\n" id
       | [ "st"; id; exprend; a; b; dense; readable ] ->
         let c = { s_exprend = (exprend = "1"); s_a = bytes_of_hex a; s_b = bytes_of_hex b;
                   s_dense = bytes_of_hex dense; s_readable = bytes_of_hex readable } in
         incr count;
         if not (scheck_case c) then Printf.printf "bad %s %s\n" id (string_of_bytes (sdiag_bytes c))
       | [ "op"; id; polish; dense; readable ] ->
         let c = { p_expr = parse_polish polish; p_dense = bytes_of_hex dense; p_readable = bytes_of_hex readable } in
         incr count;
         if not (c02_pcheck c) then Printf.printf "bad %s %s\n" id (string_of_bytes (c02_pdiag c))
       | _ -> ()
     done
   with End_of_file -> ());
  Printf.printf "done %d\n" !count
