"""C02 helper: tables dumped from the Rust code -> Coq source, and the frozen copy.

The dump (`dl-c02 tables`, `dl-c02 prec`) is the whole graph of finite-domain functions of
darklua; `coq/Generated/C02Tables.v` is rewritten from it on every run. A frozen copy of the
same data is committed in `vlib/c02_frozen_tables.json` (and as `coq/Proof/C02FrozenTables.v`)
so that the evidence can say which entries changed.
"""
import json
import os

from . import common as C

FROZEN_JSON = os.path.join(C.ROOT, "vlib", "c02_frozen_tables.json")
GENERATED_V = os.path.join(C.COQ, "Generated", "C02Tables.v")
FROZEN_V = os.path.join(C.COQ, "Proof", "C02FrozenTables.v")

PREDS = ["concat", "varargs", "minus", "equal", "longstring"]


def parse_tables(out):
    """-> dict(sp=[128 ints], br={name: [128 ints]}, brcheck={name: (checked, mismatches, on_empty)})"""
    t = {"sp": [0] * 128, "br": {p: [0] * 128 for p in PREDS}, "brcheck": {}}
    seen_end = False
    for line in out.splitlines():
        p = line.split()
        if not p:
            continue
        if p[0] == "sp":
            t["sp"][int(p[1])] = int(p[2])
        elif p[0] == "br":
            t["br"][p[1]][int(p[2])] = int(p[3])
        elif p[0] == "brcheck":
            t["brcheck"][p[1]] = (int(p[2]), int(p[3]), p[4])
        elif p[0] == "end":
            seen_end = True
    if not seen_end:
        raise C.CheckBroken("dl-c02 tables: truncated dump")
    return t


def parse_prec(out):
    """-> dict(prec=[16], left_assoc=[16], right_assoc=[16], left_paren=[[..]], right_paren=[[..]], unary_paren=[..])"""
    t = {}
    for line in out.splitlines():
        p = line.split()
        if not p:
            continue
        if p[0] in ("prec", "lassoc", "rassoc", "unary_operand", "opnames", "unary_operand_check", "atomcheck",
                    "cast_inner", "castcheck"):
            t[p[0]] = p[1:] if p[0] == "opnames" else [int(x) for x in p[1:]]
        elif p[0] in ("left_binary", "right_binary", "left_unary", "right_unary", "left_cast"):
            t.setdefault(p[0], {})[str(int(p[1]))] = [int(x) for x in p[2:]]
        elif p[0] == "tywalk":
            t.setdefault("tywalk", []).append([p[1], int(p[2])])
        elif p[0] == "end":
            t["end"] = True
    if not t.pop("end", False):
        raise C.CheckBroken("dl-c02 prec: truncated dump")
    return t


def coq_list(nums):
    return "[" + "; ".join(str(n) for n in nums) + "]"


def coq_source(tables, prec, module_comment):
    lines = ["(** %s *)" % module_comment,
             "From DL Require Import Lib.Bytes Model.DenseGen Model.Precedence.",
             "Open Scope N_scope.",
             "Definition sp_rows : list N := %s." % coq_list(tables["sp"])]
    for p in PREDS:
        lines.append("Definition %s_rows : list N := %s." % (p, coq_list(tables["br"][p])))
    lines.append("Definition tbl : tables := mk_tables sp_rows concat_rows varargs_rows minus_rows equal_rows longstring_rows.")
    if prec:
        lines.append("(* operators in the order of [Model/Precedence.v]: %s *)" % " ".join(prec.get("opnames", [])))
        lines.append("Definition prec_levels : list N := %s." % coq_list(prec["prec"]))
        lines.append("Definition left_assoc_flags : list N := %s." % coq_list(prec["lassoc"]))
        lines.append("Definition right_assoc_flags : list N := %s." % coq_list(prec["rassoc"]))
        for name in ("left_binary", "right_binary", "left_unary", "right_unary", "left_cast"):
            lines.append("Definition %s_rows : list (list N) := [%s]." % (name, "; ".join(
                coq_list(prec[name][str(i)]) for i in range(16))))
        lines.append("Definition unary_operand_flags : list N := %s." % coq_list(prec["unary_operand"]))
        lines.append("Definition cast_inner_flags : list N := %s." % coq_list(prec["cast_inner"]))
        lines.append("Definition ptbl : ptable := mk_ptable left_binary_rows right_binary_rows left_unary_rows "
                     "right_unary_rows unary_operand_flags cast_inner_flags left_cast_rows.")
    return "\n".join(lines) + "\n"


def write_if_changed(path, text):
    os.makedirs(os.path.dirname(path), exist_ok=True)
    try:
        if open(path).read() == text:
            return False
    except OSError:
        pass
    with open(path, "w") as f:
        f.write(text)
    return True


def load_frozen():
    if not os.path.exists(FROZEN_JSON):
        return None
    return json.load(open(FROZEN_JSON))


def diff_frozen(tables, prec):
    """list of human-readable differences between the current dump and the frozen copy"""
    frozen = load_frozen()
    if frozen is None:
        return ["no frozen copy"]
    out = []

    def rows(name, cur, old):
        for r in range(128):
            x = cur[r] ^ old[r]
            b = 0
            while x:
                if x & 1:
                    out.append("%s[%r,%r]: %s -> %s" % (name, chr(r), chr(b), bool(old[r] >> b & 1), bool(cur[r] >> b & 1)))
                x >>= 1
                b += 1
    rows("should_break_with_space", tables["sp"], frozen["sp"])
    for p in PREDS:
        rows("break_" + p, tables["br"][p], frozen["br"][p])
    if prec and frozen.get("prec"):
        for k, v in prec.items():
            fv = frozen["prec"].get(k)
            if fv != v:
                out.append("precedence table %s differs from the frozen copy" % k)
    return out


def freeze(tables, prec):
    """(maintainer action) rewrite the frozen copies from the given dump"""
    data = {"sp": tables["sp"], "br": tables["br"], "prec": prec}
    with open(FROZEN_JSON, "w") as f:
        json.dump(data, f, indent=0, sort_keys=True)
    write_if_changed(FROZEN_V, coq_source(
        tables, prec, "FROZEN copy of the tables dumped from darklua (pinned tree); the live copy is "
                      "Generated/C02Tables.v. Rewritten only by `python3 -m vlib.c02 --freeze`."))
