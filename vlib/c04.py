"""C04 - retain_lines keeps surviving code on its original line."""
import json
import random
import re

from . import common as C
from . import c03_gen as G
from . import c03_shrink as S
from . import c18_lex as L
from .c03 import coq_case, run_harness as _run

META = {
    "title": "retain_lines keeps surviving code on its original line",
    "level": "proof",
    "design_ref": "DESIGN.md section 6 / C03-C04-C18",
    "technique": "Coq proof about the token generator's line padding (Gallina transcription of write_token_options / "
                 "write_trivia / uncomment / push_str): the line counter is the line of the output, no token is written "
                 "above its recorded line, and every token is exactly on it when the recorded lines leave room; write "
                 "requests recorded from the real generator after each rule pipeline are replayed through the model in "
                 "Coq and the room condition is evaluated on them; marker programs through darklua_core::process as the "
                 "independent oracle",
    "level_text": "Machine-checked theorems (Coq 8.16 kernel) about the generator for EVERY sequence of write requests: "
                  "tokens never land before their recorded line (unconditional), land exactly on it when lines_fit holds, "
                  "and a uniform shift (append_text_comment at start) preserves lines_fit. That each rule leaves the tree "
                  "in a state satisfying lines_fit is NOT proved (hence C04_lines_kept_partial): it is evaluated on the "
                  "requests recorded from the real generator for every sampled pipeline, and the marker oracle checks the "
                  "real output.",
    "level_note": "Trusted: Coq kernel + vm_compute; verif_hooks::token_trace; harness and hex transport; the Python "
                  "reference lexer used to find marker literals and their lines. Rules are exercised (sampled subsets / "
                  "orders), not modelled.",
    "trusted_base": ["Coq 8.16.1 kernel, vm_compute", "verif_hooks::token_trace (argument recorder)",
                     "harness/crates/c04 + hex transport", "vlib/c18_lex.py (marker lines)"],
    "allowed_axioms": [],
    "rule": "marker programs: grammar-generated programs whose string literals are unique markers 'M<n>' laid out with "
            "random trivia (multi-line expressions, comments and blank lines anywhere, LF / CRLF); configurations: "
            "sampled subsets in random order of the 13 default rules, remove_spaces followed by random sequences of "
            "line-neutral rules, append_text_comment at start (single and multi-line); bundles of an entry and 2-4 modules "
            "(require_mode path) whose modules end with / without a final line break, a trailing comment, a multi-line "
            "last token (every marker of a file shifted by one amount = height of the files above it); a case is non-trivial when at "
            "least 3 markers on at least 2 different lines survive; distinct by (configuration, source)",
    "assumptions": ["a marker literal found in the output is the original literal (markers are unique strings; string "
                    "concatenation of two markers is not a marker)"],
}

PREAMBLE = """From DL Require Import Lib.Bytes Model.CommentText Model.TokenGen.
Open Scope N_scope.
Open Scope string_scope.
Definition R (a b l : N) : position := Ref (N.to_nat a) (N.to_nat b) (N.to_nat l).
Definition Ow (c : bytes) (l : N) : position := Owned c (N.to_nat l).
Definition T := (string * string * list event)%type.
Definition c_src (c : T) := unhex (fst (fst c)).
Definition c_out (c : T) := unhex (snd (fst c)).
Definition c_evs (c : T) := snd c.
Definition model_ok (c : T) : bool :=
  match generate (c_src c) (c_evs c) with
  | Some o => bytes_eqb o (c_out c)
  | None => false
  end.
Definition pieces (c : T) : list rpiece :=
  match resolve_all (c_src c) (c_evs c) with Some ps => ps | None => [] end.
Definition fit (c : T) : bool := lines_fit 1 false (pieces c).
Definition displaced (c : T) : list (nat * nat) :=
  List.filter (fun lw => negb (Nat.eqb (fst lw) (snd lw))) (placements g_init (pieces c)).
Definition b2s (b : bool) : string := if b then "1" else "0".
Definition nat_s (n : nat) : string := to_string (dec_digits (N.of_nat n)).
Definition check_case (c : T) : bool :=
  model_ok c && fit c && match displaced c with [] => true | _ => false end.
Definition diag_case (c : T) : string :=
  ((if model_ok c then "model=ok" else "model=BAD") ++ " fit=" ++ b2s (fit c) ++ " displaced=" ++
   nat_s (List.length (displaced c)) ++
   match displaced c with
   | (l, w) :: _ => " first=" ++ nat_s l ++ ">" ++ nat_s w
   | [] => ""
   end)%string.
"""

DEFAULT_RULES = ["remove_spaces", "remove_comments", "compute_expression", "remove_unused_if_branch", "remove_unused_while",
                 "filter_after_early_return", "remove_empty_do", "remove_unused_variable", "remove_method_definition",
                 "convert_index_to_field", "remove_nil_declaration", "rename_variables", "remove_function_call_parens"]

# line-neutral rules (group_local_assignment excluded by the property statement)
LOWERING = ["remove_types", "remove_compound_assignment", "remove_continue", "remove_if_expression",
            "remove_interpolated_string", "remove_floor_division", "convert_luau_number", "remove_attribute"]
REMOVAL_INJECTION = ["remove_comments", "remove_assertions", "remove_debug_profiling", "remove_unused_variable",
                     "remove_unused_if_branch", "remove_unused_while", "remove_empty_do", "remove_nil_declaration",
                     "filter_after_early_return", "remove_method_definition", "remove_function_call_parens",
                     {"rule": "inject_global_value", "identifier": "_G_FLAG", "value": True}]
REFACTORINGS = ["convert_local_function_to_assign", "convert_function_to_assignment", "convert_square_root_call",
                "convert_index_to_field", "compute_expression", "rename_variables", "remove_method_call",
                "make_assignment_local"]
LINE_NEUTRAL = LOWERING + REMOVAL_INJECTION + REFACTORINGS

MARKER_RE = re.compile(rb"^(?:[\"']M[a-z]?([0-9]+)[\"']|M[a-z]?([0-9]+)|7([0-9]{4}))$")


class Markers:
    def __init__(self, prefix=""):
        self.n = 0
        self.prefix = prefix      # one letter per file when several files are bundled
        # removable statements / commented compound targets only in single-file programs (a `type` statement of a
        # bundled module is hoisted to the top of the bundle, which is not what the bundling oracle measures)
        self.extras = prefix == ""

    def __call__(self, kind):
        self.n += 1
        if kind == "string":
            return ('"M%s%d"' if self.n % 2 else "'M%s%d'") % (self.prefix, self.n)
        if kind == "name":
            return "M%s%d" % (self.prefix, self.n)
        if self.prefix:
            return str(self.n)      # number markers are not unique across files: plain numbers instead
        return str(70000 + self.n)


def number_value(text):
    """value of an integer numeral (decimal, hex, binary, `_` separators), None otherwise"""
    t = text.replace(b"_", b"").lower()
    try:
        if t.startswith(b"0x"):
            return int(t[2:], 16)
        if t.startswith(b"0b"):
            return int(t[2:], 2)
        return int(t)
    except ValueError:
        return None


def marker_lines(text):
    """marker -> list of lines on which the marker appears (reference lexer).  Names `M<n>` and strings 'M<n>' are
    keyed by their token text (a rule that turns "M5" into the field name M5 makes a different token); integer
    numerals whose VALUE is in 70000..79999 are keyed by that value, whatever their spelling (`70_001`, `0x11171`,
    `0b...`: convert_luau_number rewrites the spelling, the numeral is the same piece of code)"""
    toks, _ = L.lex(text.encode("utf-8"))
    out = {}
    for t in toks:
        if t.kind == "number":
            v = number_value(t.text)
            if v is not None and 70000 <= v < 80000:
                out.setdefault("#%d" % v, []).append(t.line)
        elif MARKER_RE.match(t.text):
            out.setdefault(t.text.decode("ascii"), []).append(t.line)
    return out


def marker_program(rng, i):
    nl = "\r\n" if i % 9 == 4 else "\n"
    mode = "random" if i % 4 else "plain"
    src, toks, feats, gaps = G.program(rng, mode=mode, newline=nl, markers=Markers(), density=2 + i % 2,
                                       avoid_known=True)
    return src


HAND_SOURCES = [
    "local a = 'M1'\nlocal b = 'M2'\n\n\nreturn a,\n  b,\n  'M3'\n",
    "local t = {\n  'M1', -- one\n  'M2',\n  --[[ two\n lines ]] 'M3',\n}\n\nprint(t,\n 'M4')\n",
    "if 'M1' then\n  print('M2')\nelseif 'M3' then\n  print(\n   'M4'\n  )\nelse\n  print('M5')\nend\n",
    "local function f(a,\n b)\n  return a .. 'M1',\n   b .. 'M2'\nend\n\n-- comment\nf('M3',\n\n 'M4')\n",
    "do\n  local x = 'M1'\nend\ndo end\nwhile false do\n print('M2')\nend\nprint('M3')\n",
    "local s = [[\nlong\nstring]] print('M1')\nprint('M2') --[[\n\n]] print('M3')\n",
    "x += 'M1'\nlocal y = if a then 'M2'\n  else 'M3'\nfor i = 1, 2 do\n  continue\nend\nprint(`a{'M4'}b{\n'M5'}`)\n",
    "local a: string = 'M1'\ntype T = {\n  x: number,\n}\nlocal b = 'M2' :: string\nreturn a // 'M3',\n b\n",
    "local unused = 'M1'\nlocal used = 'M2'\nlocal function g()\nend\nprint(used,\n  'M3')\nreturn nil,\n 'M4'\n",
    "obj:method('M1',\n  'M2')\nfunction obj:m()\n  return self, 'M3'\nend\nobj['field'] = 'M4'\nlocal n = nil\nprint 'M5'\n",
]


# ---- targeted templates (coordinator's gaps 1 and 2)

COMPOUND_TARGETS = ["stats.totals.label", "a.b.c", "f().x", "(t).k", "t[g()]", "a[M0].x", "f(M0).y.z", "(f()).a.b", "a:m().x",
                    "a -- p\n.b -- q\n.c", "a.b", "x", "t[1][2]", "(a or b).c.d", "a -- p\n[k] -- q\n.c"]
AFTER_TARGET = [" -- c\n", " -- c\n\n\n", " -- c\n  ", " --[[ c ]] ", " --[[ c\n]] ", "\n", " -- c\n -- d\n"]
COMPOUND_OPS = ["+=", "-=", "*=", "/=", "//=", "%=", "^=", "..="]


def compound_sources(rng, n):
    """programs of compound assignments whose target is followed by a comment and a line break before the operator"""
    out = []
    for i in range(n):
        m = [0]

        def mk():
            m[0] += 1
            return "M%d" % m[0]
        lines = ["print(%s)" % mk()]
        for k in range(rng.randrange(1, 4)):
            t = COMPOUND_TARGETS[(i + k) % len(COMPOUND_TARGETS)] if k == 0 else rng.choice(COMPOUND_TARGETS)
            t = t.replace("M0", mk())
            after = AFTER_TARGET[(i + k) % len(AFTER_TARGET)] if k == 0 else rng.choice(AFTER_TARGET)
            value = rng.choice(["%s", "'%s'", "%s(\n %s)", "%s ..\n %s"])
            value = value % tuple(mk() for _ in range(value.count("%s")))
            sep = ";" if t.startswith("(") else ""
            lines.append(sep + t + after + rng.choice(COMPOUND_OPS) + " " + value)
            lines.append(rng.choice(["", "-- between", "%s()" % mk(), ""]))
        lines.append("%s(%s,\n  %s)" % (mk(), mk(), mk()))
        out.append("\n".join(lines) + "\n")
    return out


REMOVABLE = [
    ("remove_unused_variable", "local unused = 1"),
    ("remove_unused_variable", "local unused = {%INSIDE%}"),
    ("remove_unused_variable", "local function unusedf()%INSIDE%end"),
    ("remove_empty_do", "do%INSIDE%end"),
    ("remove_types", "type Unused = number"),
    ("remove_types", "type Unused = {%INSIDE% x: number }"),
    ("remove_unused_if_branch", "if false then%INSIDE% f()\nend"),
    ("remove_unused_while", "while false do%INSIDE% f()\nend"),
]
GAPS_BEFORE = ["-- a\n-- b\n\n-- c\n\n\n-- d\n", "-- a\n\n-- b\n-- c\n\n\n\n-- d\n-- e\n", "-- a\n\n\n-- b\n", "-- a\n\n-- b\n\n\n\n-- c\n", "--[[ a ]]\n\n\n--[[ b ]]\n", "-- a\n-- b\n\n\n", "",
               "--[[ a ]] --[[ a2 ]]\n\n\n\n-- b\n"]
GAPS_AFTER = [" -- t\n", " -- t\n\n-- u\n\n\n-- v\n", "\n", " -- d\n", " -- d\n\n\n-- e\n", "\n\n\n-- e\n\n", " --[[ d ]]\n\n-- e\n-- f\n"]
GAPS_INSIDE = [" ", " -- i\n\n\n -- j\n", "\n\n -- i\n", " --[[ i ]]\n\n\n"]
# the recorded defect: a comment that spans lines followed by another comment (see known_findings.txt)
GAPS_BEFORE_KNOWN = ["--[[ b\nb2\nb3\n]]\n-- c\n", "-- a\n\n--[[ b\n]]\n\n-- c\n"]


def removal_sources(rng, n, known=False):
    """[(rule, source)]: a statement that `rule` removes, comments several lines apart before / after / inside it,
    markers before and after"""
    out = []
    for i in range(n):
        rule, stmt = REMOVABLE[i % len(REMOVABLE)]
        before = rng.choice(GAPS_BEFORE_KNOWN) if known else GAPS_BEFORE[(i // len(REMOVABLE) + i) % len(GAPS_BEFORE)]
        after = GAPS_AFTER[i % len(GAPS_AFTER)] if rng.randrange(2) else rng.choice(GAPS_AFTER)
        stmt = stmt.replace("%INSIDE%", rng.choice(GAPS_INSIDE))
        head = rng.choice(["print(M1)\n", "print(M1)\n\n", "local k = M1\nprint(k,\n  M2)\n", ""])
        tail = rng.choice(["print(M9)\nM10()\n", "M9(\n  M10)\n\nreturn M11\n", "print(M9)"])
        body = before + stmt + after
        if rng.randrange(4) == 0:
            body = "do\n" + body + "M5()\nend\n"       # inside a nested block
        elif rng.randrange(4) == 0:
            body = body + "-- x\n\n\n-- y\n" + REMOVABLE[(i + 3) % 2][1].replace("unused", "unused2").replace("%INSIDE%", " ") + "\n"   # two in a row
        out.append((rule, head + body + tail))
    return out


RECEIVERS = [
    ("assign name", "x = %M"), ("assign field", "x.y = %M"), ("assign nested field", "x.y.z = %M"),
    ("assign index.field", "x[1].y = %M"), ("assign index", "x[k] = %M"), ("assign call.field", "f().y = %M"),
    ("assign method-call.field", "a:m().y = %M"), ("assign paren.field", ";(t).k = %M"),
    ("assign several", "x.y, z[1] = %M, %M"), ("assign field, value below", "x.y.z =\n  %M"),
    ("assign string-call.field", "f'%S'.y = %M"),
    ("compound field", "x.y += %M"), ("compound index", "x[1] ..= %M"),
    ("call name", "f(%M)"), ("call field", "a.b(%M)"), ("call method", "a:m(%M)"), ("call nested method", "a.b.c:m(%M)"),
    ("call call", "f()(%M)"), ("call paren", ";(f)(%M)"), ("call index", "a[1](%M)"), ("call table", "f{%M}"),
    ("call string", "a.b'%S'"),
    ("local", "local v = %M"), ("local several", "local v, w = %M, %M"), ("local function", "local function g() return %M end"),
    ("function", "function h() return %M end"), ("function field", "function a.b.c() return %M end"),
    ("function method", "function a:m() return %M end"),
    ("if", "if %M then f() end"), ("while", "while %M do f() end"), ("repeat", "repeat f() until %M"),
    ("numeric for", "for i = %M, 2 do f() end"), ("generic for", "for k, q in %M do f() end"), ("do", "do f(%M) end"),
    ("type", "type T = typeof(%M)"), ("export type", "export type U = typeof(%M)"),
]
LAST_RECEIVERS = [("return value", "return %M", "function w()\n%B\nend"), ("return", "return", "function w()\n%B\nend"),
                  ("return call", "return f(%M).x", "do\n%B\nend"),
                  ("break", "break", "while %M do\n%B\nend"), ("continue", "continue", "for i = 1, %M do\n%B\nend")]
REMOVED_WITH_COMMENT = [("remove_unused_variable", "-- c1\nlocal unused = 1 -- c2"),
                        ("remove_empty_do", "-- c1\ndo end -- c2"),
                        ("remove_unused_variable", "local unused = 1 -- c2"),
                        ("remove_types", "-- c1\ntype Unused = number -- c2")]


def fill_markers(text, counter):
    while "%M" in text or "%S" in text:
        i = min(k for k in (text.find("%M"), text.find("%S")) if k >= 0)
        counter[0] += 1
        text = text[:i] + "M%d" % counter[0] + text[i + 2:]
    return text


def receiver_sources():
    """[(label, remover rule, source with a removed statement in front of the receiver, source with the
    receiver as first statement)]"""
    out = []
    for ri, (label, stmt) in enumerate(RECEIVERS):
        rule, removed = REMOVED_WITH_COMMENT[ri % len(REMOVED_WITH_COMMENT)]
        n = [0]
        after = fill_markers("print(%M)\n" + removed + "\n" + stmt + "\n%M(v, w, g, h)\n", n)
        n = [0]
        first = fill_markers(stmt.lstrip(";") + "\n\n%M(v, w, g, h)\nprint(%M,\n  %M)\n", n)
        out.append((label, rule, after, first))
    for ri, (label, stmt, wrap) in enumerate(LAST_RECEIVERS):
        rule, removed = REMOVED_WITH_COMMENT[ri % 2]
        n = [0]
        body = " f(%M)\n " + removed.replace("\n", "\n ") + "\n " + stmt
        after = fill_markers("print(%M)\n" + wrap.replace("%B", body) + "\n%M()\n", n)
        n = [0]
        first = fill_markers(wrap.replace("%B", " " + stmt) + "\n%M()\n", n) if label.startswith("return") and "function" not in wrap else None
        out.append((label, rule, after, first))
    return out


KEY_COMMENT_TRANSFER = "removed-statement-comment-transfer:multi-line-comment-then-comment"
REMOVERS = {"remove_unused_variable", "remove_empty_do", "remove_types", "remove_unused_if_branch", "remove_unused_while",
            "filter_after_early_return", "remove_assertions", "remove_debug_profiling", "remove_nil_declaration"}


KEY_COMPOUND_MULTILINE = "compound-assignment-duplicates-multi-line-target:t[[==[<LF>]==]]*=1"


def compound_target_spans_lines(src):
    """a compound assignment whose target holds a token that spans lines (a long / continued string used as
    key): the lowering writes the target twice"""
    try:
        toks, _ = L.lex(src.encode("utf-8"))
    except L.LexError:
        return False
    for j, t in enumerate(toks):
        if t.text in COMPOUND_OP_TOKENS:
            k = j - 1
            while k >= 0 and j - k <= 16 and toks[k].text not in L.STATEMENT_KEYWORDS and toks[k].text != b";":
                if b"\n" in toks[k].text:
                    return True
                k -= 1
    return False


KEY_COMPOUND_KEY = "compound-assignment-index-key-hoisted:--_c<LF>t[g()]*=M2"
COMPOUND_OP_TOKENS = {b"+=", b"-=", b"*=", b"/=", b"//=", b"%=", b"^=", b"..="}


def compound_index_key_hoisted(src, spaces_removed):
    """a compound assignment `prefix[key] op= value` whose key is not a literal (it is evaluated first, in front
    of the prefix) and whose first token is preceded by a comment (or, when white space is kept, a blank line)"""
    data = src.encode("utf-8")
    try:
        toks, comments = L.lex(data)
    except L.LexError:
        return False
    closers = {b")": b"(", b"]": b"[", b"}": b"{"}

    def opener(i):
        depth = 0
        want = closers[toks[i].text]
        while i >= 0:
            if toks[i].text in closers:
                depth += 1
            elif toks[i].text in closers.values():
                depth -= 1
                if depth == 0:
                    return i if toks[i].text == want else None
            i -= 1
        return None

    for j, t in enumerate(toks):
        if t.text not in COMPOUND_OP_TOKENS or j == 0 or toks[j - 1].text != b"]":
            continue
        o = opener(j - 1)
        if o is None:
            continue
        key = toks[o + 1:j - 1]
        if len(key) == 1 and key[0].kind in ("number", "string") or (len(key) == 1 and key[0].text in (b"true", b"false")):
            continue
        # walk back over the prefix expression to the first token of the statement
        i = o - 1
        while i >= 0:
            if toks[i].text in closers:
                k = opener(i)
                if k is None:
                    break
                i = k
                if i > 0 and (toks[i - 1].kind == "name" or toks[i - 1].text in closers) and toks[i].text != b"{":
                    i -= 1
                    continue
                break
            if toks[i].kind == "name" and i > 0 and toks[i - 1].text in (b".", b":"):
                i -= 2
                continue
            break
        if i < 0:
            i = 0
        start = toks[i].start
        before = toks[i - 1].end if i > 0 else 0
        gap = data[before:start]
        if any(before <= c.start < start for c in comments) or (not spaces_removed and gap.count(b"\n") >= 2):
            return True
    return False


def transferred_comments_out_of_order(trace, src=""):
    """signature of the recorded comment-transfer defect in the write requests: a token whose leading trivia holds
    line breaks made by Block::remove_statement (owned white space of line feeds only) and whose original trivia
    are no longer in source order, or include a comment spanning lines that is followed by further trivia (its
    height is ignored when the gaps are re-created)"""
    data = src.encode("utf-8")
    for e in trace:
        if e["t"] != "tok":
            continue
        made = any((not is_comment) and p[0] == 2 and p[1] and set(bytes.fromhex(p[1])) == {0x0A} for is_comment, p in e["l"])
        if not made:
            continue
        starts = [p[1] for _, p in e["l"] if p[0] == 0]
        if any(a > b for a, b in zip(starts, starts[1:])):
            return True
        for k, (is_comment, p) in enumerate(e["l"][:-1]):
            if is_comment and p[0] == 0 and b"\n" in data[p[1]:p[2]]:
                return True
    return False


def multiline_comment_then_comment(src):
    """a comment spanning several lines whose next lexical item is another comment"""
    data = src.encode("utf-8")
    try:
        toks, comments = L.lex(data)
    except L.LexError:
        return False
    items = sorted(list(toks) + [c for c in comments if c.kind == "comment"], key=lambda t: t.start)
    for a, b in zip(items, items[1:]):
        if a.kind == "comment" and b.kind == "comment" and b"\n" in a.text:
            return True
    return False


# rules that insert or remove an item of a comma-separated list, on lists that span lines with commas at line
# starts and at line ends, comments next to commas
LIST_EDITS = [
    ("remove_method_call", "obj:method(M1\n , M2\n , M3)\nM4()\n"),
    ("remove_method_call", "obj:method(M1,\n  M2,\n  M3)\nM4()\n"),
    ("remove_method_call", "obj:method(M1 -- c\n , M2 --[[d]]\n ,M3)\nM4()\n"),
    ("remove_method_call", "obj:method(\n  M1\n , M2\n)\nM4()\n"),
    ("remove_method_call", "obj:method()\nM4(obj:m(M1\n  , M2),\n M3)\n"),
    ("remove_method_call", "local r = obj:method(M1\n\n , -- c\n M2, M3\n , M5)\nM4(r)\n"),
    ("remove_unused_variable", "local a\n , unused\n , c = M1\n , M2\n , M3\nM4(a, c)\n"),
    ("remove_unused_variable", "local a,\n unused,\n c = M1,\n M2,\n M3\nM4(a, c)\n"),
    ("remove_unused_variable", "local unused\n , b = M1\n , M2\nM4(b)\n"),
    ("remove_unused_variable", "local a\n , unused = M1\n , M2()\nM4(a)\n"),
    ("remove_unused_variable", "local a -- c\n , unused -- d\n = M1 -- e\n , M2\nM4(a)\n"),
    ("remove_nil_declaration", "local a\n , b\n = M1\n , nil\nM4(a, b)\n"),
    ("remove_nil_declaration", "local a,\n b =\n nil,\n M2\nM4(a, b)\n"),
    ("remove_nil_declaration", "local a\n , b\n , c = nil\n , M2\n , nil\nM4(a, b, c)\n"),
    ("remove_method_definition", "function t:m(a\n , b\n)\n return M1\nend\nM4()\n"),
    ("remove_method_definition", "function t:m(a,\n b)\n return M1\nend\nM4()\n"),
    ("remove_method_definition", "function t:m()\n return M1\nend\nM4()\n"),
    ("remove_function_call_parens", "f(\n 'M1'\n)\ng({\n M2\n})\nM4()\n"),
    ("remove_types", "local function f<T\n , U>(a: T\n , b: U\n): (T\n , U)\n return M1\nend\nM4()\n"),
    ("convert_local_function_to_assign", "local function f(a\n , b)\n return M1\nend\nM4()\n"),
    ("convert_function_to_assignment", "function f(a\n , b,\n c)\n return M1\nend\nM4()\n"),
    ("remove_assertions", "assert(M1\n , M2)\nM4()\n"),
    ("remove_debug_profiling", "debug.profilebegin(M1\n , M2)\nM4()\n"),
    ("remove_interpolated_string", "local s = `a{M1}b\\\nc{M2\n}d`\nM4(s)\n"),
    ("remove_continue", "for i = M1\n , M2\n , M3 do\n continue\nend\nM4()\n"),
    ("remove_compound_assignment", "t[M1\n , nil and M2] += M3\nM4()\n"),
]


# lowering rules that rewrite a token in place, on sources where the rewritten token starts a line
# (number markers: 70001 = 0x11171 = 0b10001000101110001, ...)
TOKEN_REWRITES = [
    ("convert_luau_number", "local t = {\n 70_001, M2,\n 0x1_1172, M3,\n -- c\n 7_0_0_0_3, M4, --[[d]]\n 0X11_174\n}\nM5()\n"),
    ("convert_luau_number", "f(\n 70_001,\n M2,\n --[[c]] 0x11_172)\nlocal s = M3 +\n 70_003 *\n 7_0004\nM4(s)\n"),
    ("convert_luau_number", "return M1,\n 70_001,\n {\n  0x1_1172;\n  [70_003] = M2\n },\n M3\n"),
    ("convert_luau_number", "local b = {\n 0b1_0001_0001_0111_0001, M2,\n 0B10001000101110010, M3,\n}\nM4()\n"),
    ("remove_types", "local\n M1: number,\n M2: string = 70001,\n 70002\nfunction M3(M4: number,\n M5: string): number\n return 70003\nend\nM6()\n"),
    ("remove_types", "local x = M1 ::\n any\ntype T = number\nlocal y = (\n M2 :: number\n)\nM3(x, y)\n"),
    ("make_assignment_local", "local a = M1\nconst\n b = M2\nconst function\n g() return M3 end\nM4(a, b, g)\n"),
    ("remove_attribute", "print(M1)\n@native\nfunction f()\n return M2\nend\n@checked @native local function g()\n return M3\nend\nM4()\n"),
    ("remove_floor_division", "local q = M1\n //\n M2\nq //= M3\nM4(q)\n"),
    ("remove_continue", "for i = 1, M1 do\n if M2 then\n  continue\n end\n M3()\nend\nM4()\n"),
    ("remove_compound_assignment", "M1\n +=\n M2\nM3()\n"),
]
KEY_BINARY_LITERAL = "convert-luau-number-binary-literal:first-token-of-a-line"


WITNESS_JOBS = [
    ({"rules": ["remove_spaces", "remove_method_call"]}, "obj -- c\n:m(M1)\nM2()\n"),
    ({"rules": ["remove_empty_do"]}, "--[==[\n]==]do\nend--[=[\n]=] local x = M1\nM2()\n"),
    ({"rules": ["remove_unused_variable"]}, "local b\n,\na\n= g() and 1\nM1(a)\n"),
    ({"rules": ["remove_method_definition"]}, "function M1:name(a\n,b\n)\nend\nM2()\n"),
    ({"rules": ["remove_unused_if_branch"]}, "if a then\n f(1)\nelseif true then\n M1()\nelse\n M2()\nend\nM3()\n"),
    ({"rules": [{"rule": "append_text_comment", "text": "x", "location": "end"}]}, "local a = M1;\n"),
    ({"rules": ["remove_unused_variable"]}, "--[[ b\nb2\nb3\n]]\n-- c\nlocal unused = 1\nprint(M9)\n"),
    ({"rules": ["remove_unused_if_branch"]}, "if nil then\n M1()\nelseif M2 then M3() else M4() end\nM5()\n"),
    # two removed statements in a row, a comment spanning lines in front, remove_comments AFTER the removal
    ({"rules": ["remove_unused_variable", "remove_comments"]},
     "--[=[ a\n]=]\n\nlocal unused1 -- after\n\n\n-- a\n-- b\nlocal unused2\nM1()\nM2()\n"),
    ({"rules": ["remove_spaces", "remove_compound_assignment"]}, "print(M1)\n-- c\nt[g()] *= M2\nM3()\n"),
    ({"rules": ["remove_compound_assignment"]}, "print(M1)\nt[ [==[\n]==] ] *= M2\nM3()\n"),
    # the regressions the coordinator seeded (must stay on their lines on the unchanged tree)
    ({"rules": ["remove_compound_assignment"]}, "stats.totals.label -- c\n  ..= 'M3'\nprint(M4)\n"),
    ({"rules": ["remove_spaces", "remove_compound_assignment"]}, "a.b.c -- c\n+= M3\nM4()\n"),
    ({"rules": ["remove_compound_assignment"]}, "f().x -- c\n+= M1\nM2()\n"),
    ({"rules": ["remove_compound_assignment"]}, "M0();(t).k -- c\n*= M1\nM2()\n"),
    ({"rules": ["remove_compound_assignment"]}, "a -- c\n.b -- d\n.c += M1\nM2()\n"),
    ({"rules": ["remove_unused_variable"]}, "-- a\n\n\n-- b\nlocal unused = 1\nprint(M9)\nM10()\n"),
    ({"rules": ["remove_empty_do"]}, "-- a\n\n\n-- b\ndo end\nprint(M9)\n"),
    ({"rules": ["remove_types"]}, "-- a\n\n\n-- b\ntype T = number\nprint(M9)\n"),
    ({"rules": ["remove_unused_if_branch"]}, "print(M1)\n-- a\n\n\n-- b\nif false then\n f() -- c\n\nend -- d\n\n-- e\nprint(M9)\n"),
]


# ---- bundling: an entry and 2-4 required modules in one output file

MODULE_ENDINGS = [
    ("newline", "\nreturn %s\n"),
    ("no-newline", "\nreturn %s"),
    ("comment-same-line", "\nreturn %s -- bye"),
    ("comment-line", "\nreturn %s\n-- tail"),
    ("comment-line-newline", "\nreturn %s\n-- tail\n"),
    ("long-comment", "\nreturn %s --[[\nx\n]]"),
    ("blank-lines", "\nreturn %s\n\n\n"),
    ("multi-line-last-token", "\nreturn %s .. [[\nx\ny]]"),
    ("multi-line-last-token-newline", "\nreturn %s .. [[\nx\ny]]\n"),
]
# a module must end with a return statement (the bundler rejects anything else), so the last construct is always
# the returned expression: every kind of expression that spans lines, with and without a final line break
_ML = [
    ("tuple-call", "return setmetatable({\n  a = %s,\n}, {\n  __index = 1,\n})"),
    ("table-call", "return f{\n  %s,\n}"),
    ("string-call", "return f(%s)[[\nx\n]]"),
    ("method-call", "return obj:m(\n  %s\n)"),
    ("method-call-table", "return obj:m{\n  %s\n}"),
    ("table", "return {\n  %s,\n  [1] = 2;\n}"),
    ("function-expr", "return function()\n  return %s\nend"),
    ("paren", "return (\n  %s\n)"),
    ("binary", "return %s ..\n  'x'"),
    ("index", "return t[\n %s\n]"),
    ("nested-call", "return f(g(\n %s\n))"),
    ("if-expr", "return if %s then\n 1\nelse\n 2"),
    ("interpolated", "return `a{\n %s\n}b`"),
    ("type-cast", "return %s ::\n  any"),
    ("call-then-long-comment", "return f(\n %s\n) --[[\nc\n]]"),
]
MULTILINE_ENDINGS = [(n, "\n" + t) for n, t in _ML] + [(n + "+newline", "\n" + t + "\n") for n, t in _ML]
MODULE_ENDINGS += MULTILINE_ENDINGS

KEY_BUNDLE_MULTILINE = "bundle-module-ends-in-multi-line-token:return_[[<LF>x<LF>y]]"

BUNDLE_CONFIGS = [
    {"rules": [], "bundle": {"require_mode": "path"}},
    {"rules": ["remove_spaces", "remove_comments"], "bundle": {"require_mode": "path"}},
]
BUNDLE_TOKEN_REWRITE_CONFIGS = [
    {"rules": ["convert_luau_number"], "bundle": {"require_mode": "path"}},
    {"rules": ["remove_spaces", "convert_luau_number"], "bundle": {"require_mode": "path"}},
    {"rules": ["remove_spaces", "remove_comments", "convert_luau_number", "remove_compound_assignment"],
     "bundle": {"require_mode": "path"}},
]
# the default rules as well, on the hand-written bodies only (generated bodies trip the recorded rule defects)
BUNDLE_CONFIG_DEFAULT = {"bundle": {"require_mode": "path"}}


def spelled(v, how):
    """a numeral of value v with digit separators (decimal, hexadecimal or binary spelling)"""
    if how == 0:
        d = str(v)
        return d[:2] + "_" + d[2:]
    if how == 1:
        h = "%X" % v
        return "0x" + h[:1] + "_" + h[1:]
    b = bin(v)[2:]
    return "0b" + b[:4] + "_" + b[4:]


def numeric_body(letter, base, rng):
    """statements whose FIRST token on a line is a numeral that convert_luau_number rewrites (numeric markers of value
    base+1..): a token rewritten after bundling has materialised its position must still be written on its line"""
    # decimal / hexadecimal spellings only: a binary numeral is replaced by a NEW token (recorded finding
    # convert-luau-number-binary-literal, exercised by the single-file stream)
    n = [spelled(base + k, rng.randrange(2)) for k in range(1, 6)]
    return ("print(M%s1)\nlocal t = {\n    %s,\n    %s,\n}\nlocal x = M%s2 +\n  %s\n\nprint(x, t,\n  M%s3,\n%s)\n"
            "t[\n%s\n] = nil" % (letter, n[0], n[1], letter, n[2], letter, n[3], n[4]))


def bundle_case(rng, i, n_modules, endings=None, simple=False, numeric=False):
    """(entry source, {path: module source}, [ending name per module])"""
    files = {}
    names = []
    used = []
    for k in range(n_modules):
        letter = "abcd"[k]
        if numeric:
            body = numeric_body(letter, 71000 + 1000 * k, rng)
        elif simple:
            body = "print(M%s1)\nlocal x = M%s2\n\nprint(x,\n  M%s3)" % (letter, letter, letter)
        else:
            body, _, _, _ = G.program(rng, mode="random", markers=Markers(letter), density=2, avoid_known=True, module=True)
            body = body.rstrip()
        ending = endings[k] if endings else MODULE_ENDINGS[rng.randrange(len(MODULE_ENDINGS))]
        if isinstance(ending, str):
            ending = next(e for e in MODULE_ENDINGS if e[0] == ending)
        used.append(ending[0])
        files["src/m%s.lua" % letter] = body + ending[1] % ("M%s0" % letter)
        names.append("m" + letter)
    head = "".join("local %s = require('./%s')%s" % (n, n, "\n" if rng.randrange(3) else "\n\n") for n in names)
    if numeric:
        tail = numeric_body("e", 75000, rng) + "\nreturn t,\n  Me4,\n  %s\n" % spelled(75009, rng.randrange(2))
    elif simple:
        tail = "print(Me1)\nlocal y = Me2\n\nreturn y,\n  Me3\n"
    else:
        tail, _, _, _ = G.program(rng, mode="random", markers=Markers("e"), density=2, avoid_known=True)
    return head + "Me0()\n" + tail, files, used


def file_height(src):
    """lines a module takes in the bundle: its last line number (a final line break opens an empty last line)"""
    return src.count("\n") + 1


def check_bundle(entry, files, out):
    """None, or a description: every surviving marker of one file is shifted by one common amount, and that
    amount is the total height of the files written above it"""
    try:
        om = marker_lines(out)
    except L.LexError as ex:
        return "output does not lex: %s" % ex
    per_file = []
    for path, src in list(files.items()) + [("src/main.lua", entry)]:
        sm = marker_lines(src)
        shifts = {}
        for m, lines in sm.items():
            if m in om and len(om[m]) == len(lines) == 1:
                shifts[m] = om[m][0] - lines[0]
        if not shifts:
            continue
        per_file.append((min(om[m][0] for m in shifts), path, src, shifts))
    per_file.sort()
    expected = 0
    for _, path, src, shifts in per_file:
        values = sorted(set(shifts.values()))
        if len(values) > 1:
            a = min(shifts, key=lambda m: shifts[m])
            b = max(shifts, key=lambda m: shifts[m])
            return "markers of %s are not shifted by one amount: %s by %d, %s by %d" % (path, a, shifts[a], b, shifts[b])
        if values[0] != expected:
            return "%s is shifted by %d lines, the files above it are %d lines high" % (path, values[0], expected)
        expected += file_height(src)
    return None


def multi_line_last_token(src):
    """the module's last code token spans several lines and nothing but the end of the file follows it"""
    try:
        toks, comments = L.lex(src.encode("utf-8"))
    except L.LexError:
        return False
    if not toks:
        return False
    last = toks[-1]
    return b"\n" in last.text and last.end == len(src.encode("utf-8"))


def configs(rng, n_default, n_neutral):
    out = []
    out.append(("default-all", {"rules": list(DEFAULT_RULES)}))
    out.append(("default-implicit", {}))
    for _ in range(n_default):
        k = rng.randrange(1, len(DEFAULT_RULES) + 1)
        rules = rng.sample(DEFAULT_RULES, k)
        out.append(("default-subset", {"rules": rules}))
    for _ in range(n_neutral):
        k = rng.randrange(1, 7)
        rules = ["remove_spaces"] + [rng.choice(LINE_NEUTRAL) for _ in range(k)]
        out.append(("line-neutral", {"rules": rules}))
    return out


APPEND_TEXTS = ["header", "two\nlines", "a\nb\nc\n", "]]\n]=]", "x"]
# one line, one line + line break (typical of a `file:` text), line break + one line, two lines (+ line break), CRLF
APPEND_START_TEXTS = ["header", "header\n", "\nheader", "two\nlines", "two\nlines\n", "header\r\n", "two\r\nlines",
                      "two\r\nlines\r\n", "\n", "[[ header"]


def start_pipelines(text):
    a = {"rule": "append_text_comment", "text": text}
    keep = [r for r in DEFAULT_RULES if r != "remove_comments"]
    return [("A", [a]), ("spaces,A", ["remove_spaces", a]), ("A,spaces", [a, "remove_spaces"]),
            ("defaults,A", list(DEFAULT_RULES) + [a]), ("A,defaults-keeping-comments", [a] + keep),
            ("A,defaults", [a] + list(DEFAULT_RULES))]


def run(ctx):
    from .c18 import clean_replays, known_class
    clean_replays(ctx.prop)
    C.build_harness("dl-c04")
    proofs_ok = C.proof_gate(ctx)
    rng = random.Random(ctx.seed)
    quick = ctx.tier == "quick"

    sources = list(HAND_SOURCES)
    for i in range(16 if quick else 40):
        s = marker_program(rng, i)
        if len(s.encode("utf-8")) < 3000:
            sources.append(s)
    cfgs = configs(rng, 10 if quick else 20, 14 if quick else 30)

    jobs = []   # (kind, config dict, source, shift_text or None)
    for si, s in enumerate(sources):
        for ci, (kind, c) in enumerate(cfgs):
            if quick and (si + ci) % 3 and kind != "default-all":
                continue
            jobs.append((kind, c, s, None))
        for ti, t in enumerate(APPEND_TEXTS):
            if quick and (si + ti) % 2:
                continue
            jobs.append(("append-start", {"rules": [{"rule": "append_text_comment", "text": t}]}, s, t))
            jobs.append(("append-start+default", {"rules": list(DEFAULT_RULES) + [{"rule": "append_text_comment", "text": t}]}, s, t))
            jobs.append(("append-end", {"rules": [{"rule": "append_text_comment", "text": t, "location": "end"}]}, s, None))
        for ti, t in enumerate(APPEND_START_TEXTS):
            for pi, (label, rules) in enumerate(start_pipelines(t)):
                if quick and (si + ti + pi) % 8:
                    continue
                jobs.append(("append-start: text shapes x remove_spaces placement", {"rules": rules}, s, t))
    for c, s in WITNESS_JOBS:
        jobs.append(("witness", c, s, None))
    rca = "remove_compound_assignment"
    for si, s in enumerate(compound_sources(rng, 30 if quick else 150)):
        pipelines = [[rca], ["remove_spaces", rca], ["remove_spaces", rca, rng.choice(LINE_NEUTRAL)],
                     [rng.choice(LOWERING), rca], list(DEFAULT_RULES) + [rca]]
        for pi, rules in enumerate(pipelines):
            if quick and pi >= 2 and (si + pi) % 3:
                continue
            jobs.append(("targeted: compound assignment, commented target", {"rules": rules}, s, None))
    removal = removal_sources(rng, 32 if quick else 160) + removal_sources(rng, 4 if quick else 16, known=True)
    for si, (rule, s) in enumerate(removal):
        defaults_keep_comments = [r for r in DEFAULT_RULES if r != "remove_comments"]
        pipelines = [[rule], ["remove_spaces", rule], [rule, rng.choice(sorted(REMOVERS))], defaults_keep_comments + [rule]]
        for pi, rules in enumerate(pipelines):
            if quick and pi >= 2 and (si + pi) % 2:
                continue
            jobs.append(("targeted: removed statement, comments lines apart", {"rules": rules}, s, None))
    for li, (label, src) in enumerate(G.last_token_sources()):
        kind = "targeted: append at end after the last token of every node kind"
        end = lambda t: {"rule": "append_text_comment", "text": t, "location": "end"}
        jobs.append((kind, {"rules": [end("hi")]}, src, None))
        jobs.append((kind, {"rules": [end("two\nlines")] if li % 2 else ["remove_spaces", end("hi")]}, src, None))
        if "if-expression" in label:
            jobs.append((kind, {"rules": [end("hi"), "remove_if_expression"]}, src, None))
            jobs.append((kind, {"rules": [end("two\nlines"), "remove_spaces", "remove_if_expression"]}, src, None))
    for rule, src in TOKEN_REWRITES:
        kind = "targeted: lowering rule rewriting a token that starts a line"
        jobs.append((kind, {"rules": [rule]}, src, None))
        jobs.append((kind, {"rules": ["remove_spaces", rule]}, src, None))
        jobs.append((kind, {"rules": ["remove_spaces", "remove_comments", rule, rng.choice(LINE_NEUTRAL)]}, src, None))
    for rule, src in LIST_EDITS:
        kind = "targeted: rule inserting / removing an item of a list that spans lines"
        jobs.append((kind, {"rules": [rule]}, src, None))
        jobs.append((kind, {"rules": ["remove_spaces", rule]}, src, None))
        jobs.append((kind, {"rules": ["remove_spaces", "remove_comments", rule]}, src, None))
    for ri, (label, rule, after, first) in enumerate(receiver_sources()):
        kind = "targeted: statement kind receiving the comments of a removed statement"
        jobs.append((kind, {"rules": [rule]}, after, None))
        jobs.append((kind, {"rules": ["remove_spaces", rule]}, after, None))
        if first is not None:
            kind = "targeted: statement kind receiving the comment appended at start"
            t = ["hdr", "two\nlines", "hdr\n"][ri % 3]
            a = {"rule": "append_text_comment", "text": t}
            for rules in ([a], ["remove_spaces", a], [a, "remove_spaces"]):
                jobs.append((kind, {"rules": rules}, first, t))
    rows = [{"id": i, "config": json.dumps(j[1]), "src": j[2], "trace": True} for i, j in enumerate(jobs)]
    res = _run(rows, crate="dl-c04")

    src_markers = {}
    counts, nontriv, errors = {}, {}, {}
    cases = []
    problems = []     # (kind, config, source, out, description)
    for i, (kind, c, s, shift_text) in enumerate(jobs):
        r = res[i]
        if not r["ok"]:
            if r.get("panic"):
                ctx.violation("darklua panicked", {"config": c, "source": s})
            errors[r["err"][:70]] = errors.get(r["err"][:70], 0) + 1
            continue
        out = r["out"]
        counts[kind] = counts.get(kind, 0) + 1
        if s not in src_markers:
            src_markers[s] = marker_lines(s)
        try:
            om = marker_lines(out)
        except L.LexError as ex:
            problems.append((kind, c, s, out, "output does not lex: %s" % ex))
            continue
        shift = 0
        bad = None
        if shift_text is not None:
            # every marker must move by one common amount, the number of lines the comment occupies (read from
            # the output: the comment at byte 0, when the pipeline kept it)
            first = [c for c in L.lex(out.encode("utf-8"))[1] if c.kind == "comment"][:1]
            occupied = first[0].text.count(b"\n") + 1 if first and first[0].start == 0 else None
            moves = {}
            for m, lines in om.items():
                orig = src_markers[s].get(m)
                if orig and len(orig) == 1 and len(lines) == 1:
                    moves[m] = lines[0] - orig[0]
            values = sorted(set(moves.values()))
            if len(values) > 1:
                lo = min(moves, key=lambda m: moves[m])
                hi = max(moves, key=lambda m: moves[m])
                bad = "append at start moves the markers by different amounts: %s by %d, %s by %d" % (lo, moves[lo], hi, moves[hi])
            elif values and occupied is not None and values[0] != occupied:
                bad = "append at start moves the markers by %d lines, the comment occupies %d" % (values[0], occupied)
            shift = values[0] if values else 0
        survivors = 0
        lines_seen = set()
        for m, lines in om.items():
            orig = src_markers[s].get(m)
            if not orig:
                continue
            survivors += 1
            lines_seen.add(orig[0])
            if shift_text is not None:
                continue
            # every original occurrence must still be on its line (a rule may add copies elsewhere,
            # e.g. remove_method_call repeats the receiver as first argument)
            here = set(lines)
            missing = [ln for ln in set(orig) if ln not in here]
            if missing and len(lines) <= len(orig):
                bad = "marker %s is on line %d of the input and on line %s of the output (expected shift %d)" % (
                    m, missing[0], sorted(lines), shift)
        if survivors >= 3 and len(lines_seen) >= 2:
            nontriv[kind] = nontriv.get(kind, 0) + 1
        if bad:
            problems.append((kind, c, s, out, bad))
        # quick tier: every targeted / witness job is replayed through the model, every fourth random-program job
        if len(s.encode("utf-8")) < (1800 if quick else 2500) and (
                not quick or kind.startswith(("targeted", "witness")) or i % 4 == 0):
            cases.append((i, coq_case(s, out, r["trace"])))

    # model = code on the recorded requests, lines_fit and placements evaluated in Coq
    badc = C.run_coq_cases(ctx.prop, PREAMBLE, cases, chunk=min(24, max(4, len(cases) // (C.NPROC * 3) + 1)))
    model_bad, unfit = [], []
    for cid, d in badc:
        kind, c, s, _ = jobs[cid]
        if "model=BAD" in d:
            model_bad.append((cid, d))
        elif "displaced=0" not in d:
            unfit.append((cid, d))
        elif "fit=0" in d:
            pass   # lines_fit is sufficient, not necessary
    ctx.stream("process with rule pipelines, retain_lines: recorded write requests replayed through Model/TokenGen "
               "(model vs Rust output), lines_fit and placements evaluated in Coq", len(cases),
               sum(1 for cid, _ in cases if jobs[cid][0] != "append-end"),
               [{"config": jobs[cases[k][0]][1], "source": jobs[cases[k][0]][2][:80]} for k in range(min(2, len(cases)))],
               model_mismatches=len(model_bad), lines_fit_false_or_displaced=len(unfit) + sum(1 for _, d in badc if "fit=0" in d),
               displaced=len(unfit))
    for kind in sorted(counts):
        ctx.stream("marker oracle: " + kind, counts[kind], nontriv.get(kind, 0), [])
    ctx.cov["streams"]["rejected by darklua (nothing to check)"] = {"evaluations": sum(errors.values()),
                                                                    "distinct_nontrivial": 0, "kinds": errors}

    # tokens that the (matching) model shows below their recorded line although no marker moved: copies made by
    # rules (remove_method_call repeats the receiver with its old line) or reordered names; listed in the evidence
    observations = []
    for cid, d in sorted(unfit, key=lambda x: len(jobs[x[0]][2])):
        kind, c, s, _ = jobs[cid]
        if any(p[1] is c and p[2] is s for p in problems):
            continue
        toks = displaced_tokens(s, res[cid]["trace"])
        if classify_problem(c, s, res[cid]["out"]) is not None:
            problems.append((kind, c, s, res[cid]["out"], "a token with a recorded line is written below it: %r (%s)" % (toks[:2], d)))
            continue
        if len(observations) < 4:
            observations.append({"config": c, "source": s[:200], "displaced": toks[:3], "coq": d})
    ctx.cov["streams"]["tokens written below their recorded line with no marker moved (not counted as violations: copies "
                       "and reordered names; see samples)"] = {"evaluations": len(unfit), "distinct_nontrivial": 0,
                                                               "samples": observations}

    reported = {}
    for kind, c, s, out, what in sorted(problems, key=lambda p: len(p[2])):
        key = classify_problem(c, s, out)
        tag = key or ("unclassified:" + kind)
        reported[tag] = reported.get(tag, 0) + 1
        if reported[tag] > (1 if key else 2):
            continue
        small = s
        if key is None or key not in ctx.known:
            small = S.shrink(s, still_fails(c, by_model="recorded line" in what), max_tests=300)
        so = _run([{"id": 0, "config": json.dumps(c), "src": small}], crate="dl-c04")[0].get("out")
        ctx.violation("%s: %s" % (kind, what), {"config": c, "source": small, "output": so, "original_source": s,
                                                "original_output": out,
                                                "replay": "process the source with this configuration (generator retain_lines) "
                                                          "and compare the line of each 'M<n>' literal"}, key=key)

    bundle_bad = run_bundles(ctx, rng, quick)
    model_bad = model_bad + bundle_bad

    if model_bad and not ctx.violations:
        cid, d = model_bad[0]
        ctx.violation("correspondence broken: replaying the recorded write requests through Model/TokenGen.generate does "
                      "not give the Rust output (theorems no longer apply to the code)",
                      {"config": jobs[cid][1] if isinstance(cid, int) else cid[0],
                       "source": jobs[cid][2] if isinstance(cid, int) else cid[1], "diag": d, "mismatches": len(model_bad)},
                      found_input=False)
    if not proofs_ok and not ctx.violations:
        failed = [n for n, ok, _ in ctx.obligations if not ok]
        ctx.violation("proof obligation no longer checks: " + "; ".join(failed), {"obligations": failed}, found_input=False)


def run_bundles(ctx, rng, quick):
    """bundling stream: returns the list of model/code mismatches [((config, entry), diag)]"""
    cases = []
    fixed = [
        (3, ["newline", "no-newline", "newline"]),
        (3, ["newline", "comment-line", "newline"]),
        (3, ["no-newline", "no-newline", "no-newline"]),
        (4, ["newline", "comment-same-line", "long-comment", "blank-lines"]),
        (2, ["comment-line-newline", "no-newline"]),
        (2, ["multi-line-last-token", "newline"]),
        (3, ["newline", "multi-line-last-token-newline", "no-newline"]),
    ]
    for n, endings in fixed:
        cases.append(bundle_case(rng, 0, n, endings, simple=True))
        cases.append(bundle_case(rng, 0, n, endings, simple=False))
    for k, (name, _) in enumerate(MULTILINE_ENDINGS):
        # a module ending in a multi-line construct, followed by a module with code on its first lines
        cases.append(bundle_case(rng, 0, 2, [name, "newline"], simple=True))
        if k % 3 == 0 or not quick:
            cases.append(bundle_case(rng, 0, 3, ["no-newline", name, "comment-line"], simple=(k % 2 == 0)))
    for i in range(14 if quick else 120):
        cases.append(bundle_case(rng, i, 2 + i % 3))
    jobs = []
    # rules that rewrite the content of a token (convert_luau_number: numerals; remove_compound_assignment: operators)
    # applied to the bundled tree, whose tokens no longer reference the source
    for k in range(4 if quick else 24):
        n = 1 + k % 3
        endings = [["newline", "no-newline", "comment-line"][(k + j) % 3] for j in range(n)]
        entry, files, used = bundle_case(rng, k, n, endings, numeric=True)
        for c in BUNDLE_TOKEN_REWRITE_CONFIGS:
            jobs.append((c, entry, files, used))
    for entry, files, used in cases:
        for c in BUNDLE_CONFIGS:
            jobs.append((c, entry, files, used))
        if "print(Ma1)" in files.get("src/ma.lua", ""):
            jobs.append((BUNDLE_CONFIG_DEFAULT, entry, files, used))
    rows = [{"id": i, "config": json.dumps(j[0]), "src": j[1], "files": j[2], "trace": True} for i, j in enumerate(jobs)]
    res = _run(rows, crate="dl-c04")
    errors = {}
    checked = nontrivial = 0
    coq_cases = []
    reported = {}
    for i, (c, entry, files, used) in enumerate(jobs):
        r = res[i]
        if not r["ok"]:
            if r.get("panic"):
                ctx.violation("darklua panicked while bundling", {"config": c, "source": entry, "files": files})
            errors[r["err"][:70]] = errors.get(r["err"][:70], 0) + 1
            continue
        checked += 1
        if len(files) >= 2 and any(u != "newline" for u in used):
            nontrivial += 1
        problem = check_bundle(entry, files, r["out"])
        if len(entry.encode("utf-8")) < 2500 and len(coq_cases) < (40 if quick else 300):
            coq_cases.append((i, coq_case(entry, r["out"], r["trace"])))
        if problem is None:
            continue
        key = None
        if any(multi_line_last_token(s) for s in files.values()):
            key = KEY_BUNDLE_MULTILINE
        tag = key or "unclassified"
        reported[tag] = reported.get(tag, 0) + 1
        if reported[tag] > 2:
            continue
        ctx.violation("bundle: " + problem, {"config": c, "source": entry, "files": files, "module_endings": used,
                                             "output": r["out"],
                                             "replay": "process src/main.lua with the files next to it and this configuration; "
                                                       "compare the line of every M<file><n> marker with its line in its own file"},
                      key=key)
    badc = C.run_coq_cases(ctx.prop, PREAMBLE, coq_cases, chunk=8, tag="bundle") if coq_cases else []
    mism = [((jobs[cid][0], jobs[cid][1]), d) for cid, d in badc if "model=BAD" in d]
    ctx.stream("bundling (require_mode path, retain_lines): an entry and 2-4 modules ending with / without a final line "
               "break, a trailing comment, a multi-line last token; every marker of a file shifted by one amount equal to "
               "the height of the files above it; recorded write requests replayed through the model", checked, nontrivial,
               [{"entry": jobs[0][1][:80], "modules": list(jobs[0][2].values())[:2], "endings": jobs[0][3]}],
               model_replays=len(coq_cases), model_mismatches=len(mism), rejected=errors)
    return mism


def first_bad_marker(c, s, out):
    try:
        im, om = marker_lines(s), marker_lines(out)
    except L.LexError:
        return "lex"
    for m, lines in sorted(om.items()):
        orig = im.get(m)
        if orig and len(lines) <= len(orig) and any(ln not in lines for ln in set(orig)):
            return m
    return None


def still_fails(c, by_model=False):
    def fails(candidate):
        rr = _run([{"id": 0, "config": json.dumps(c), "src": candidate, "trace": by_model}], crate="dl-c04")[0]
        if not rr["ok"]:
            return False
        if by_model:
            return bool(displaced_tokens(candidate, rr["trace"])) and classify_problem(c, candidate, rr["out"]) is None
        return first_bad_marker(c, candidate, rr["out"]) is not None and not any(
            isinstance(x, dict) and x.get("rule") == "append_text_comment" and x.get("location") != "end"
            for x in c.get("rules", []))
    return fails


KEY_END_SEMI = "append-end-before-semicolon:local_a=1;"
KEY_END_TYPE = "append-end-before-trailing-type:type_T_=_number"
KEY_METHOD_SELF = "method-definition-self-param:multi-line-parameters"
KEY_IF_FALSE = "unused-if-branch-constant-first-branch:then-token-trivia"
KEY_ELSEIF_TRUE = "unused-if-branch-constant-elseif:else-token-line"

CONSTANT_WORDS = {b"true", b"false", b"nil", b"not", b"and", b"or"}


def has_constant_elseif(src, keyword=b"elseif"):
    """an `elseif <condition> then` (or `if`, by `keyword`) whose condition contains no name (so it may be constant)"""
    try:
        toks, _ = L.lex(src.encode("utf-8"))
    except L.LexError:
        return False
    i = 0
    while i < len(toks):
        if toks[i].text == keyword and toks[i].kind == "name":
            if i + 1 < len(toks) and toks[i + 1].text in (b"function", b"{"):
                return True      # a function or table value is a constant (true) condition as well
            j = i + 1
            constant = True
            depth = 0
            while j < len(toks) and not (toks[j].text == b"then" and depth == 0):
                t = toks[j]
                if t.text in (b"if", b"function"):
                    depth += 1
                if t.kind == "name" and t.text not in CONSTANT_WORDS and t.text not in (b"if", b"then", b"else", b"elseif"):
                    constant = False
                j += 1
            if constant and j > i + 1:
                return True
        i += 1
    return False


def classify_problem(c, s, out):
    """class key of a failure (input-side, decidable)"""
    rules = c.get("rules", [])
    if any(isinstance(x, dict) and x.get("rule") == "append_text_comment" and x.get("location") == "end" for x in rules):
        try:
            toks, _ = L.lex(s.encode("utf-8"))
        except L.LexError:
            return None
        if toks and toks[-1].text == b";":
            return KEY_END_SEMI
        if L.ends_in_type_annotation(s):
            return KEY_END_TYPE
    names = [x if isinstance(x, str) else x.get("rule") for x in rules] if "rules" in c else DEFAULT_RULES
    if "remove_spaces" in names:
        from . import c18
        if c18.minus_before_comment(s):
            return c18.KEY_MINUS
        if c18.dot_number_before_word(s):
            return c18.KEY_DOTNUM
    if "remove_comments" in names:
        from . import c18
        if c18.dot_number_before_word(s):
            return c18.KEY_DOTNUM
    if "remove_unused_if_branch" in names and has_constant_elseif(s):
        return KEY_ELSEIF_TRUE
    if "remove_unused_if_branch" in names and has_constant_elseif(s, b"if") and not (
            "remove_spaces" in names and names.index("remove_spaces") < names.index("remove_unused_if_branch")):
        return KEY_IF_FALSE
    if "convert_luau_number" in names and re.search(r"(?m)^\s*0[bB][01_]+", s):
        return KEY_BINARY_LITERAL
    removers = [i for i, n in enumerate(names) if n in REMOVERS]
    if removers and not ("remove_comments" in names and names.index("remove_comments") < removers[0]):
        if multiline_comment_then_comment(s):
            return KEY_COMMENT_TRANSFER
        # look at the write requests right after each statement-removing rule (a later remove_comments would hide
        # the transferred comments but not the line breaks re-created between them)
        rules = c.get("rules", DEFAULT_RULES)
        for ri in removers:
            prefix = dict(c, rules=list(rules[:ri + 1]))
            rr = _run([{"id": 0, "config": json.dumps(prefix), "src": s, "trace": True}], crate="dl-c04")[0]
            if rr["ok"] and transferred_comments_out_of_order(rr["trace"], s):
                return KEY_COMMENT_TRANSFER
    if "remove_compound_assignment" in names and compound_target_spans_lines(s):
        return KEY_COMPOUND_MULTILINE
    if "remove_compound_assignment" in names and compound_index_key_hoisted(s, "remove_spaces" in names[:1]):
        return KEY_COMPOUND_KEY
    culprit = culprit_rule(c, s)
    if culprit in KNOWN_CULPRITS and KNOWN_CULPRITS[culprit](s):
        return "line-shift:" + culprit
    if "remove_method_definition" in names and method_with_multiline_parameters(s) and not (
            "remove_spaces" in names and names.index("remove_spaces") < names.index("remove_method_definition")):
        return KEY_METHOD_SELF
    return None


# rules for which a line-shifting defect is recorded in known_findings.txt (key line-shift:<rule>)
def _lexed(src):
    data = src.encode("utf-8")
    try:
        toks, comments = L.lex(data)
    except L.LexError:
        return data, [], []
    return data, toks, [c for c in comments if c.kind == "comment"]


def _comment_touching(data, comments, a, b):
    """a comment inside [a, b), or directly in front of a / behind b with only blanks in between"""
    for c in comments:
        if a <= c.start < b:
            return True
        if c.end <= a and not data[c.end:a].strip():
            return True
        if c.start >= b and not data[b:c.start].strip(b" \t"):
            return True
    return False


def receiver_with_comment(src):
    """recorded remove_method_call defect: the receiver NAME of a method call carries a comment (before it, or
    between it and the `:`), which is cloned with it"""
    data, toks, comments = _lexed(src)
    for j in range(1, len(toks)):
        if toks[j].text == b":" and toks[j - 1].kind == "name" and (j < 2 or toks[j - 2].text not in (b".", b":")):
            r = toks[j - 1]
            if any(r.end <= c.start < toks[j].start for c in comments):
                return True
            if any(c.end <= r.start and not data[c.end:r.start].strip() and (j < 2 or c.start >= toks[j - 2].end) for c in comments):
                return True
    return False


def empty_do_with_comment(src):
    """recorded remove_empty_do defect: an empty `do end` with a comment on its `do` / `end` tokens"""
    data, toks, comments = _lexed(src)
    for j in range(len(toks) - 1):
        if toks[j].text == b"do" and toks[j + 1].text == b"end" and (j == 0 or toks[j - 1].text not in (b"while", b"for")):
            # `while x do end` / `for .. do end` are not do statements: the `do` then follows an expression; only a
            # bare `do` (after a statement boundary) is; accept any, the culprit rule decides
            if _comment_touching(data, comments, toks[j].start, toks[j + 1].end):
                return True
    return False


def local_with_several_names_over_lines(src):
    """recorded remove_unused_variable defect: a `local` with two or more names (an unused one is moved behind the
    used ones) whose names / values span lines"""
    data, toks, comments = _lexed(src)
    for j, t in enumerate(toks):
        if t.text == b"local" and j + 2 < len(toks) and toks[j + 1].kind == "name" and toks[j + 2].text == b",":
            k = j + 1
            while k + 1 < len(toks) and toks[k + 1].text == b"," and k + 2 < len(toks):
                k += 2
            if toks[k].line > t.line or (k + 2 < len(toks) and toks[k + 1].text == b"=" and toks[k + 2].line > t.line):
                return True
    return False


# rules with a recorded line-shifting defect (key line-shift:<rule>) and the input-side condition of that defect
KNOWN_CULPRITS = {"remove_method_call": receiver_with_comment, "remove_empty_do": empty_do_with_comment,
                  "remove_unused_variable": local_with_several_names_over_lines}


def culprit_rule(c, s):
    """the first rule of the pipeline that alone (after remove_spaces when the pipeline starts with it)
    moves a marker of this source; None when no single rule does"""
    rules = c.get("rules", DEFAULT_RULES)
    first_spaces = bool(rules) and rules[0] == "remove_spaces"
    seen = []
    for r in rules:
        name = r if isinstance(r, str) else r.get("rule")
        if name in seen or name in ("remove_spaces", "append_text_comment"):
            continue
        seen.append(name)
        single = {"rules": (["remove_spaces"] if first_spaces else []) + [r]}
        rr = _run([{"id": 0, "config": json.dumps(single), "src": s}], crate="dl-c04")[0]
        if rr["ok"] and first_bad_marker(single, s, rr["out"]) is not None:
            return name
    return None


def method_with_multiline_parameters(src):
    """`function a.b:c(` ... `)` with a line break between the parentheses and at least one parameter"""
    try:
        toks, _ = L.lex(src.encode("utf-8"))
    except L.LexError:
        return False
    for i, t in enumerate(toks):
        if t.text == b"function" and i + 1 < len(toks) and toks[i + 1].kind == "name":
            j = i + 1
            method = False
            while j < len(toks) and toks[j].text != b"(":
                if toks[j].text == b":":
                    method = True
                j += 1
            if not method or j >= len(toks):
                continue
            k = j
            while k < len(toks) and toks[k].text != b")":
                k += 1
            if k < len(toks) and k > j + 1 and toks[k].line > toks[j].line:
                return True
    return False


def replay(ctx, path):
    r = json.load(open(path))
    print(json.dumps(r, indent=1))
    rep = r.get("replay", {})
    if "config" in rep and "source" in rep:
        C.build_harness("dl-c04")
        res = _run([{"id": 0, "config": json.dumps(rep["config"]), "src": rep["source"]}], crate="dl-c04")
        print("darklua output now:", json.dumps(res[0]))
    return 0


# ---- search aid only: python port of Model/TokenGen.placements (the verdict on these cases comes from Coq)

def _is_single_line_comment(content):
    # /repo fc507f0: a long comment iff `--[` `=`* `[`
    return re.match(r"--\[=*\[", content) is None


def displaced_tokens(src, trace):
    data = src.encode("utf-8")

    def read(p):
        if p[0] == 0:
            return data[p[1]:p[2]].decode("utf-8", "replace"), p[3]
        if p[0] == 1:
            return bytes.fromhex(p[1]).decode("utf-8", "replace"), p[2]
        return bytes.fromhex(p[1]).decode("utf-8", "replace"), None

    line = 1
    commenting = False
    out = []

    def trivia(ts):
        nonlocal line, commenting
        for is_comment, p in ts:
            content, _ = read(p)
            if is_comment:
                single = _is_single_line_comment(content)
                if not single and commenting:
                    line += 1
                    commenting = False
                line += content.count("\n")
                if single:
                    commenting = True
            else:
                line += content.count("\n")
                if commenting and "\n" in content:
                    commenting = False

    for e in trace:
        if e["t"] == "tok":
            trivia(e["l"])
            content, ln = read(e["p"])
            if content:
                if commenting:
                    line += 1
                    commenting = False
                if ln is not None:
                    if ln > line:
                        line = ln
                    if line != ln:
                        out.append((content, ln, line))
                line += content.count("\n")
            trivia(e["r"])
        elif e["t"] == "sym":
            if commenting:
                line += 1
                commenting = False
            line += bytes.fromhex(e["c"]).count(b"\n")
        else:
            line += bytes.fromhex(e["c"]).count(b"\n")
    return out
