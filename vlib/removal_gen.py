"""Correspondence stream of C17: the Gallina models of remove_assertions, remove_debug_profiling
and inject_global_value (coq/Model/Removal.v: preserve_arguments_side_effects,
expressions_as_statement / _expression, the call matchers, the ScopeVisitor + IdentifierTracker
traversal, the `select` reservation, the JSON value -> expression conversion) against the real
rules, with the engine of vlib/refactor_gen.py.

Templates: calls of the targeted functions with 0..3 arguments (pure / effectful, tuple / string /
table form) in statement, value and prefix position, look-alikes (methods, other tables, indexed
access), every binding construct shadowing `assert` / `debug` / `select` / `_G` / the injected
name at every scope, the visit-order dependent `select` reservation, injected values of every
JSON kind."""
import json
import random
import struct

from . import common as C
from . import refactor_gen as R
from .refactor_gen import SCOPES, ESCOPES, EFORMS, NEST, fill, wrap_fn

# ---------------------------------------------------------------------------------------------
# configurations

VALUES = [None, True, False, 0, 3, -1, 4294967296, 9007199254740993, 1.5, -2.5, 1000.0, 0.05, -0.0, 1e300, 123456.0,
          "text", "", "a\"b", "end", [], ["a", "b"], [1, 2], ["a", 1], [[]], [None, True], {}, {"a": 1},
          {"b": 1, "a": 2}, {"a b": 1, "end": 2, "_ok1": 3}, {"k": [1, {"z": None}], "f": 1.5, "s": ["x"]}]


def coq_bytes(s):
    return 'bx "%s"' % s.encode().hex()


def coq_json(v):
    if v is None:
        return "JNull"
    if v is True:
        return "(JBool true)"
    if v is False:
        return "(JBool false)"
    if isinstance(v, int):
        return "(JInt (%d)%%Z)" % v
    if isinstance(v, float):
        return "(JFloat %d)" % struct.unpack("<Q", struct.pack("<d", v))[0]
    if isinstance(v, str):
        return "(JStr (%s))" % coq_bytes(v)
    if isinstance(v, list):
        return "(JArr [%s])" % "; ".join(coq_json(x) for x in v)
    items = sorted(v.items(), key=lambda kv: kv[0].encode())
    return "(JObj [%s])" % "; ".join("(%s, %s)" % (coq_bytes(k), coq_json(x)) for k, x in items)


def lua_value(v):
    if v is None:
        return "nil"
    if v is True:
        return "true"
    if v is False:
        return "false"
    if isinstance(v, (int, float)):
        return "(%r)" % v if v >= 0 and str(v) != "-0.0" else "(-%r)" % abs(v)
    if isinstance(v, str):
        return json.dumps(v)
    if isinstance(v, list):
        return "{%s}" % ", ".join(lua_value(x) for x in v)
    return "{%s}" % ", ".join("[%s] = %s" % (json.dumps(k), lua_value(x)) for k, x in v.items())


def inject_config(ident, v):
    return ("inject_global_value", '{rule:"inject_global_value", identifier:%s, value:%s}' % (json.dumps(ident), json.dumps(v)),
            "inject (%s) %s" % (coq_bytes(ident), coq_json(v)), ident, v)


CONFIGS = [
    ("remove_assertions", '"remove_assertions"', "rule_remove_assertions true"),
    ("remove_assertions", '{rule:"remove_assertions", preserve_arguments_side_effects:false}', "rule_remove_assertions false"),
    ("remove_debug_profiling", '"remove_debug_profiling"', "rule_remove_debug_profiling true"),
    ("remove_debug_profiling", '{rule:"remove_debug_profiling", preserve_arguments_side_effects:false}',
     "rule_remove_debug_profiling false"),
] + [inject_config("X", v) for v in VALUES] + [inject_config("_G", 5), inject_config("select", 7), inject_config("self", 1)]
ASSERT, ASSERT_NP, PROFILE, PROFILE_NP = 0, 1, 2, 3
INJECT0 = 4
INJECT_G = INJECT0 + len(VALUES)
INJECT_SELECT = INJECT_G + 1
INJECT_SELF = INJECT_G + 2


def env_prelude(rules):
    """the modified environment the input must be run in to be the reference of the output"""
    out = ""
    if "remove_assertions" in rules:
        out += "assert = function(...) return ... end "
    if "remove_debug_profiling" in rules:
        out += "debug.profilebegin = function() end debug.profileend = function() end "
    for c in CONFIGS[INJECT0:]:
        if c[1] in rules and c[3] not in ("_G", "select"):
            out += "%s = %s " % (c[3], lua_value(c[4]))
    return out


# ---------------------------------------------------------------------------------------------
# templates

PURE = ["x", "1", "'s'", "nil", "true", "...", "function() end", "(x)", "x :: any", "a and b", "not x", "{}", "{1, x}",
        "a or 2", "(nil)", "false and f()", "true or f()"]
EFFECT = ["f()", "(f())", "f() :: any", "((f()) :: any)", "t.x", "t[1]", "a + b", "#t", "-x", "a .. b", "o:m()", "{f()}",
          "{k = g()}", "`a{x}`", "a == b", "a < b", "if f() then 1 else 2", "x.y.z", "(t.x)", "a and f()", "a or f()",
          "f()()", "f().x", "(a + b)", "function() end + 1"]


def call_variants(callee, rnd, thorough):
    out = ["%s()" % callee, "%s's'" % callee, "%s{}" % callee, "%s{f(), k = g(), [h()] = 1, x, [x] = f(), [f()] = g()}" % callee,
           "%s{x, k = 1}" % callee, "%s{t.x, (f())}" % callee]
    for a in PURE + EFFECT:
        out.append("%s(%s)" % (callee, a))
    pool = PURE[:8] + EFFECT[:12]
    for a in pool:
        for b in pool:
            out.append("%s(%s, %s)" % (callee, a, b))
    for _ in range(400 if thorough else 80):
        out.append("%s(%s)" % (callee, ", ".join(rnd.choice(PURE + EFFECT) for _ in range(3))))
    for _ in range(100 if thorough else 20):
        out.append("%s(%s)" % (callee, ", ".join(rnd.choice(PURE + EFFECT) for _ in range(rnd.choice([4, 5])))))
    return out


def gen_calls(callees, lookalikes, shadow_names, rnd, thorough):
    out = []
    calls = []
    for c in callees:
        calls += call_variants(c, rnd, thorough)
    nested = []
    for c in callees:
        for d in callees:
            nested += ["%s(%s(f()))" % (c, d), "%s(%s(x))" % (c, d), "%s(%s(f(), x), g())" % (c, d),
                       "%s((%s(f())))" % (c, d), "%s(x, %s(f(), g()))" % (c, d), "%s{%s(f())}" % (c, d)]
    calls += nested
    for c in calls:
        out.append(wrap_fn(c))                      # statement position
        out.append(wrap_fn("local r = %s" % c))     # value position
    for c in lookalikes:
        out.append(wrap_fn("%s local r = %s" % (c, c)))
    # prefix position and other syntactic slots
    for c in rnd.sample(calls, 300 if thorough else 80) + lookalikes:
        out.append(wrap_fn(rnd.choice(NEST) % fill(rnd.choice(EFORMS), c)))
    # shadowing
    probe = [callees[0] + "(f())", callees[0] + "(x, g())", callees[-1] + "(f(), g())"]
    for n in shadow_names:
        for sc in SCOPES:
            p = rnd.choice(probe)
            out.append(sc.replace("N", n) % ("%s local r = %s" % (p, p)))
        for sc in ESCOPES:
            out.append(sc.replace("N", n).replace("E", rnd.choice(probe)))
    for _ in range(800 if thorough else 200):
        n = rnd.choice(shadow_names)
        c = rnd.choice(calls)
        out.append(rnd.choice(SCOPES).replace("N", n) % (rnd.choice(NEST) % fill(rnd.choice(EFORMS), c)))
    return out


def gen_assert(rnd, thorough):
    look = ["t.assert(f())", "t:assert(f())", "assert.x(f())", "assert:m(f())", "(assert)(f())", "_G.assert(f())",
            "assert(f()).x()", "assert(f())()", "assert(f()):m()", "ASSERT(f())", "assert", "local r = assert",
            "assert<<T>>(f())"]
    out = gen_calls(["assert"], look, ["assert", "select", "_"], rnd, thorough)
    # the `select` reservation depends on the visit order
    sel = ["local r = assert(a, b)", "local select = 1", "local r2 = assert(c, d)", "local function g() return assert(e, f()) end",
           "local r3 = assert()", "local r4 = assert(x)", "do local select local r5 = assert(x) end",
           "local r6 = { assert(a, b), k = assert(c, d) }", "assert(a, b)", "local function select() return assert(a, b) end",
           "for select = 1, 2 do local r7 = assert() end", "local r8 = function(select) return assert(1, 2) end",
           "repeat local select until assert(a, b)", "local r9: typeof(assert(a, b)) = 1", "assert(assert(a, b), assert(c, d))",
           "local select = assert(a, b)", "if assert(a, b) then local select = assert(1, 2) end",
           "local r10 = assert(a, b).x", "local __DARKLUA_REMOVE_CALL_RESERVED_1 = 1", "function t.select() return assert(a, b) end",
           "local function g2(...) local select = ... return assert(...) end"]
    for _ in range(1200 if thorough else 300):
        k = rnd.choice([2, 3, 4, 5])
        out.append(" ".join(rnd.choice(sel) for _ in range(k)))
    return out


def gen_profile(rnd, thorough):
    look = ["debug.traceback(f())", "debug:profilebegin(f())", "debug.profilebegin:m(f())", "t.debug.profilebegin(f())",
            "dbg.profilebegin(f())", "debug['profilebegin'](f())", "(debug).profilebegin(f())", "debug.profilebegin.x(f())",
            "profilebegin(f())", "debug.profilebegin", "debug.profileend(f()).x()", "debug.profilebegin(f())()",
            "debug.profileend(f()):m()", "debug.debug.profilebegin(f())", "debug.profilebegin<<T>>(f())"]
    return gen_calls(["debug.profilebegin", "debug.profileend"], look, ["debug", "select", "profilebegin"], rnd, thorough)


INJECT_FORMS = ["X", "_G.X", "_G[\"X\"]", "_G['X']", "_G[X]", "_G[ [[X]] ]", "_G.X.y", "_G[\"X\"].y", "X.y", "X.y.z", "X[1]",
                "X()", "X(X)", "X:m()", "X.y()", "(X)", "(X).y", "t.X", "t:X()", "t[X]", "X[X]", "{ X = 1 }", "{ X }",
                "{ [X] = X }", "_G.Y", "_G[\"Y\"]", "G.X", "_G._G.X", "_G.X()", "x._G.X", "(_G).X", "(_G)[\"X\"]", "_G:X()",
                "_G", "_G[\"X\" .. \"\"]", "`a{X}`", "X<<T>>", "_G.X<<T>>()"]
INJECT_STMTS = ["X = 1", "_G.X = 1", "_G[\"X\"] = 1", "X.y = 1", "X.y.z = 1", "X[1] = 2", "X[X] = X", "_G.X.y = 1", "X += 1",
                "X.y += X", "_G.X += 1", "function X() end", "function X.f() return X end", "function X:m() return X, self end",
                "function t:X() return X end", "local X = X", "local X = 1 local y = X", "local function X() return X end",
                "X()", "X.y()", "X:m(X)", "_G.X()", "_G[\"X\"]()", "for X = X, X do local a = X end",
                "for X in X do local a = X end", "for k, v in pairs(X) do end", "local a: typeof(X) = X", "type T = typeof(X)",
                "type T = typeof(_G.X)", "repeat local X = 1 until X", "repeat until X",
                "local function g(X) return X end return g(X)", "return X, _G.X"]


def gen_inject(rnd, thorough):
    """returns (generic sources, sources for _G / select / self configs)"""
    out = []
    for e in INJECT_FORMS:
        for f in EFORMS:
            out.append(wrap_fn(fill(f, e)))
    for s in INJECT_STMTS:
        out.append(s)
        out.append(wrap_fn(rnd.choice(NEST) % s))
    probe = "local r = { X, _G.X, _G[\"X\"], X.y } X.z = X"
    for n in ("X", "_G"):
        for sc in SCOPES:
            out.append(sc.replace("N", n) % probe)
        for sc in ESCOPES:
            out.append(sc.replace("N", n).replace("E", rnd.choice(["X", "_G.X", "_G[\"X\"]", "X.y", "X()"])))
    for _ in range(1500 if thorough else 300):
        n = rnd.choice(["X", "_G", "Y"])
        e = rnd.choice(INJECT_FORMS)
        body = rnd.choice(NEST) % (rnd.choice(INJECT_STMTS + [fill(rnd.choice(EFORMS), e)] * 3))
        out.append(rnd.choice(SCOPES).replace("N", n) % body)
    special = ["local r = _G.X", "local r = _G", "local r = _G._G", "_G.x = 1", "local _G = 1 local r = _G", "local r = _G[\"_G\"]",
               "local r = select(1, 2)", "local r = _G.select", "local select = 1 local r = select", "select.x = 1",
               "function t:m() return self end", "function t.f() return self end", "function t:m() return self.x end",
               "local r = self", "function t:m() local function g() return self end end", "self.x = 1",
               "function t:m() self.x = 1 end", "function self:m() return self end"]
    return out, special


def run_stream(ctx, prop):
    rnd = random.Random(ctx.seed ^ 0xc17)
    thorough = ctx.tier != "quick"
    jobs = []
    a_srcs = gen_assert(rnd, thorough)
    p_srcs = gen_profile(rnd, thorough)
    i_srcs, special = gen_inject(rnd, thorough)
    for s in a_srcs:
        jobs.append(((ASSERT,), s))
    for s in rnd.sample(a_srcs, len(a_srcs) // 3):
        jobs.append(((ASSERT_NP,), s))
    for s in p_srcs:
        jobs.append(((PROFILE,), s))
    for s in rnd.sample(p_srcs, len(p_srcs) // 3):
        jobs.append(((PROFILE_NP,), s))
    # every JSON kind on a fixed set of programs, then all programs with a random value
    fixed = ["return X", "return X.y, _G.X, _G[\"X\"], X()", "local X return X", "X.y = X"]
    for k in range(len(VALUES)):
        for s in fixed:
            jobs.append(((INJECT0 + k,), s))
    for s in i_srcs:
        jobs.append(((INJECT0 + rnd.randrange(len(VALUES)),), s))
    for s in special + rnd.sample(i_srcs, 60):
        for cfg in (INJECT_G, INJECT_SELECT, INJECT_SELF):
            jobs.append(((cfg,), s))
    # compositions
    pool = a_srcs + p_srcs + i_srcs
    for _ in range(400 if thorough else 80):
        order = [ASSERT, PROFILE, INJECT0 + rnd.randrange(len(VALUES))]
        rnd.shuffle(order)
        body = "\n".join("do %s end" % rnd.choice(pool) for _ in range(3))
        jobs.append((tuple(order), body))
    return R.run_model_stream(
        ctx, prop, "local rewrites: model of the rule (Model/Removal.v) vs the rule applied to the tree",
        CONFIGS, jobs, env_prelude=env_prelude)


# ---------------------------------------------------------------------------------------------
# behavioural stream: reference run (input in the modified environment) vs run of the REAL rule's
# output, on observable template programs; differences are attributed to the recorded finding
# classes by the decidable predicates of coq/Model/RemovalKnown.v

BEHAVIOUR_PREAMBLE = """From Coq Require Import ZArith.
From DL Require Import Lib.Bytes Lib.F64 Lua.Syntax Lua.Sem Lua.RunCheck Model.RemovalKnown.
Open Scope N_scope.
Open Scope string_scope.
Definition bx := unhex.
Definition nm := of_string.
(* case = (reference program, (input program, output program));
   verdict = compare_all (0 same, 1 no verdict, 2 different) + 10 * known_class input *)
Definition stat_case (c : block * (block * block)) : N :=
  compare_all 300%nat (fst c) (snd (snd c)) + 10 * known_class (fst (snd c)).
"""

KNOWN_KEYS = {1: "remove_call:directly-nested-removed-call-survives",
              2: "remove_call:removed-call-in-multivalue-tail-yields-one-nil",
              3: "remove_call:directly-nested-removed-call-survives"}

NESTED_SHAPES = ["assert(assert(h()))", "local r = assert(assert(h())) return r", "assert((assert(h())))",
                 "assert(x, assert(h()))", "debug.profilebegin(debug.profileend(f()))",
                 "debug.profileend(x, debug.profilebegin(f()))", "return assert(assert(f()))"]
TAIL_SHAPES = ["return select('#', debug.profileend())", "return select('#', assert())",
               "local r = { debug.profilebegin('a') } return #r", "return debug.profilebegin(f())",
               "return (function(...) return select('#', ...) end)(1, debug.profileend(g()))"]
PLAIN_SHAPES = ["assert(f(), 'msg') return 1", "local r = assert(f()) return r", "local r, r2 = assert(f(), g()) return r, r2",
                "local r, r2, r3 = assert(g()) return r, r2, r3", "debug.profilebegin('x') f() debug.profileend() return 2",
                "local r = debug.profilebegin(f()) return r", "assert(x, f()) return x", "assert(t.x) return t.x",
                "assert(f(), g(), t.x, h()) return 3", "local r = debug.profileend(f(), t.x, g()) return r",
                "local assert = function(...) ext_s(...) return 5 end return assert(f())",
                "local debug = { profilebegin = function(...) ext_s(...) return 6 end } return debug.profilebegin(f())",
                "local function w(assert) return assert(f()) end return w(g)", "local r = (assert(f(), 1)) return r",
                "local select = 1 local r, r2 = assert(f(), g()) return r, r2, select",
                "if assert(f()) then return 1 end return 2", "local r = assert(f()) + assert(g(), 1) return r",
                "return X", "return _G.X, _G['X']", "local X = 1 return X", "local function w(X) return X end return w(2), X",
                "local r = { X, k = X } return r[1], r.k", "if X then return 1 else return 2 end", "return X == nil, X == false",
                "local _G = { X = 'shadow' } return _G.X, X", "return type(X)"]


def run_behaviour(ctx, prop):
    rnd = random.Random(ctx.seed ^ 0xbe17)
    thorough = ctx.tier != "quick"
    scalar_cfgs = [INJECT0 + k for k, v in enumerate(VALUES) if v is None or isinstance(v, (bool, int, float, str))]
    jobs = []
    for body in NESTED_SHAPES + TAIL_SHAPES + PLAIN_SHAPES:
        for ids in ((ASSERT,), (PROFILE,), (ASSERT, PROFILE), (rnd.choice(scalar_cfgs),), (PROFILE, ASSERT, rnd.choice(scalar_cfgs))):
            jobs.append((ids, body))
    # ordinary templates made observable
    a_srcs = [s for s in gen_assert(rnd, False) if s.startswith("local function w(")]
    p_srcs = [s for s in gen_profile(rnd, False) if s.startswith("local function w(")]
    for s in rnd.sample(a_srcs, 400 if thorough else 60):
        jobs.append(((ASSERT,), s + "\nreturn w(1, 2)"))
    for s in rnd.sample(p_srcs, 400 if thorough else 60):
        jobs.append(((PROFILE,), s + "\nreturn w(1, 2)"))
    progs = []
    for ids, body in jobs:
        rules = "[" + ", ".join(CONFIGS[i][1] for i in ids) + "]"
        progs.append((rules, R.SEARCH_PRELUDE + body))
    outs = R.apply_batch(progs)
    refs = R.apply_batch([("[]", env_prelude(r) + s) for r, s in progs])
    cases, index, errors = [], {}, 0
    for (rules, src), (t_in, t_out), (t_ref, _o) in zip(progs, outs, refs):
        if t_in.startswith("ERR:") or t_out.startswith("ERR:") or t_ref.startswith("ERR:"):
            errors += 1
            continue
        k = len(cases)
        index[k] = (rules, src, t_in != t_out)
        cases.append((k, "(%s, (%s, %s))" % (t_ref, t_in, t_out)))
    stats = C.run_coq_stats(prop, BEHAVIOUR_PREAMBLE, cases, chunk=12, tag="behaviour")
    same = [k for k, v in stats.items() if v % 10 == 0]
    noverdict = [k for k, v in stats.items() if v % 10 == 1]
    bad = sorted(k for k, v in stats.items() if v % 10 == 2)
    ctx.stream("templates: run(input in the modified environment) vs run(the rule's output) in the Coq reference interpreter",
               len(cases), len({index[k][1] + index[k][0] for k in same if index[k][2]}),
               [{"rules": index[k][0], "source": index[k][1]} for k in same[:2]],
               same=len(same), no_verdict=len(noverdict), differing=len(bad), stage_errors=errors,
               differing_in_known_class=sum(1 for k in bad if stats[k] // 10 in KNOWN_KEYS))
    for k in bad:
        rules, src, _ = index[k]
        ctx.violation("output program behaves differently from the reference (input run in the modified environment)",
                      {"rules": rules, "source": src, "stream": "C17 templates, behavioural",
                       "replay": "darklua process with these rules on this source; compare with the source run after `%s`"
                                 % env_prelude(rules).strip()},
                      key=KNOWN_KEYS.get(stats[k] // 10))
    return len(bad)
