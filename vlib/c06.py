"""C06 - Luau-lowering rules preserve program behaviour."""
import re

from . import common as C
from . import rulecheck
from . import lowering_gen

META = {
    "title": "Luau-lowering rules preserve program behaviour",
    "level": "proof",
    "design_ref": "DESIGN.md section 6 / C06",
    "technique": "Coq lemmas on local rewrites against the reference Lua semantics + whole-program "
                 "translation validation in the Coq reference interpreter",
    "level_text": "Machine-checked local-equivalence theorems (Coq) for the rewrites the lowering rules perform, stated against "
                  "the fuel-indexed reference semantics for every dialect, fuel, environment and store (same values, same "
                  "store): if-expression => and/or chain incl. the fold over elseif branches (using C08's evaluate_sound), "
                  "the boxed if-expression form for literal/local results (partial), floor division => math.floor, compound "
                  "assignment on a local, Luau numbers, const, casts/instantiations/annotations/type declarations; two "
                  "refutations with witnesses (order of evaluation of `x op= e`, duplicated interpolated-string key). The "
                  "Gallina models of the rewrites and of the traversal are compared with the real rules on templates hitting "
                  "every arm of their case splits on each run; and generated Luau programs are lowered by the real rules (on "
                  "the tree and end to end through each generator) and original and output are executed in the Coq reference "
                  "interpreter under both dialects and several oracle streams, any difference being the replay.",
    "level_note": "Trusted: Coq kernel + vm_compute; Lua/Sem.v (specification); harness dl-rules + astdump. The lifting of "
                  "local lemmas to whole programs is not proved (partial): whole-program equivalence is validated per run, "
                  "not for all programs.",
    "trusted_base": ["Coq 8.16.1 kernel, vm_compute", "Lua/Sem.v reference semantics + Lib/F64.v (specification)",
                     "standard-library axioms via Flocq, inherited through C08's evaluate_sound by the two and/or theorems only: "
                     "sig_not_dec, sig_forall_dec, functional_extensionality_dep, classic",
                     "harness/crates/rules (program generator) + astdump (AST printer)", "darklua's parser (to read programs)"],
    "allowed_axioms": ["ClassicalDedekindReals.sig_not_dec", "ClassicalDedekindReals.sig_forall_dec",
                       "FunctionalExtensionality.functional_extensionality_dep", "Classical_Prop.classic"],
    "rule": "seeded typed generator of observable Luau programs (compound assignment on locals/fields/indexes with effectful "
            "keys, continue in for/while/repeat, if-expressions, interpolated strings, //, typed locals, Luau numbers, "
            "metatables with observable metamethods) x lowering rule alone / all / random subset in random order; a case is "
            "non-trivial when the reference run gives a verdict (error-free, dialect-independent) and the rules changed the tree",
    "assumptions": ["Lua/Sem.v is a faithful reference semantics on the modelled fragment",
                    "the local theorems are not lifted to whole programs (validated per run instead)",
                    "models leave out: shadowed math/string/tostring, user names __DARKLUA_VAR*, remove_continue, "
                    "remove_interpolated_string's semantics (no local theorem), compound assignment on field/index targets "
                    "(temporaries change closure environments and the order of __index calls)"],
}

# compound assignment whose key is an interpolated string with an embedded expression: the rule
# treats that key as a literal and duplicates it (C06_compound_interp_key_refuted)
INTERP_KEY = re.compile(r"\[`[^`]*\{[^`]*\}[^`]*`\]\s*(\+|-|\*|//|/|%|\^|\.\.)=")


def classify(case, stage):
    """key of known_findings.txt for a recorded defect class, or None"""
    m = INTERP_KEY.search(case["source"])
    if m:
        rules = case["rules"]
        if "remove_compound_assignment" in rules or (m.group(1) == "//" and "remove_floor_division" in rules):
            return "remove_compound_assignment:interpolated-string-key-evaluated-twice"
    return None


def run(ctx):
    C.build_harness("dl-rules")
    proofs_ok = C.proof_gate(ctx, ["Lua/RunCheck.vo", "Lua/KnownClasses.vo"])
    n = 400 if ctx.tier == "quick" else 6000
    rulecheck.run_profile(ctx, "c06", n, classify=classify)
    # the tie of the local lemmas' models (Model/Lowering.v, Model/Visit.v) to the Rust rules
    lowering_gen.run_stream(ctx, ctx.prop)
    if not proofs_ok and not ctx.violations:
        failed = [n for n, ok, _ in ctx.obligations if not ok]
        ctx.violation("proof obligation no longer checks: " + "; ".join(failed), {"obligations": failed},
                      found_input=False)


def replay(ctx, path):
    import json
    print(json.dumps(json.load(open(path)), indent=1))
    return 0
