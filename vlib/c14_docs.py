"""C14: seeded generator of data documents and their JSON / JSON5 / YAML / TOML / text forms,
with the value the property demands of the emitted Lua expression (computed from the
document itself, never from darklua).

Document model (python):
    None, True/False, Num, str, list, Obj([(key, value), ...])
keys are str (any format) or, for YAML only, Num / bool.
"""
import random
import struct

NAN_BITS = 0x7FF8000000000000


class Num:
    """kind: 'int' (ival), 'float' (text: a JSON-syntax decimal literal), 'inf', 'ninf', 'nan'"""

    def __init__(self, kind, ival=None, text=None):
        self.kind, self.ival, self.text = kind, ival, text

    def value(self):
        if self.kind == "int":
            return float(self.ival)            # int -> float is correctly rounded (ties to even)
        if self.kind == "float":
            return float(self.text)            # correctly rounded decimal -> binary64
        return {"inf": float("inf"), "ninf": float("-inf"), "nan": float("nan")}[self.kind]

    def bits(self):
        v = self.value()
        if v != v:
            return NAN_BITS
        return struct.unpack(">Q", struct.pack(">d", v))[0]

    def __repr__(self):
        return "Num(%s)" % (self.ival if self.kind == "int" else self.text if self.kind == "float" else self.kind)


class Obj:
    def __init__(self, entries):
        self.entries = list(entries)

    def __repr__(self):
        return "Obj(%r)" % (self.entries,)


LUA_KEYWORDS = ["and", "break", "do", "else", "elseif", "end", "false", "for", "function", "if", "in", "local",
                "nil", "not", "or", "repeat", "return", "then", "true", "until", "while"]
OTHER_WORDS = ["continue", "goto", "type", "export", "typeof", "self", "_", "__index", "_G", "a", "x1", "Z_9",
               "class", "null", "NaN", "Infinity", "undefined", "constructor"]
ODD_CHARS = ['"', "'", "\\", "\n", "\r", "\t", "\0", "\x01", "\x07", "\x08", "\x0b", "\x0c", "\x1b", "\x1f", "\x7f",
             "]", "[", "=", "{", "}", "`", "$", "#", "-", " ", "a", "n", "u", "x", "z", "0", "9", ".", ":", ",", "/",
             "\x80", "\x85", "\xa0", "\xad", "\xe9", "\xff", "\u0100", "\u07ff", "\u0800", "\u2028", "\u2029",
             "\ud7ff", "\ue000", "\ufeff", "\ufffd", "\uffff", "\U00010000", "\U0001f600", "\U0010ffff"]
ESCAPE_LOOKING = ["\\n", "\\\\", "\\u{41}", "\\x41", "\\z ", "\\065", "]]", "]=]", "]==]", "--[[", "--", "\\\n",
                  "[[", "[=[", "\\'", '\\"', "${", "{}", "\r\n", "\n\r", "%d", "\\0", "\\u0041"]


def gen_string(rng):
    k = rng.randrange(16)
    if k == 0:
        return ""
    if k == 1:
        return rng.choice(LUA_KEYWORDS)
    if k == 2:
        return rng.choice(OTHER_WORDS)
    if k == 3:                      # digit-initial / not identifiers
        return rng.choice(["1", "1a", "9lives", "0x10", "1.5", "-1", "a-b", "a b", " a", "a ", "a.b", "é", "añ", "x\xe9"])
    if k == 4:                      # keyword variants
        w = rng.choice(LUA_KEYWORDS)
        return rng.choice([w.upper(), w + "_", "_" + w, w + "1", w + " ", w[:-1], w.capitalize()])
    if k in (5, 6, 7):              # awkward characters
        return "".join(rng.choice(ODD_CHARS) for _ in range(rng.randrange(1, 9)))
    if k == 8:
        return "".join(rng.choice(ESCAPE_LOOKING + ODD_CHARS) for _ in range(rng.randrange(1, 6)))
    if k == 9:                      # long text with line breaks: long-bracket candidates
        lines = []
        for _ in range(rng.randrange(2, 10)):
            line = "".join(rng.choice("abc xyz]=[") for _ in range(rng.randrange(0, 14)))
            lines.append(line)
        # line breaks of every kind: a reader normalises CR / CR LF inside long brackets, so a
        # writer must not put such a text in long-bracket form
        sep = rng.choice(["\n", "\n", "\n", "\r\n", "\r", "\n\r", "\n\t", "\n\x0c"])
        s = sep.join(lines)
        s += rng.choice(["", "]", "]=", "]]", "]==", "\n"])
        if rng.randrange(4) == 0:
            s = "\n" + s
        if rng.randrange(3) == 0:
            s += "tail of a long text " * 3
        return s
    if k == 10:                     # 60+ printable bytes on one line (long bracket by length)
        n = rng.randrange(58, 70)
        s = "".join(rng.choice("abcdefghij ]=[") for _ in range(n))
        if rng.randrange(4) == 0:
            at = rng.randrange(len(s))
            s = s[:at] + rng.choice(["\r\n", "\r", "\t", "\x0c"]) + s[at:]
        return s + rng.choice(["", "]", "]=", "]]"])
    if k == 11:                     # identifier-like
        return rng.choice("abcXYZ_") + "".join(rng.choice("abcXYZ_019") for _ in range(rng.randrange(0, 8)))
    if k == 12:                     # a run of consecutive code points
        start = rng.choice([0, 0x10, 0x20, 0x30, 0x40, 0x50, 0x60, 0x70, 0x80, 0xa0, 0xc0, 0x7f0, 0xfff0 - 0x800, 0x1fff0])
        return "".join(chr(c) for c in range(start, start + 16) if not 0xd800 <= c <= 0xdfff)
    if k == 13:                     # a byte without a named escape directly followed by a digit (NUL included)
        return rng.choice(["", "a", "<", "\xe9", "\u65e5\u672c", "\U0001f600x"]) + rng.choice("\0\x01\x02\x05\x0e\x1b\x1f\x7f") + rng.choice("0123456789") + \
            rng.choice(["", "1", ">", "\0" + "9"])
    return "".join(rng.choice("abc de") for _ in range(rng.randrange(1, 12)))


FLOAT_TEXTS = ["0.0", "-0.0", "0.5", "1.5", "-2.25", "0.1", "0.2", "0.3", "1e3", "1E3", "1e+3", "1.0e-3", "2.5E-7",
               "1e21", "1e22", "1e23", "123456789.125", "3.141592653589793", "2.718281828459045",
               "9007199254740993.0", "1.7976931348623157e308", "2.2250738585072014e-308", "5e-324", "4.9e-324",
               "2.4703282292062327e-324", "1e-400", "0.30000000000000004", "100.0", "1e15", "1e16", "123e-2",
               "6.02214076e23", "-1e-7", "179769313486231570000000000000.0", "0.000001", "1.0", "-1.0", "12.0"]
INT_VALUES = [0, 1, -1, 2, 7, 10, 42, 255, 256, 1000, -1000, 65535, 2 ** 31 - 1, 2 ** 31, -2 ** 31, 2 ** 32,
              2 ** 53 - 1, 2 ** 53, 2 ** 53 + 1, 2 ** 53 + 2, 2 ** 53 + 3, -(2 ** 53) - 1, 2 ** 62 + 1, 2 ** 63 - 1, 2 ** 63,
              2 ** 63 + 1025, -2 ** 63, -2 ** 63 + 1, 2 ** 64 - 1, 2 ** 64 - 1025, 9007199254740995, 123456789012345678,
              12345678901234567890, 999999999999999999, 4611686018427387905]
HUGE_INTS = [2 ** 64, 2 ** 64 + 1, 10 ** 30, -(2 ** 63) - 1, -(10 ** 25), 2 ** 100 + 1]


def gen_number(rng, special=True):
    k = rng.randrange(12)
    if k < 4:
        return Num("int", ival=rng.choice(INT_VALUES))
    if k == 4:
        return Num("int", ival=rng.randrange(-2 ** 63, 2 ** 64))
    if k == 5:
        return Num("int", ival=rng.choice(HUGE_INTS))
    if k == 6 and special:
        return Num(rng.choice(["inf", "ninf", "nan"]))
    if k == 7:
        m = rng.randrange(1, 10 ** rng.randrange(1, 18))
        e = rng.randrange(-30, 30)
        return Num("float", text="%s%d.%de%d" % (rng.choice(["", "-"]), m // 10, m % 10, e))
    return Num("float", text=rng.choice(FLOAT_TEXTS))


def gen_value(rng, depth, yaml_keys=False):
    k = rng.randrange(14)
    if depth <= 0 and k >= 9:
        k = rng.randrange(9)
    if k == 0:
        return None
    if k == 1:
        return rng.choice([True, False])
    if k in (2, 3):
        return gen_number(rng)
    if k in (4, 5, 6, 7, 8):
        return gen_string(rng)
    if k in (9, 10):
        n = rng.choice([0, 1, 2, 3, 5])
        return [gen_value(rng, depth - 1, yaml_keys) for _ in range(n)]
    n = rng.choice([0, 1, 2, 3, 4, 6])
    entries = []
    for _ in range(n):
        key = gen_string(rng)
        if yaml_keys and rng.randrange(3) == 0:
            key = rng.choice([True, False, Num("int", ival=rng.choice([0, 1, 2, -1, 2 ** 53 + 1])),
                              Num("float", text=rng.choice(["1.0", "-0.0", "0.0", "1.5", "1e3"])),
                              Num("inf"), Num("ninf")])
        entries.append((key, gen_value(rng, depth - 1, yaml_keys)))
    return Obj(entries)


def gen_document(rng, yaml_keys=False):
    k = rng.randrange(10)
    if k == 0:
        return gen_value(rng, 0)
    if k < 5:
        v = gen_value(rng, rng.randrange(1, 5), yaml_keys)
        return v
    n = rng.randrange(1, 7)
    if rng.randrange(2):
        return Obj([(gen_string(rng), gen_value(rng, rng.randrange(0, 4), yaml_keys)) for _ in range(n)])
    return [gen_value(rng, rng.randrange(0, 4), yaml_keys) for _ in range(n)]


def node_count(v):
    if isinstance(v, list):
        return 1 + sum(node_count(x) for x in v)
    if isinstance(v, Obj):
        return 1 + sum(2 + node_count(x) for _, x in v.entries)
    return 1


def depth_of(v):
    if isinstance(v, list):
        return 1 + max([depth_of(x) for x in v] + [0])
    if isinstance(v, Obj):
        return 1 + max([depth_of(x) for _, x in v.entries] + [0])
    return 0


# ------------------------------------------------------------------------------ expected value

def key_id(k):
    """identity of a key as a Lua table key (-0 = +0, 1 = 1.0)"""
    if isinstance(k, bool):
        return ("b", k)
    if isinstance(k, str):
        return ("s", k)
    b = k.bits()
    if b == 0x8000000000000000:
        b = 0
    return ("n", b)


def rv_key(k):
    kind, x = key_id(k)
    if kind == "b":
        return "(RBool %s)" % ("true" if x else "false")
    if kind == "s":
        return '(RStr (bx "%s"))' % x.encode("utf-8").hex()
    return "(RNum %d)" % x


def expected_rvalue(v):
    """the rendered Lua value the property demands (tables are compared as unordered maps)"""
    if v is None:
        return "RNil"
    if isinstance(v, bool):
        return "(RBool %s)" % ("true" if v else "false")
    if isinstance(v, Num):
        return "(RNum %d)" % v.bits()
    if isinstance(v, str):
        return '(RStr (bx "%s"))' % v.encode("utf-8").hex()
    if isinstance(v, list):
        items = ["((RNum %d), %s)" % (Num("int", ival=i + 1).bits(), expected_rvalue(x))
                 for i, x in enumerate(v) if x is not None]
        return "(RTable [%s] false)" % "; ".join(items)
    last = {}
    for k, x in v.entries:                       # the last binding of a key holds
        last[key_id(k)] = (k, x)
    items = ["(%s, %s)" % (rv_key(k), expected_rvalue(x)) for k, x in last.values() if x is not None]
    return "(RTable [%s] false)" % "; ".join(items)


# ------------------------------------------------------------------------------ projections

def int_as_float(n):
    return Num("float", text=repr(float(n)) if abs(n) < 2 ** 1000 else "1e300")


def project(v, fmt, top=True, keep_huge=False):
    """the nearest document the format can carry"""
    if fmt == "toml" and top and not isinstance(v, Obj):
        v = Obj([("v", v)])
    if isinstance(v, Num):
        if v.kind == "int":
            if fmt == "toml" and not -2 ** 63 <= v.ival < 2 ** 63:
                return int_as_float(v.ival)
            # serde_yaml rejects integers outside i64 / u64 ("invalid type: integer ... as u128") and json5
            # rejects them too ("JSON number out of range"): written as floats, except in the fixed
            # document that records the rejection
            if fmt in ("yaml", "yml", "json", "json5") and not keep_huge and not -2 ** 63 <= v.ival < 2 ** 64:
                return int_as_float(v.ival)
        if v.kind in ("inf", "ninf", "nan") and fmt in ("json", "json5"):
            return Num("float", text={"inf": "1.7976931348623157e308", "ninf": "-1.7976931348623157e308", "nan": "0.0"}[v.kind])
        if v.kind == "float" and fmt in ("json", "json5"):
            x = float(v.text)
            if x in (float("inf"), float("-inf")):
                return Num("float", text="1e308")
        return v
    if isinstance(v, list):
        items = [project(x, fmt, False, keep_huge) for x in v]
        if fmt == "toml":
            items = [x for x in items if x is not None]
        return items
    if isinstance(v, Obj):
        entries = []
        seen = set()
        for k, x in v.entries:
            x = project(x, fmt, False, keep_huge)
            if fmt == "toml" and x is None:
                continue
            if fmt not in ("yaml", "yml") and not isinstance(k, str):
                k = "k"
            if isinstance(k, Num):
                k = project(k, fmt, False, keep_huge)
            if fmt in ("yaml", "yml", "toml"):
                ident = ("s", k) if isinstance(k, str) else ("b", k) if isinstance(k, bool) else ("n", k.kind, k.ival, k.text)
                if ident in seen:
                    continue
                seen.add(ident)
            entries.append((k, x))
        return Obj(entries)
    return v


# ------------------------------------------------------------------------------ JSON / JSON5

def json_string(rng, s, q='"', json5=False):
    out = [q]
    for ch in s:
        c = ord(ch)
        r = rng.randrange(12)
        if ch == q:
            out.append("\\" + q)
        elif ch == "\\":
            out.append("\\\\")
        elif ch in "\b\f\n\r\t" and r < 9:
            out.append({"\b": "\\b", "\f": "\\f", "\n": "\\n", "\r": "\\r", "\t": "\\t"}[ch])
        elif c < 0x20 or (json5 and c in (0x2028, 0x2029)):
            if json5 and c == 0 and r < 3:
                out.append("\\x00")
            elif json5 and c == 0x0b and r < 6:
                out.append("\\v")
            elif json5 and r < 4 and c < 0x100:
                out.append("\\x%02x" % c)
            else:
                out.append("\\u%04x" % c)
        elif ch == "/" and r == 0:
            out.append("\\/")
        elif r == 1:
            if c >= 0x10000:
                c -= 0x10000
                out.append("\\u%04x\\u%04x" % (0xD800 + (c >> 10), 0xDC00 + (c & 0x3FF)))
            else:
                out.append("\\u%04X" % c)
        elif json5 and r == 2 and ch in "'\"":
            out.append("\\" + ch)
        else:
            out.append(ch)
        if json5 and r == 3 and rng.randrange(4) == 0:
            out.append("\\\n")                    # line continuation: contributes nothing
    out.append(q)
    return "".join(out)


def json_number(rng, n, json5=False):
    if n.kind == "int":
        if json5 and n.ival >= 0 and rng.randrange(5) == 0 and n.ival < 2 ** 64:
            return "0x%X" % n.ival if rng.randrange(2) else "0x%x" % n.ival
        if json5 and n.ival >= 0 and rng.randrange(6) == 0:
            return "+%d" % n.ival
        return str(n.ival)
    if n.kind == "float":
        t = n.text
        if json5 and rng.randrange(5) == 0:
            if t.startswith("0.") and "e" not in t.lower():
                return t[1:]                      # .5
            if t.endswith(".0"):
                return t[:-1]                     # 5.
            if not t.startswith("-"):
                return "+" + t
        return t
    return {"inf": "Infinity", "ninf": "-Infinity", "nan": "NaN"}[n.kind]


def is_es_identifier(s):
    return s != "" and (s[0].isascii() and (s[0].isalpha() or s[0] in "_$")) and \
        all(ch.isascii() and (ch.isalnum() or ch in "_$") for ch in s)


def to_json(rng, v, json5=False):
    ws = (lambda: rng.choice(["", "", " ", "\n", "  ", "\t"])) if rng.randrange(3) == 0 else (lambda: "")
    cm = (lambda: rng.choice(["", "", "", "/* c */", "// c\n"])) if json5 else (lambda: "")

    def go(v):
        if v is None:
            return "null"
        if isinstance(v, bool):
            return "true" if v else "false"
        if isinstance(v, Num):
            return json_number(rng, v, json5)
        if isinstance(v, str):
            return json_string(rng, v, rng.choice(['"', "'"]) if json5 else '"', json5)
        if isinstance(v, list):
            body = ("," + ws()).join(ws() + go(x) + cm() for x in v)
            if json5 and v and rng.randrange(3) == 0:
                body += ","
            return "[" + body + ws() + "]"
        parts = []
        for k, x in v.entries:
            if json5 and is_es_identifier(k) and rng.randrange(2):
                ks = k
            else:
                ks = json_string(rng, k, rng.choice(['"', "'"]) if json5 else '"', json5)
            parts.append(ws() + ks + ws() + ":" + ws() + go(x) + cm())
        body = ",".join(parts)
        if json5 and parts and rng.randrange(3) == 0:
            body += ","
        return "{" + body + ws() + "}"
    return cm() + go(v)


# ------------------------------------------------------------------------------ YAML

YAML_PLAIN_FORBIDDEN = {"null", "true", "false", "yes", "no", "on", "off", "y", "n", "nan", "inf"}


def yaml_printable(c):
    return c in (0x09, 0x0A, 0x0D) or 0x20 <= c <= 0x7E or c == 0x85 or 0xA0 <= c <= 0xD7FF or \
        0xE000 <= c <= 0xFFFD or 0x10000 <= c <= 0x10FFFF


def yaml_string(rng, s):
    if s and all(ch.isascii() and (ch.isalnum() or ch == "_") for ch in s) and not s[0].isdigit() \
            and s.lower() not in YAML_PLAIN_FORBIDDEN and rng.randrange(3) == 0:
        return s                                  # plain scalar
    if all(0x20 <= ord(ch) <= 0x7E for ch in s) and rng.randrange(4) == 0:
        return "'" + s.replace("'", "''") + "'"   # single quoted
    out = ['"']
    named = {0: "\\0", 7: "\\a", 8: "\\b", 9: "\\t", 10: "\\n", 11: "\\v", 12: "\\f", 13: "\\r", 27: "\\e",
             0x85: "\\N", 0xA0: "\\_", 0x2028: "\\L", 0x2029: "\\P"}
    for ch in s:
        c = ord(ch)
        r = rng.randrange(10)
        if ch == '"':
            out.append('\\"')
        elif ch == "\\":
            out.append("\\\\")
        elif c in named and (r < 7 or c in (9, 10, 13, 0x85, 0x2028, 0x2029)) and r != 9:
            out.append(named[c])
        elif (not yaml_printable(c)) or c in (9, 10, 13, 0x85, 0x2028, 0x2029, 0xFEFF) or r == 0:
            if c < 0x100 and rng.randrange(2):
                out.append("\\x%02x" % c)
            elif c < 0x10000:
                out.append("\\u%04x" % c)
            else:
                out.append("\\U%08x" % c)
        elif ch == "/" and r == 1:
            out.append("\\/")
        else:
            out.append(ch)
    out.append('"')
    return "".join(out)


def yaml_number(rng, n):
    if n.kind == "int":
        r = rng.randrange(8)
        if n.ival >= 0 and r == 0:
            return "0x%x" % n.ival
        if n.ival >= 0 and r == 1:
            return "0o%o" % n.ival
        if n.ival >= 0 and r == 2:
            return "+%d" % n.ival
        return str(n.ival)
    if n.kind == "float":
        return n.text
    if n.kind == "inf":
        return rng.choice([".inf", ".Inf", ".INF", "+.inf"])
    if n.kind == "ninf":
        return rng.choice(["-.inf", "-.Inf", "-.INF"])
    return rng.choice([".nan", ".NaN", ".NAN"])


def yaml_flow(rng, v):
    if v is None:
        return rng.choice(["null", "~", "Null", "NULL"])
    if isinstance(v, bool):
        return "true" if v else "false"
    if isinstance(v, Num):
        return yaml_number(rng, v)
    if isinstance(v, str):
        return yaml_string(rng, v)
    if isinstance(v, list):
        return "[" + ", ".join(yaml_flow(rng, x) for x in v) + "]"
    parts = []
    for k, x in v.entries:
        parts.append(yaml_key(rng, k) + ": " + yaml_flow(rng, x))
    return "{" + ", ".join(parts) + "}"


def yaml_key(rng, k):
    if isinstance(k, str):
        return yaml_string(rng, k)
    return yaml_flow(rng, k)


def to_yaml(rng, v):
    """block style for the outer one or two levels, flow style inside"""
    def block(v, indent, levels):
        pad = "  " * indent
        if levels > 0 and isinstance(v, list) and v:
            lines = []
            for x in v:
                if levels > 1 and ((isinstance(x, list) and x) or (isinstance(x, Obj) and x.entries)):
                    lines.append(pad + "-\n" + block(x, indent + 1, levels - 1))
                else:
                    lines.append(pad + "- " + yaml_flow(rng, x))
            return "\n".join(lines)
        if levels > 0 and isinstance(v, Obj) and v.entries:
            lines = []
            for k, x in v.entries:
                ks = yaml_key(rng, k)
                if levels > 1 and ((isinstance(x, list) and x) or (isinstance(x, Obj) and x.entries)):
                    lines.append(pad + ks + ":\n" + block(x, indent + 1, levels - 1))
                elif x is None and rng.randrange(3) == 0:
                    lines.append(pad + ks + ":")            # empty value = null
                else:
                    lines.append(pad + ks + ": " + yaml_flow(rng, x))
            return "\n".join(lines)
        return pad + yaml_flow(rng, v)
    text = block(v, 0, rng.choice([0, 1, 2, 2]))
    if rng.randrange(4) == 0:
        text = "---\n" + text
    return text + "\n"


# ------------------------------------------------------------------------------ TOML

def toml_basic(rng, s, multiline=False):
    out = []
    for ch in s:
        c = ord(ch)
        r = rng.randrange(10)
        if ch == '"':
            out.append('\\"')
        elif ch == "\\":
            out.append("\\\\")
        elif ch == "\n" and multiline and r < 8:
            out.append("\n")
        elif ch in "\b\t\n\f\r" and r < 8:
            out.append({"\b": "\\b", "\t": "\\t", "\n": "\\n", "\f": "\\f", "\r": "\\r"}[ch])
        elif c < 0x20 or c == 0x7F or r == 0:
            out.append("\\u%04x" % c if c < 0x10000 and rng.randrange(2) else "\\U%08x" % c)
        else:
            out.append(ch)
    body = "".join(out)
    if multiline:
        return '"""\n' + body + '"""'
    return '"' + body + '"'


def toml_string(rng, s):
    if all(ord(ch) >= 0x20 and ord(ch) != 0x7F and ch != "'" for ch in s) and rng.randrange(4) == 0:
        return "'" + s + "'"
    if "\n" in s and rng.randrange(2) == 0:
        return toml_basic(rng, s, True)
    return toml_basic(rng, s)


def toml_key(rng, k):
    if k and all(ch.isascii() and (ch.isalnum() or ch in "_-") for ch in k) and rng.randrange(4):
        return k
    if all(ord(ch) >= 0x20 and ord(ch) != 0x7F and ch != "'" and ch != "\n" for ch in k) and rng.randrange(3) == 0:
        return "'" + k + "'"
    return toml_basic(rng, k)


def toml_number(rng, n):
    if n.kind == "int":
        r = rng.randrange(10)
        if n.ival >= 0 and r == 0:
            return "0x%x" % n.ival
        if n.ival >= 0 and r == 1:
            return "0o%o" % n.ival
        if n.ival >= 0 and r == 2:
            return "0b%s" % bin(n.ival)[2:]
        if n.ival >= 0 and r == 3:
            return "+%d" % n.ival
        if r == 4 and abs(n.ival) >= 1000:
            s = str(abs(n.ival))
            return ("-" if n.ival < 0 else "") + s[:-3] + "_" + s[-3:]
        return str(n.ival)
    if n.kind == "float":
        return n.text
    if n.kind == "inf":
        return rng.choice(["inf", "+inf"])
    if n.kind == "ninf":
        return "-inf"
    return rng.choice(["nan", "+nan", "-nan"])


def toml_inline(rng, v):
    if isinstance(v, bool):
        return "true" if v else "false"
    if isinstance(v, Num):
        return toml_number(rng, v)
    if isinstance(v, str):
        return toml_string(rng, v)
    if isinstance(v, list):
        sep = rng.choice([", ", ",\n  ", ","])
        return "[" + sep.join(toml_inline(rng, x) for x in v) + ("," if v and rng.randrange(4) == 0 else "") + "]"
    return "{ " + ", ".join(toml_key(rng, k) + " = " + toml_inline(rng, x) for k, x in v.entries) + " }"


def to_toml(rng, v):
    assert isinstance(v, Obj)
    plain, sections = [], []
    for k, x in v.entries:
        if isinstance(x, Obj) and rng.randrange(2):
            sections.append((k, x))
        elif isinstance(x, list) and x and all(isinstance(y, Obj) for y in x) and rng.randrange(2):
            sections.append((k, x))
        else:
            plain.append((k, x))
    lines = ["# generated"]
    for k, x in plain:
        lines.append(toml_key(rng, k) + " = " + toml_inline(rng, x))
    for k, x in sections:
        if isinstance(x, Obj):
            lines.append("[" + toml_key(rng, k) + "]")
            for k2, x2 in x.entries:
                lines.append(toml_key(rng, k2) + " = " + toml_inline(rng, x2))
        else:
            for item in x:
                lines.append("[[" + toml_key(rng, k) + "]]")
                for k2, x2 in item.entries:
                    lines.append(toml_key(rng, k2) + " = " + toml_inline(rng, x2))
    return "\n".join(lines) + "\n"


def toml_reorder(v):
    """the order in which to_toml's layout makes the entries appear is irrelevant to the value"""
    return v


# ------------------------------------------------------------------------------ features

def features(v, acc=None, in_container=False):
    """what makes a document non-trivial"""
    acc = acc if acc is not None else set()
    if v is None and in_container:
        acc.add("null-in-container")
    if isinstance(v, Num):
        if v.kind != "int" or abs(v.ival) >= 2 ** 53:
            acc.add("number")
    if isinstance(v, str):
        if any(not (0x20 <= ord(ch) <= 0x7E) or ch in "\"'\\" for ch in v) or len(v.encode("utf-8")) >= 60:
            acc.add("string")
    if isinstance(v, list):
        for x in v:
            features(x, acc, True)
    if isinstance(v, Obj):
        for k, x in v.entries:
            if not isinstance(k, str):
                acc.add("non-string-key")
            elif not (k and k.isascii() and (k[0].isalpha() or k[0] == "_") and all(c.isalnum() or c == "_" for c in k)) \
                    or k in LUA_KEYWORDS:
                acc.add("key")
            features(x, acc, True)
    return acc


def serialize(rng, v, fmt):
    if fmt == "json":
        return to_json(rng, v)
    if fmt == "json5":
        return to_json(rng, v, True)
    if fmt in ("yaml", "yml"):
        return to_yaml(rng, v)
    if fmt == "toml":
        return to_toml(rng, v)
    raise ValueError(fmt)


def byte_coverage_strings():
    """strings that together contain every byte value UTF-8 can carry"""
    out = ["".join(chr(c) for c in range(0, 0x80))]
    out.append("".join(chr(c) for c in range(0x80, 0x800, 0x1f)))          # every 2-byte lead / continuation
    out.append("".join(chr(c) for c in range(0x80, 0xC0)))                   # continuation bytes 0x80..0xBF after 0xC2
    out.append("".join(chr(c) for c in range(0x800, 0x10000, 0x3ff) if not 0xD800 <= c <= 0xDFFF))
    out.append("".join(chr(c) for c in range(0x10000, 0x110000, 0xffff)))
    return out
