"""Reference Lua/Luau lexer used as the independent oracle of C18 (and by C03/C04 helpers).

Written from the Lua 5.1 reference manual (section 2.1) and the Luau syntax page, not from
darklua or full_moon:

* white space is space, \\t, \\n, \\r, \\v, \\f;
* a comment starts with `--`; if the text immediately after is a long-bracket opener `[` `=`*n `[`
  it is a long comment that runs to the first closer `]` `=`*n `]` (unterminated = lexical error);
  otherwise it is a short comment that runs up to (not including) the next LF or CR or the end
  (both the PUC-Rio lexer `currIsNewline` and the Luau lexer stop a short comment at CR);
* a first line starting with `#` is skipped (shebang);
* names, numbers (Luau: `0x`, `0b`, `_` separators, exponents), quoted strings with backslash
  escapes (`\\z`, backslash-newline), long strings, Luau interpolated strings (back-ticks with
  `{expr}` holes, nested; `{{` is a lexical error as in Luau), and the operator set of Luau with longest match.

`lex(data: bytes)` returns (tokens, comments) where
  tokens   = list of Tok(kind, text, line, start, end)       (code tokens only)
  comments = list of Tok('comment', text, line, start, end)
Lines are 1-based and count LF only (as a Lua runtime numbers them for LF / CRLF files).
Raises LexError on malformed input."""
from collections import namedtuple

Tok = namedtuple("Tok", "kind text line start end")


class LexError(Exception):
    pass


SPACE = b" \t\n\r\v\f"
SYMBOLS = [
    b"...", b"..=", b"//=",
    b"..", b"==", b"~=", b"<=", b">=", b"//", b"::", b"->", b"+=", b"-=", b"*=", b"/=", b"%=", b"^=",
]
SINGLE = b"+-*/%^#<>=(){}[];:,.&|?@~"


def _is_alpha(c):
    return (65 <= c <= 90) or (97 <= c <= 122) or c == 95


def _is_digit(c):
    return 48 <= c <= 57


def long_bracket_level(data, i):
    """If data[i:] starts with `[` `=`*n `[` return n, else None."""
    if i >= len(data) or data[i] != 0x5B:
        return None
    j = i + 1
    while j < len(data) and data[j] == 0x3D:
        j += 1
    if j < len(data) and data[j] == 0x5B:
        return j - i - 1
    return None


def comment_end(data, i):
    """data[i:i+2] == b'--'. Returns (end_index, is_long). Raises LexError when a long comment
    is not terminated."""
    assert data[i:i + 2] == b"--"
    level = long_bracket_level(data, i + 2)
    if level is not None:
        closer = b"]" + b"=" * level + b"]"
        k = data.find(closer, i + 2 + level + 2)
        if k < 0:
            raise LexError("unterminated long comment at byte %d" % i)
        return k + len(closer), True
    j = i + 2
    while j < len(data) and data[j] not in (0x0A, 0x0D):
        j += 1
    return j, False


def lex(data):
    if isinstance(data, str):
        data = data.encode("utf-8")
    n = len(data)
    i = 0
    line = 1
    tokens, comments = [], []
    # stack of brace depths for interpolated strings being lexed
    interp = []

    def count(a, b):
        return data.count(b"\n", a, b)

    def read_interp_chunk(j):
        """j is just after a back-tick or a closing brace of a hole; returns (end, opens_hole)."""
        while True:
            if j >= n:
                raise LexError("unterminated interpolated string")
            c = data[j]
            if c == 0x60:
                return j + 1, False
            if c == 0x5C:
                if j + 1 < n and data[j + 1] == 0x7A:  # \z
                    j += 2
                    while j < n and data[j] in SPACE:
                        j += 1
                    continue
                if j + 2 < n and data[j + 1] == 0x0D and data[j + 2] == 0x0A:
                    j += 3
                    continue
                j += 2
                continue
            if c == 0x7B:
                if j + 1 < n and data[j + 1] == 0x7B:
                    # Luau: "double braces are not permitted within interpolated strings"
                    raise LexError("double brace in interpolated string at byte %d" % j)
                return j + 1, True
            if c == 0x0A or c == 0x0D:
                raise LexError("newline in interpolated string")
            j += 1

    if data[:1] == b"#":
        j = 0
        while j < n and data[j] != 0x0A:
            j += 1
        comments.append(Tok("shebang", data[0:j], 1, 0, j))
        i = j

    while i < n:
        c = data[i]
        if c in SPACE:
            if c == 0x0A:
                line += 1
            i += 1
            continue
        if data[i:i + 2] == b"--":
            end, _ = comment_end(data, i)
            comments.append(Tok("comment", data[i:end], line, i, end))
            line += count(i, end)
            i = end
            continue
        start = i
        if _is_alpha(c) or c >= 0x80:
            j = i + 1
            while j < n and (_is_alpha(data[j]) or _is_digit(data[j]) or data[j] >= 0x80):
                j += 1
            kind = "name"
        elif _is_digit(c) or (c == 0x2E and i + 1 < n and _is_digit(data[i + 1])):
            j = i
            if c == 0x30 and i + 1 < n and data[i + 1] in b"xXbB":
                j = i + 2
                while j < n and (_is_alpha(data[j]) or _is_digit(data[j])):
                    j += 1
            else:
                while j < n and (_is_digit(data[j]) or data[j] == 0x5F):
                    j += 1
                if j < n and data[j] == 0x2E and not (j + 1 < n and data[j + 1] == 0x2E):
                    j += 1
                    while j < n and (_is_digit(data[j]) or data[j] == 0x5F):
                        j += 1
                if j < n and data[j] in b"eE":
                    k = j + 1
                    if k < n and data[k] in b"+-":
                        k += 1
                    if k < n and _is_digit(data[k]):
                        j = k
                        while j < n and (_is_digit(data[j]) or data[j] == 0x5F):
                            j += 1
                while j < n and (_is_alpha(data[j]) or _is_digit(data[j])):
                    j += 1
            kind = "number"
        elif c == 0x22 or c == 0x27:
            j = i + 1
            while True:
                if j >= n:
                    raise LexError("unterminated string at byte %d" % i)
                d = data[j]
                if d == c:
                    j += 1
                    break
                if d == 0x5C:
                    if j + 1 < n and data[j + 1] == 0x7A:
                        j += 2
                        while j < n and data[j] in SPACE:
                            j += 1
                        continue
                    if j + 2 < n and data[j + 1] == 0x0D and data[j + 2] == 0x0A:
                        j += 3
                        continue
                    j += 2
                    continue
                if d == 0x0A or d == 0x0D:
                    raise LexError("newline in string at byte %d" % j)
                j += 1
            kind = "string"
        elif c == 0x5B and long_bracket_level(data, i) is not None:
            level = long_bracket_level(data, i)
            closer = b"]" + b"=" * level + b"]"
            k = data.find(closer, i + level + 2)
            if k < 0:
                raise LexError("unterminated long string at byte %d" % i)
            j = k + len(closer)
            kind = "string"
        elif c == 0x60:
            j, hole = read_interp_chunk(i + 1)
            kind = "istring"
            if hole:
                interp.append(0)
        elif c == 0x7D and interp and interp[-1] == 0:
            interp.pop()
            j, hole = read_interp_chunk(i + 1)
            kind = "istring"
            if hole:
                interp.append(0)
        else:
            j = None
            for s in SYMBOLS:
                if data.startswith(s, i):
                    j = i + len(s)
                    break
            if j is None:
                if c in SINGLE:
                    j = i + 1
                else:
                    raise LexError("unexpected byte 0x%02x at %d" % (c, i))
            kind = "symbol"
            if interp:
                if c == 0x7B:
                    interp[-1] += 1
                elif c == 0x7D:
                    interp[-1] -= 1
        tokens.append(Tok(kind, data[start:j], line, start, j))
        line += count(start, j)
        i = j
    if interp:
        raise LexError("unterminated interpolated string hole")
    return tokens, comments


def code_texts(tokens):
    return [t.text for t in tokens]


STATEMENT_KEYWORDS = {b"local", b"return", b"if", b"while", b"for", b"repeat", b"function", b"do", b"end", b"break",
                      b"until", b"then", b"else", b"elseif"}


def ends_in_type_annotation(src):
    """the last statement of the file is a type declaration, or a `local` with a type annotation and no value:
    its last code token belongs to a TYPE (used to name a recorded append_text_comment defect)"""
    try:
        toks, _ = lex(src.encode("utf-8") if isinstance(src, str) else src)
    except LexError:
        return False
    for i in range(len(toks) - 1, -1, -1):
        t = toks[i]
        if t.kind != "name":
            continue
        if t.text == b"type" and i + 2 < len(toks) and toks[i + 1].kind == "name" and toks[i + 1].text not in STATEMENT_KEYWORDS \
                and toks[i + 2].text in (b"=", b"<") and (i == 0 or toks[i - 1].text not in (b".", b":")):
            return not any(x.text in STATEMENT_KEYWORDS for x in toks[i + 1:])
        if t.text == b"local":
            rest = toks[i + 1:]
            return bool(rest) and rest[0].text != b"function" and any(x.text == b":" for x in rest) \
                and not any(x.text == b"=" for x in rest) and not any(x.text in STATEMENT_KEYWORDS for x in rest)
        if t.text in STATEMENT_KEYWORDS:
            return False
    return False
