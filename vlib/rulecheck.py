"""Shared driver of the rule properties (C01, C06, C16, C17): whole-program differential
through the reference interpreter (Coq, vm_compute).

For every generated program P and rule list R the harness gives
  IN   = parse(P)
  OUT  = R applied to the AST of P (Rule::process)
  E2E  = parse(text written by darklua_core::process(P, R, generator))
  REF  = the program whose behaviour the output must have (P itself, or P in the modified
         environment for C17)
and Coq compares run(REF) with run(OUT) and run(E2E) under both dialects and several
oracle streams (Lua/RunCheck.v)."""
import re

from . import common as C

PREAMBLE = """From Coq Require Import ZArith.
From DL Require Import Lib.Bytes Lib.F64 Lua.Syntax Lua.Sem Lua.RunCheck.
Open Scope N_scope.
Open Scope string_scope.
Definition bx := unhex.
Definition nm := of_string.
Definition FUEL := 400%nat.
(* case = (reference program, output program) *)
Definition stat_case (c : block * block) : N := compare_all FUEL (fst c) (snd c).
"""

TAGS_PREAMBLE = """From Coq Require Import ZArith.
From DL Require Import Lib.Bytes Lib.F64 Lua.Syntax Lua.KnownClasses.
Open Scope N_scope.
Open Scope string_scope.
Definition bx := unhex.
Definition nm := of_string.
Definition check_case (b : block) : bool := false.
Definition diag_case (b : block) : string := known_tags b.
"""

# recorded finding classes: tag computed in Coq on the input tree (Lua/KnownClasses.v), the
# rules that must be involved, and the key of known_findings.txt
KNOWN_CLASSES = [
    ("K5", ["compute_expression"], "compute_expression:known-truthy-and-multivalue-operand"),
    ("K7", ["remove_unused_variable", "remove_assertions", "remove_debug_profiling", "convert_square_root_call"],
     "expressions_as_statement:local-underscore-shadows-user-variable"),
    ("K2", ["remove_continue"], "remove_continue:repeat-until-condition-reads-body-local"),
    ("K10", ["convert_square_root_call"], "convert_square_root_call:negative-zero-or-negative-infinity"),
    ("K11", ["remove_floor_division"], "remove_floor_division:operand-with-idiv-metamethod"),
]


def known_key(tags, rules):
    for tag, needed, key in KNOWN_CLASSES:
        if tag in tags.split() and any('"%s"' % r in rules for r in needed):
            return key
    return None


def run_profile(ctx, profile, n, size=7, classify=None):
    """Returns (cases, verdicts). classify(case_dict) -> known-finding key or None."""
    out = C.harness("dl-rules", ["gen", "--profile", profile, "--seed", str(ctx.seed), "--n", str(n),
                                 "--size", str(size)], timeout=1800)
    cases = []
    for line in out.splitlines():
        parts = line.split("\t")
        if len(parts) != 9:
            continue
        cid, prof, rules, generator, src_hex, t_in, t_out, t_e2e, t_ref = parts
        src = bytes.fromhex(src_hex).decode("utf-8", "replace")
        ref = t_in if t_ref == "SAME" else t_ref
        cases.append({"id": int(cid), "rules": rules, "generator": generator, "source": src,
                      "in": t_in, "out": t_out, "e2e": t_e2e, "ref": ref})
    coq_cases, index = [], {}
    stage_errors = []
    for c in cases:
        if c["in"].startswith("ERR:") or c["ref"].startswith("ERR:"):
            raise C.CheckBroken("generated program does not parse: %s\n%s" % (c["in"][:200], c["source"]))
        for stage in ("out", "e2e"):
            t = c[stage]
            if t.startswith("ERR:"):
                stage_errors.append((c, stage, t))
                continue
            k = len(coq_cases)
            index[k] = (c, stage)
            coq_cases.append((k, "(%s, %s)" % (c["ref"], t)))
    stats = C.run_coq_stats(ctx.prop, PREAMBLE, coq_cases, chunk=40, tag="stats_" + profile)
    checked = sum(1 for v in stats.values() if v == 0)
    skipped = sum(1 for v in stats.values() if v == 1)
    bad = [k for k, v in stats.items() if v == 2]
    changed = sum(1 for c in cases if c["out"] != c["in"])
    # distinct non-trivial: the reference run gave a verdict AND the rules changed the tree
    nontrivial = len({index[k][0]["source"] for k, v in stats.items()
                      if v == 0 and index[k][0]["out"] != index[k][0]["in"]})
    samples = [{"rules": c["rules"], "generator": c["generator"], "source": c["source"]} for c in cases[:2]]
    ctx.stream("rules/%s: run(reference) vs run(output) in the Coq reference interpreter" % profile,
               len(coq_cases), nontrivial, samples, programs=len(cases), compared=checked, no_verdict=skipped,
               differing=len(bad), programs_changed_by_rules=changed, stage_errors=len(stage_errors))
    tags = {}
    if bad:
        srcs = sorted({index[k][0]["id"] for k in bad})
        by_id = {c["id"]: c for c in cases}
        res = C.run_coq_cases(ctx.prop, TAGS_PREAMBLE, [(i, by_id[i]["in"]) for i in srcs], chunk=50, tag="tags_" + profile)
        tags = dict(res)
    for k in sorted(bad):
        c, stage = index[k]
        key = known_key(tags.get(c["id"], ""), c["rules"])
        if key is None and classify:
            key = classify(c, stage)
        ctx.violation("output program behaves differently from the original (%s)" %
                      ("rules applied to the tree" if stage == "out" else "end to end through process + generator"),
                      {"rules": c["rules"], "generator": c["generator"] if stage == "e2e" else None,
                       "stage": stage, "source": c["source"],
                       "replay": "darklua process with these rules on this source; compare runs with Lua/RunCheck.v compare_all"},
                      key=key)
    for c, stage, t in stage_errors:
        key = classify(c, stage + "-error") if classify else None
        ctx.violation("darklua failed on a valid program: " + t[:300],
                      {"rules": c["rules"], "generator": c["generator"], "stage": stage, "source": c["source"]},
                      key=key)
    return cases, stats
