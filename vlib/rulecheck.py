"""Shared driver of the rule properties (C01, C06, C16, C17): whole-program differential
through the reference interpreter (Coq, vm_compute).

For every generated program P and rule list R the harness gives
  IN   = parse(P)
  OUT  = R applied to the AST of P (Rule::process)
  E2E  = parse(text written by darklua_core::process(P, R, generator))
  REF  = the program whose behaviour the output must have (P itself, or P in the modified
         environment for C17)
and Coq compares run(REF) with run(OUT) and run(E2E) under both dialects and several
oracle streams (Lua/RunCheck.v)."""
import re

from . import common as C

PREAMBLE = """From Coq Require Import ZArith.
From DL Require Import Lib.Bytes Lib.F64 Lua.Syntax Lua.Sem Lua.RunCheck.
Open Scope N_scope.
Open Scope string_scope.
Definition bx := unhex.
Definition nm := of_string.
Definition FUEL := 400%nat.
(* case = (reference program, output program) *)
Definition stat_case (c : block * block) : N := compare_all FUEL (fst c) (snd c).
"""

DIAG_PREAMBLE = PREAMBLE + """
Definition check_case (c : block * block) : bool := negb (stat_case c =? 2).
Definition diag_case (c : block * block) : string := "differs".
"""


def run_profile(ctx, profile, n, size=7, classify=None):
    """Returns (cases, verdicts). classify(case_dict) -> known-finding key or None."""
    out = C.harness("dl-rules", ["gen", "--profile", profile, "--seed", str(ctx.seed), "--n", str(n),
                                 "--size", str(size)], timeout=1800)
    cases = []
    for line in out.splitlines():
        parts = line.split("\t")
        if len(parts) != 9:
            continue
        cid, prof, rules, generator, src_hex, t_in, t_out, t_e2e, t_ref = parts
        src = bytes.fromhex(src_hex).decode("utf-8", "replace")
        ref = t_in if t_ref == "SAME" else t_ref
        cases.append({"id": int(cid), "rules": rules, "generator": generator, "source": src,
                      "in": t_in, "out": t_out, "e2e": t_e2e, "ref": ref})
    coq_cases, index = [], {}
    stage_errors = []
    for c in cases:
        if c["in"].startswith("ERR:") or c["ref"].startswith("ERR:"):
            raise C.CheckBroken("generated program does not parse: %s\n%s" % (c["in"][:200], c["source"]))
        for stage in ("out", "e2e"):
            t = c[stage]
            if t.startswith("ERR:"):
                stage_errors.append((c, stage, t))
                continue
            k = len(coq_cases)
            index[k] = (c, stage)
            coq_cases.append((k, "(%s, %s)" % (c["ref"], t)))
    stats = C.run_coq_stats(ctx.prop, PREAMBLE, coq_cases, chunk=40, tag="stats_" + profile)
    checked = sum(1 for v in stats.values() if v == 0)
    skipped = sum(1 for v in stats.values() if v == 1)
    bad = [k for k, v in stats.items() if v == 2]
    changed = sum(1 for c in cases if c["out"] != c["in"])
    # distinct non-trivial: the reference run gave a verdict AND the rules changed the tree
    nontrivial = len({index[k][0]["source"] for k, v in stats.items()
                      if v == 0 and index[k][0]["out"] != index[k][0]["in"]})
    samples = [{"rules": c["rules"], "generator": c["generator"], "source": c["source"]} for c in cases[:2]]
    ctx.stream("rules/%s: run(reference) vs run(output) in the Coq reference interpreter" % profile,
               len(coq_cases), nontrivial, samples, programs=len(cases), compared=checked, no_verdict=skipped,
               differing=len(bad), programs_changed_by_rules=changed, stage_errors=len(stage_errors))
    for k in sorted(bad):
        c, stage = index[k]
        key = classify(c, stage) if classify else None
        ctx.violation("output program behaves differently from the original (%s)" %
                      ("rules applied to the tree" if stage == "out" else "end to end through process + generator"),
                      {"rules": c["rules"], "generator": c["generator"] if stage == "e2e" else None,
                       "stage": stage, "source": c["source"],
                       "replay": "darklua process with these rules on this source; compare runs with Lua/RunCheck.v compare_all"},
                      key=key)
    for c, stage, t in stage_errors:
        key = classify(c, stage + "-error") if classify else None
        ctx.violation("darklua failed on a valid program: " + t[:300],
                      {"rules": c["rules"], "generator": c["generator"], "stage": stage, "source": c["source"]},
                      key=key)
    return cases, stats
