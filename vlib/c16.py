"""C16 - Optional refactoring rules preserve program behaviour."""
import re

from . import common as C
from . import rulecheck
from . import refactor_gen

META = {
    "title": "Optional refactoring rules preserve program behaviour",
    "level": "proof",
    "design_ref": "DESIGN.md section 6 / C16",
    "technique": "Coq theorems on the local rewrites against the reference Lua semantics (incl. a simulation theorem of "
                 "the whole interpreter: closure-representation independence) + Gallina models of the rules tied to the "
                 "Rust code + whole-program translation validation in the Coq reference interpreter",
    "level_text": "Machine-checked LOCAL theorems (Coq, 18 statements in Properties/C16.v, all axiom-free) about the Gallina "
                  "models (Model/Refactor.v) of the five rules' rewrites, against the fuel-indexed reference semantics, for "
                  "every dialect, fuel, environment, varargs and store: x:m(args) vs x.m(x, args) (receiver an identifier "
                  "whose read runs no code, or a literal: same values, same store); math.sqrt(e) vs e ^ 0.5 (same values, same "
                  "store except for -0 and -inf: carve-out + refutation witness, recorded finding); function a.b:m(ps) vs "
                  "a.b.m = function(self, ps) and local function f vs local f = function (where the rule fires, followed by "
                  "ANY statements, same fuel, every outcome) up to the record kept for the function value, which the "
                  "interpreter provably cannot observe (sim_*: a simulation theorem over all 24 functions of the "
                  "interpreter); local vars1 = vals1 local vars2 = vals2 vs the merged declaration under the rule's guards "
                  "for second initialisers that are literals / enclosing locals (same environment, same store; partial), "
                  "with refutation witnesses showing each guard is needed and why exact store equality fails beyond that "
                  "class. On every run the models (incl. the traversals) are compared with the real rules on ~2600 templates "
                  "hitting every arm (block_eqb (model IN) OUT inside Coq), and generated programs and observable templates "
                  "are pushed through the real rules and input and output are executed in the Coq interpreter.",
    "level_note": "Trusted: Coq kernel + vm_compute; Lua/Sem.v (specification); harness dl-rules + astdump. The lifting of "
                  "the local theorems to whole programs is NOT proved (partial): whole-program equivalence is validated per "
                  "run, not for all programs. group_local_assignment with arbitrary second initialisers and function paths "
                  "with __index metamethods are equivalent only up to a renaming of store addresses (not formalised).",
    "trusted_base": ["Coq 8.16.1 kernel, vm_compute", "Lua/Sem.v reference semantics + Lib/F64.v (specification; fpow models "
                     "C's pow on the special cases, sqrt assumed correctly rounded)",
                     "harness/crates/rules (program generator) + astdump (AST printer)", "darklua's parser (to read programs)"],
    "allowed_axioms": [],
    "rule": "(1) seeded typed generator of observable programs x the five rules alone/together, optionally followed by "
            "default rules; non-trivial when the reference run gives a verdict and the rules changed the tree. (2) templates: "
            "group_local: 18 first x 35 second declarations (0/1/2 values vs variables, multi-value calls, initialisers "
            "mentioning/capturing/shadowing the first variables, also inside types) + random chains in every block kind; "
            "local functions recursive / shadowed / name as parameter / name only in types; function statements on "
            "0..3 fields with and without method, typed, attributed, nested; method calls on 34 receiver forms x 13 "
            "argument forms in every syntactic slot; math.sqrt look-alikes x every binding construct shadowing math at "
            "every scope; non-trivial when model = code and the rule changed the tree. (3) observable templates incl. "
            "sqrt(-0) / sqrt(-inf): run of the input vs run of the output",
    "assumptions": ["Lua/Sem.v is a faithful reference semantics on the modelled fragment",
                    "the local theorems are not lifted to whole programs (validated per run instead)",
                    "method_call_sound: reading the receiver runs no code (local, or globals table without metatable) and "
                    "the method lookup does not rebind it; sqrt_sound: global math.sqrt is the library function, argument "
                    "not -0 / -inf; function_to_assign_sound: fields of the path present in their tables (no __index runs); "
                    "group_local_sound_partial: second initialisers literals / enclosing locals",
                    "models leave out: `const function` (not in the tree)"],
}

def run(ctx):
    C.build_harness("dl-rules")
    proofs_ok = C.proof_gate(ctx, ["Lua/RunCheck.vo", "Lua/KnownClasses.vo", "Lua/Fingerprint.vo", "Model/Refactor.vo",
                                   "Model/Removal.vo", "Model/RemovalKnown.vo", "Model/DefaultRules.vo"])
    n = 400 if ctx.tier == "quick" else 6000
    rulecheck.run_profile(ctx, "c16", n, classify=None)
    # the tie of the local theorems' models (Model/Refactor.v, Model/Removal.v, Model/Visit.v) to the Rust rules
    refactor_gen.run_stream(ctx, ctx.prop)
    # property-level oracle on templates (incl. the recorded finding class of convert_square_root_call)
    refactor_gen.run_behaviour(ctx, ctx.prop)
    if not proofs_ok and not ctx.violations:
        failed = [n for n, ok, _ in ctx.obligations if not ok]
        ctx.violation("proof obligation no longer checks: " + "; ".join(failed), {"obligations": failed},
                      found_input=False)


def replay(ctx, path):
    import json
    print(json.dumps(json.load(open(path)), indent=1))
    return 0
