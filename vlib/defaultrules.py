"""Correspondence stream of C01: the node-level models of the default rules
(coq/Model/DefaultRules.v) against the real rules.

For each of the nine modelled rules, small programs aimed at every arm of the model's case
splits are placed in several syntactic contexts, pushed through the real single rule with
`dl-rules apply-batch`, and compared inside Coq:

    block_eqb (erase_exponents (rule_<name> IN)) (erase_exponents OUT)

where `rule_<name>` applies the node-level rewrite over the whole tree in DefaultVisitor order.
The spelling hint `exponent` of generated decimal literals is not modelled (it needs libm's
log10/powf) and is erased on both sides; the literal's value (bit pattern) is compared.
A mismatch alone means "correspondence broken" (the theorems may no longer talk about the code);
concrete failing inputs come from the whole-program stream of vlib/rulecheck.py."""
import random

from . import common as C

# ---------------------------------------------------------------------------------------------
# contexts

EXPR_CTX = ["return HOLE", "local r = HOLE", "r = HOLE", "f(HOLE)", "f(1, HOLE)", "o:m(HOLE)", "local r = (HOLE)",
            "local r = { HOLE }", "local r = { HOLE, 2 }", "local r = { k = HOLE }", "local r = { [HOLE] = 1 }",
            "local r = t[HOLE]", "t[HOLE] = 1", "local r = (HOLE).x", "local r = (HOLE)(1)", "local r = - HOLE",
            "local r = not HOLE", "local r = HOLE + 1", "local r = 1 .. HOLE", "local r = HOLE and 1",
            "local r = 1 or HOLE", "if HOLE then a() end", "if c then a() elseif HOLE then b() end",
            "while HOLE do break end", "repeat until HOLE", "for i = HOLE, 2 do end", "for i = 1, 2, HOLE do end",
            "for k, v in HOLE do end", "v += HOLE", "local r = function() return HOLE end",
            "local function g(...) local q = HOLE return q end", "function t.f(a) return HOLE end",
            "local r = if c then HOLE else 0", "local r = if HOLE then 1 else 0", "local r = `x{HOLE}y`",
            "local r = (HOLE) :: any", "local a, b = HOLE, 2", "local a, b = 1, HOLE", "return 1, HOLE", "local q: typeof(HOLE) = 1", "type T = typeof(HOLE)",
            "local r = function(a: typeof(HOLE)): typeof(HOLE) return a end", "for i: typeof(HOLE) = 1, 2 do end"]

STMT_CTX = ["HOLE", "a() HOLE b()", "do HOLE end", "if c then HOLE end", "if c then a() else HOLE end",
            "if c then elseif d then HOLE end", "while c do HOLE end", "repeat HOLE until c",
            "for i = 1, 2 do HOLE end", "for k, v in pairs(t) do HOLE end", "function f(...) HOLE end",
            "local function g(...) HOLE end", "function t:m(...) HOLE end", "local r = function(...) HOLE end",
            "f(function(...) HOLE end)", "return function(...) HOLE end"]

# ---------------------------------------------------------------------------------------------
# per rule: (expression snippets, statement snippets) aimed at the arms of the model

COMPUTE_E = [
    # unary
    "-1", "-(-1)", "not true", "not nil", "not x", "#\"abc\"", "-x", "-\"2\"", "not f()", "-(1/0)", "-(0/0)", "-0",
    "#{}", "-{}", "not {}", "#x", "not (1 == 1)", "- -x", "#`ab{true}`",
    # arithmetic / comparison / concatenation
    "1 + 2", "7 % 3", "2 ^ 10", "1 / 0", "-1 / 0", "0 / 0", "1e308 * 10", "0.001 + 0", "1500 + 0", "1000 + 0",
    "12300000 + 0", "0.1 + 0.2", "7 // 2", "\"1\" + 2", "\"a\" .. \"b\"", "1 .. 2", "\"x\" .. 1.5", "1 == 1",
    "1 ~= 2", "\"a\" < \"b\"", "1 < 2", "1 <= 2", "2 > 1", "2 >= 1", "x + 1", "f() + 1", "{} == {}", "nil == false",
    "\"a\" == \"a\"", "1 < \"2\"", "1e100 .. \"\"", "5 % -3", "-5 % 3", "0 * -1", "1 - 1", "100 * 100", "2 ^ 0.5",
    "1e15 + 0", "123456789012 * 1000", "1 / 3", "255 * 1", "0.5 * 0.5", "1e-7 * 1",
    # and / or with a known left operand
    "true and 1", "false and f()", "nil or 2", "true and f()", "true and x", "1 and ...", "nil or f()", "x and 1",
    "f() and true", "false or (nil or x)", "true and (1 and {})", "{} and 1", "{} and f()",
    "(function() end) and g()", "nil and f()", "x or f()", "1 or f()", "(true and f()) + 1", "nil or ...",
    "{f()} and g()", "not {f()} or g()", "{f()} or g()", "(1 and x) or y", "true and true and f()",
    "false or false or x", "1 and {} and x", "nil or {}", "\"s\" and function() end", "true and (x or 1)",
    "(nil or false) or f()", "(1 == 1) and x", "(1 == 2) or x",
    # if expressions
    "if true then 1 else 2", "if x then 1 else 2", "if false then f() else 3", "if true then x else y",
    "if f() then 1 else 2", "if false then 1 elseif true then \"s\" else 3", "if nil then 1 elseif x then 2 else 3",
    "if true then 1 + 1 else f()", "if 1 == 1 then nil else 0",
    # nested
    "f(1 + 2, true and g())", "t[1 + 1]", "{1 + 1, [2 * 3] = 4, k = not true}", "(1 + 2) * x",
    "function() return 1 + 1, true and f() end", "(1 + 1)", "`a{1 + 1}b`", "t[1 + 1].x(2 * 2)", "(1 + 1 :: number) + x",
]

IF_S = [
    "if true then a() end", "if false then a() end", "if true then end", "if false then a() else b() end",
    "if nil then a() elseif true then b() else c() end", "if x then a() elseif true then b() else c() end",
    "if x then a() elseif false then b() else c() end", "if x then a() else end", "if x then a() end",
    "if {f()} then a() else b() end", "if not {f()} then a() else b() end",
    "if x then a() elseif {f()} then b() elseif y then c() else d() end", "if x then a() elseif true then else c() end",
    "if false then a() elseif false then b() end", "if false then elseif nil then else end", "if true then return 1 end",
    "if true then local a = 1 end", "if x then a() elseif not {f()} then b() elseif true then c() else d() end",
    "if 1 == 1 then a() else b() end", "if 1 > 2 then a() elseif x then b() end", "if false then a() else end",
    "if true then else b() end", "if x then elseif y then else end", "if not {f()} then a() end",
    "if {f()} then end", "if x then a() elseif true then b() end", "if x then a() elseif {f()} then b() end",
    "if false then a() elseif {f()} then b() elseif z then c() else d() end",
    "if true then a() end if false then b() end if x then c() end",
]

IF_E = [
    "if true then 1 else 2", "if true then f() else 2", "if true then ... else 2", "if false then 1 else f()",
    "if false then 1 elseif true then 2 else 3", "if false then 1 elseif x then 2 else 3",
    "if {f()} then 1 elseif y then 2 else 3", "if not {f()} then 1 elseif y then 2 else 3",
    "if x then 1 elseif true then 2 elseif z then 4 else 3", "if x then 1 elseif false then 2 else 3",
    "if x then 1 elseif {f()} then 2 elseif z then 4 else 3", "if x then 1 elseif not {f()} then 2 else 3",
    "if x then 1 elseif y then 2 else 3", "if true then x and y else 2", "if true then -x else 2",
    "if true then x + 1 else 2", "if false then 1 else ...", "if nil then 1 elseif false then 2 else {}",
    "if x then 1 elseif true then f() else 3", "if false then 0 elseif not {f()} then 1 elseif true then 2 else 3",
    "if true then (if false then 1 else f()) else 2",
]

WHILE_S = [
    "while false do a() end", "while nil do end", "while true do break end", "while x do a() end",
    "while not {f()} do end", "while 1 > 2 do a() end", "while f() do end", "while 1 do break end",
    "while not true do a() end", "while false do end while x do end while nil do end", "while {} do break end",
    "while \"\" do break end", "while 1 == 2 do end",
]

EARLY_S = [
    "do return end a()", "do return 1 end", "do do return end end a() return 2", "do a() end b()",
    "while x do do break end a() end", "do a() do return end b() end c()", "a() do return end b() return 3",
    "do if x then return end end a()", "do do a() end end b()", "do return end do return end",
    "while x do do continue end a() end", "do do do return 1 end end end a()", "do a() end do return end b()",
    "do local q = 1 return q end a()", "do do a() end do return end end b() return 1",
]

EMPTY_DO_S = [
    "do end", "do do end end", "do end a() do end", "do do end end do do g() end end", "do a() end", "do return end",
    "do do end a() end", "do do do end end end", "do do end end do g() end", "do do g() end end do do end end",
    "do end do end do end", "do do end do end end", "do local function h() do end end end", "do break end",
    "do do end end do local r = function() do do end end end end",
]

NIL_S = [
    "local a = nil", "local a, b = nil, nil", "local a, b = nil, 1", "local a, b, c = nil, 1, nil",
    "local a, b = 1, nil", "local a, b = f(), nil", "local a, b = nil, f()", "local a, b, c = nil, f()",
    "local a, b, c = nil, (f())", "local a = nil, 1", "local a = nil, f()", "local a, b = nil, 1, 2, f(), x",
    "local x, x = nil, 1", "local a, b = 1, 2", "const a = nil", "local a, b = nil, ...", "local a, b, c = 1, nil, ...",
    "local a: number? = nil", "local a, b = nil", "local a", "local a, b, c = nil, nil, f()", "local a, b = -x, nil",
    "local a, b, c = 1, nil", "local a, b = (nil), nil", "local a = 1, 2, 3", "local a, b = nil, x and y",
    "local a, b, c, d = 1, nil, 2, nil", "local a, a2 = nil, 1, g()",
]

INDEX_E = [
    "t[\"x\"]", "t[\"x\" .. \"y\"]", "t[\"end\"]", "t[\"1x\"]", "t[\"\"]", "t[\"a b\"]", "t[\"_a1\"]", "t[x]", "t[1]",
    "t[{f()} and \"x\"]", "t[\"x\"].y[\"z\"]", "t[\"x\"]()", "t[\"f\"](\"a\")", "t[`k`]", "t[(\"x\")]",
    "t[if true then \"a\" else \"b\"]", "t[\"\\195\\169\"]", "t[\"x\"]:m()", "(t[\"x\"])[\"y\"]",
    "{[\"x\"] = 1, [\"end\"] = 2, [1] = 3, [y] = 4, [\"a\" .. \"b\"] = 5}", "f{[\"k\"] = 1}", "o:m{[\"k\"] = t[\"j\"]}",
    "t[true and \"x\"]", "t[nil or \"y\"]", "t[\"x\" .. 1]", "t[1 .. \"\"]", "f()[\"x\"]", "t[\"while\"]", "t[\"While\"]",
    "t[\"a-b\"]", "t[\"X9\"]", "t[f() and \"x\"]", "t[\"x\" :: string]",
]

INDEX_S = [
    "t[\"x\"] = 1", "t[\"x\"][\"y\"] = 2", "t[\"a\"] += 1", "t[\"x\"], u[\"end\"], v[y] = 1, 2, 3",
    "t[\"x\"](\"y\")", "t[\"x\"][\"m\"](t)", "function t.a() return t[\"b\"] end", "t[{f()} and \"x\"] = 1",
    "t[\"a\" .. \"b\"][`c`] ..= \"s\"",
]

METHOD_S = [
    "function t:m() end", "function t.a.b:m(x, y) return self end", "function t.m() end", "function f() end",
    "function t:m(...) return ... end", "function t:m(self) end", "function t:m(a: number): number return a end",
    "function t.a:b() function t.c:d() end end",
]

CALL_E = [
    "f(\"s\")", "f({})", "f({1, 2})", "f(\"a\", \"b\")", "f()", "f(x)", "o:m(\"s\")", "o:m({k = 1})", "f(\"s\")(\"t\")",
    "f((\"s\"))", "f(g(\"x\"))", "f{g(\"x\")}", "f(1)", "f(nil)", "f(`s`)", "f \"s\"", "f {}", "f({g({})})",
    "t.a.b(\"s\")", "t[1](\"s\")", "(f)(\"s\")", "f(\"s\", nil)", "f({}, {})", "f([[long]])",
]

CALL_S = ["f(\"s\")", "f({})", "o:m(\"s\")", "f(\"s\")(\"t\")", "f(x)", "f({g(\"y\")})"]

# rule name -> (model function, expression snippets, statement snippets)
RULES = {
    "compute_expression": ("rule_compute_expression", COMPUTE_E, []),
    "remove_unused_if_branch": ("rule_remove_unused_if_branch", IF_E, IF_S),
    "remove_unused_while": ("rule_remove_unused_while", [], WHILE_S),
    "filter_after_early_return": ("rule_filter_after_early_return", [], EARLY_S),
    "remove_empty_do": ("rule_remove_empty_do", [], EMPTY_DO_S),
    "remove_nil_declaration": ("rule_remove_nil_declaration", [], NIL_S),
    "convert_index_to_field": ("rule_convert_index_to_field", INDEX_E, INDEX_S),
    "remove_method_definition": ("rule_remove_method_definition", [], METHOD_S),
    "remove_function_call_parens": ("rule_remove_function_call_parens", CALL_E, CALL_S),
}

PREAMBLE = """From Coq Require Import ZArith.
From DL Require Import Lib.Bytes Lib.F64 Lua.Syntax Lua.Fingerprint Model.Evaluator Model.DefaultRules.
Open Scope N_scope.
Open Scope string_scope.
Definition bx := unhex.
Definition nm := of_string.
(* case = (model rule, (input tree, output tree)); verdict: 0 = model and code agree and the rule
   changed the tree, 1 = agree and the tree is unchanged, 2 = disagree *)
Definition stat_case (c : (block -> block) * (block * block)) : N :=
  let f := fst c in
  let bin := fst (snd c) in
  let bout := snd (snd c) in
  if block_eqb (erase_exponents (f bin)) (erase_exponents bout)
  then (if block_eqb bin bout then 1 else 0) else 2.
"""


def sources_for(rule, rnd, per_snippet):
    _, exprs, stmts = RULES[rule]
    out = []
    for e in exprs:
        ctxs = EXPR_CTX[:2] + rnd.sample(EXPR_CTX[2:], min(per_snippet, len(EXPR_CTX) - 2))
        for c in ctxs:
            out.append(c.replace("HOLE", e))
    for s in stmts:
        ctxs = STMT_CTX[:1] + rnd.sample(STMT_CTX[1:], min(per_snippet, len(STMT_CTX) - 1))
        for c in ctxs:
            out.append(c.replace("HOLE", s))
    # two snippets side by side (filters walk a statement list)
    pool = stmts or ["local r = " + e for e in exprs]
    for _ in range(len(pool)):
        a, b = rnd.choice(pool), rnd.choice(pool)
        out.append(a + "\n" + b)
    return out


def model_stream(ctx):
    """Runs the stream; returns the number of model/code disagreements."""
    rnd = random.Random(ctx.seed * 7919 + 17)
    per_snippet = 3 if ctx.tier == "quick" else 100
    jobs, seen = [], set()
    for rule in RULES:
        for src in sources_for(rule, rnd, per_snippet):
            if (rule, src) not in seen:
                seen.add((rule, src))
                jobs.append((rule, src))
    stdin = "".join('["%s"]\t"dense"\t%s\n' % (r, s.encode().hex()) for r, s in jobs)
    out = C.harness("dl-rules", ["apply-batch"], input=stdin, timeout=1800)
    lines = out.splitlines()
    if len(lines) != len(jobs):
        raise C.CheckBroken("apply-batch returned %d lines for %d jobs" % (len(lines), len(jobs)))
    cases, index, unparsable, stage_errors = [], {}, [], []
    for (rule, src), line in zip(jobs, lines):
        t_in, t_out, _t_e2e, _text = line.split("\t")
        if t_in.startswith("ERR:"):
            unparsable.append((rule, src, t_in))
            continue
        if t_out.startswith("ERR:"):
            stage_errors.append((rule, src, t_out))
            continue
        k = len(cases)
        index[k] = (rule, src)
        cases.append((k, "(%s, (%s, %s))" % (RULES[rule][0], t_in, t_out)))
    if len(unparsable) > len(jobs) // 20:
        raise C.CheckBroken("%d templates do not parse, e.g. %s" % (len(unparsable), unparsable[0]))
    stats = C.run_coq_stats(ctx.prop, PREAMBLE, cases, chunk=120, tag="stats_model")
    changed = [k for k, v in stats.items() if v == 0]
    same = [k for k, v in stats.items() if v == 1]
    bad = sorted(k for k, v in stats.items() if v == 2)
    per_rule = {}
    for k, v in stats.items():
        r = index[k][0]
        d = per_rule.setdefault(r, [0, 0, 0])
        d[v] += 1
    ctx.stream("default rules: node-level model (Model/DefaultRules.v, visitor order) vs the real single rule, "
               "output trees compared in Coq", len(cases), len(changed),
               [{"rule": index[k][0], "source": index[k][1]} for k in changed[:3]],
               agree_changed=len(changed), agree_unchanged=len(same), disagree=len(bad),
               unparsable_templates=len(unparsable), rule_errors=len(stage_errors),
               per_rule={r: {"changed": d[0], "unchanged": d[1], "disagree": d[2]} for r, d in sorted(per_rule.items())})
    if bad:
        rule, src = index[bad[0]]
        ctx.violation("correspondence broken: the real rule %s differs from its model in Model/DefaultRules.v on %d of %d "
                      "programs (the local-equivalence theorems may no longer describe the code)" % (rule, len(bad), len(cases)),
                      {"stream": "default-rules model-vs-code", "rule": rule, "source": src,
                       "others": [{"rule": index[k][0], "source": index[k][1]} for k in bad[1:6]],
                       "replay": "dl-rules apply-batch with [\"%s\"]; compare with Model/DefaultRules.v rule_%s" % (rule, rule)},
                      found_input=False)
    for rule, src, t in stage_errors[:2]:
        ctx.violation("darklua failed on a valid program: " + t[:300], {"rules": rule, "source": src, "stage": "out"})
    return len(bad)
