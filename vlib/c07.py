"""C07 - each Luau-lowering rule removes every occurrence of its construct."""
import random
import re

from . import common as C
from . import continue_gen
from . import lowering_gen

META = {
    "title": "Each Luau-lowering rule removes every occurrence of its construct",
    "level": "proof",
    "design_ref": "DESIGN.md section 6 / C07",
    "technique": "Coq theorems on a Gallina model of the visitor + rule rewrites (census = 0 after the rule), tied to the "
                 "Rust rules by placing every construct in every syntactic slot and taking an independent census of the "
                 "real output inside Coq",
    "level_text": "Machine-checked theorems over the full syntax (all nesting depths) that the modelled traversal with each "
                  "rule's rewrite leaves no occurrence of the targeted construct (all nine rules, remove_continue included, and "
                  "their composition in any order); on every run each construct is placed in "
                  "every child slot of every node kind (exhaustive at depth 1, sampled/exhaustive at depth 2), the real rule "
                  "is applied (on the tree and end to end), and a census function written independently in Coq counts the "
                  "construct in darklua's output tree; number spellings are checked on the written text.",
    "level_note": "Trusted: Coq kernel + vm_compute; Lua/Census.v (specification of 'occurrence'); harness dl-rules + astdump; "
                  "darklua's parser to read the output text back. Residual assumption: the Rust visitors are compositional "
                  "(behave at depth > 2 as they do at depth <= 2).",
    "trusted_base": ["Coq 8.16.1 kernel, vm_compute", "Lua/Census.v (specification)", "harness/crates/rules + astdump",
                     "darklua's parser (re-reading written output)"],
    "allowed_axioms": [],
    "rule": "construct (per rule, several spellings) x context template (34 expression-in-expression, 26 expression-in-"
            "statement, 11 statement-in-statement, 2 statement-in-expression slots), depth 1 exhaustive, depth 2 sampled "
            "(quick) or exhaustive (thorough); plus all nine rules together in random order; non-trivial = the input tree "
            "contains the construct (census > 0); distinct by source text",
    "assumptions": ["visitor compositionality beyond depth 2",
                    "the theorems about the eight rules of Model/Lowering.v cover programs that declare no local named "
                    "math/string/tostring/__DARKLUA_VAR* (shadow handling of those rules is outside the model)",
                    "remove_continue (Model/RemoveContinue.v, modelled in full: traversal order, loop stack, numbering, "
                    "names): `continue` is removed from every program whose `continue`s are all inside a loop of the same "
                    "function (continue_in_loops; exact: C07_removes_continue_iff); the code leaves a `continue` outside "
                    "any loop in place (C07_removes_continue_refuted; such a program is not valid Luau), so the nine-rule "
                    "theorem C07_all_lowered9 (any order) is stated for programs in that domain"],
}

# ---------------------------------------------------------------------------------------------
# templates

EE = ["(HOLE)", "-HOLE", "not HOLE", "HOLE + 1", "1 .. HOLE", "HOLE and 1", "1 or HOLE", "f(HOLE)", "f(1, HOLE)",
      "o:m(HOLE)", "(HOLE).x", "(HOLE)[1]", "t[HOLE]", "(HOLE)(1)", "(HOLE):m()", "{ HOLE }", "{ HOLE, 2 }",
      "{ k = HOLE }", "{ [HOLE] = 1 }", "{ [1] = HOLE }", "f { HOLE }", "(if c then HOLE else 0)",
      "(if HOLE then 1 else 0)", "(if c then 1 else HOLE)", "(if c then 1 elseif HOLE then 2 else 3)",
      "(if c then 1 elseif d then HOLE else 3)", "`x{HOLE}y`", "`{HOLE}`", "(HOLE :: any)", "HOLE // 2", "2 // HOLE",
      "function() return HOLE end", "function(...) local q = HOLE return q end", "HOLE == 1", "HOLE < 2"]

ES = ["local v = HOLE", "local a, b = 1, HOLE", "v = HOLE", "t.f = HOLE", "t[HOLE] = 1", "(HOLE).y = 1", "v += HOLE",
      "t[HOLE] += 1", "f(HOLE)", "o:m(HOLE)", "if HOLE then end", "if c then elseif HOLE then end",
      "while HOLE do end", "repeat until HOLE", "for i = HOLE, 2 do end", "for i = 1, HOLE do end",
      "for i = 1, 2, HOLE do end", "for k, v in HOLE do end", "for k in f, HOLE do end", "return HOLE",
      "local v: typeof(HOLE) = 1", "type T = typeof(HOLE)", "for k: typeof(HOLE), v in pairs(t) do end",
      "for k, v: typeof(HOLE) in pairs(t) do end", "for i: typeof(HOLE) = 1, 2 do end",
      "local function g(a: typeof(HOLE)): typeof(HOLE) end", "function t.f(a: typeof(HOLE), ...: typeof(HOLE)) end",
      "local v = 1, HOLE", "local a, b = 1, 2, HOLE", "a, b = 1, 2, HOLE", "local v = nil, function() return HOLE end",
      "local function g(...: number): typeof(HOLE) end", "local g = function(...: number): typeof(HOLE) end",
      "function t.f(...: number): typeof(HOLE) end", "local function g<T>(a: T, ...: T): (typeof(HOLE), ...typeof(HOLE)) end",
      "repeat return HOLE until true", "repeat f() return 1, HOLE until c", "while c do return HOLE end", "function t.f(a) return HOLE end",
      "local function g() return HOLE end", "local v = (HOLE) :: typeof(HOLE)", "t[1], t[HOLE] = 1, 2"]

SS = ["do HOLE end", "if c then HOLE end", "if c then else HOLE end", "if c then elseif d then HOLE end",
      "while c do HOLE end", "repeat HOLE until c", "for i = 1, 2 do HOLE end", "for k, v in pairs(t) do HOLE end",
      "function f() HOLE end", "local function g() HOLE end", "function t:m() HOLE end"]

# statements placed in front of the construct inside the same block (traversal state carried
# from one statement to the next)
SIBLINGS = ["local f = function(l) for _, x in l do p(x) end end", "local function g() while c do q() end end",
            "while c do break end", "do end", "t.m = function() repeat until c end",
            "call(function() for i = 1, 2 do end end)"]

LOOPS = ["while c do HOLE end", "repeat HOLE until c", "for i = 1, 2 do HOLE end", "for k, v in pairs(t) do HOLE end"]

SE = ["function() HOLE end", "(function() HOLE end)()"]

# rule -> (feature index, expression constructs, statement constructs, loop-body constructs)
CONSTRUCTS = {
    "remove_compound_assignment": (0, [], ["v += 1", "t.f ..= \"s\"", "t[k] -= 2", "t[f()].g *= 2", "v //= 2"], []),
    "remove_continue": (1, [], [], ["continue", "if c then continue end", "do continue end",
                                    "if c then f() continue else continue end"]),
    "remove_if_expression": (2, ["(if c then 1 else 2)", "(if c then 1 elseif d then 2 else 3)",
                                 "(if c then nil else false)", "(if c then f() else g())"], [], []),
    "remove_interpolated_string": (3, ["`a{v}b`", "`plain`", "`{v}{w}`", "`n: {1 + 2}`"], [], []),
    "remove_floor_division": (4, ["(a // b)", "(7 // 2)", "(f() // g())"], ["v //= 2", "t[f()] //= 3"], []),
    "convert_luau_number": (5, ["0b101", "0B11"], [], []),
    "make_assignment_local": (6, [], ["const K = 1", "const A, B = f()"], []),
    "remove_types": (7, ["(v :: any)", "(v :: { x: number })", "function(a: number): string return \"\" end",
                         "function<T>(a: T) return a end"],
                     ["local v: number = 1", "type T = number", "export type U = { x: number }",
                      "local function h(a: string, ...: number): (number, string) return 1, a end",
                      "for i: number = 1, 2 do end", "type G<T> = { T }"], []),
    "remove_attribute": (8, [], ["@native local function n() end", "@native function gg() end"], []),
}

NUMBER_SPELLINGS = ["1_000", "0x_ff", "0b1_0", "1_0.5", "1e1_0", "0xF_F"]

ALL_RULES = list(CONSTRUCTS.keys())


def contexts_for_expr(k, depth2, rnd, limit):
    out = []
    for es in ES:
        out.append(es.replace("HOLE", k))
    for ee in EE:
        out.append(("local r = " + ee).replace("HOLE", k))
    if depth2:
        combos = []
        for ee in EE:
            for outer in EE:
                combos.append(("local r = " + outer.replace("HOLE", ee)).replace("HOLE", k))
            for es in ES:
                combos.append(es.replace("HOLE", ee).replace("HOLE", k))
        for ss in SS:
            for es in ES:
                combos.append(ss.replace("HOLE", es.replace("HOLE", k)))
        for se in SE:
            for es in ES:
                combos.append(("local r = " + se).replace("HOLE", es.replace("HOLE", k)))
        if limit is not None and len(combos) > limit:
            combos = rnd.sample(combos, limit)
        out.extend(combos)
    return out


def contexts_for_stmt(k, depth2, rnd, limit, loops_only=False):
    pool = LOOPS if loops_only else SS
    out = [] if loops_only else [k]
    for ss in pool:
        out.append(ss.replace("HOLE", k))
    for se in SE:
        inner = LOOPS[0].replace("HOLE", k) if loops_only else k
        out.append(("local r = " + se).replace("HOLE", inner))
    # the construct after a sibling statement, and inside a function that is itself an operand of
    # every expression context (always generated: these are the traversal's state-carrying paths)
    for ss in pool:
        for sib in SIBLINGS:
            out.append(ss.replace("HOLE", sib + " " + k))
    inner_loop = LOOPS[2].replace("HOLE", k) if loops_only else k
    for ee in EE:
        for se in SE:
            out.append(("local r = " + ee).replace("HOLE", se.replace("HOLE", inner_loop)))
    # ... and of every expression position of every statement kind (loop headers, the `until`
    # condition, typeof annotations, call arguments ...): always generated, never sampled
    for es in ES:
        for se in SE:
            out.append(es.replace("HOLE", se.replace("HOLE", inner_loop)))
    for ss in pool:
        for es in ES:
            out.append(ss.replace("HOLE", es.replace("HOLE", SE[1].replace("HOLE", inner_loop))))
    if depth2:
        combos = []
        for ss in pool:
            for outer in SS:
                combos.append(outer.replace("HOLE", ss.replace("HOLE", k)))
            for se in SE:
                for es in ES[:6]:
                    combos.append(es.replace("HOLE", se.replace("HOLE", ss.replace("HOLE", k))))
        if limit is not None and len(combos) > limit:
            combos = rnd.sample(combos, limit)
        out.extend(combos)
    return out


def strip_strings_and_comments(text):
    text = re.sub(r"--\[(=*)\[.*?\]\1\]", " ", text, flags=re.S)
    text = re.sub(r"--[^\n]*", " ", text)
    text = re.sub(r"\[(=*)\[.*?\]\1\]", " S ", text, flags=re.S)
    text = re.sub(r"\"(?:\\.|[^\"\\\n])*\"|'(?:\\.|[^'\\\n])*'|`(?:\\.|[^`\\])*`", " S ", text)
    return text


LUAU_NUMBER = re.compile(r"(?<![\w.])(?:0[bB][01_]+|0[xX][0-9a-fA-F_]*_[0-9a-fA-F_]*|\d[\d_]*_[\d_.eE+-]*|\d+\.\d*_[\d_]*)")

PREAMBLE = """From Coq Require Import ZArith.
From DL Require Import Lib.Bytes Lua.Syntax Lua.Census.
Open Scope N_scope.
Open Scope string_scope.
Definition bx := unhex.
Definition nm := of_string.
(* case = (feature index or 99 for all features, (input tree, output tree)); verdict:
   0 = construct present in the input and absent from the output, 1 = input did not contain it
   (template without the construct), 2 = still present in the output *)
Definition stat_case (c : nat * (block * block)) : N :=
  let i := fst c in
  let bin := fst (snd c) in
  let bout := snd (snd c) in
  if Nat.eqb i 99 then (if lua51_tree bout then (if lua51_tree bin then 1 else 0) else 2)
  else if N.eqb (feature i bout) 0 then (if N.eqb (feature i bin) 0 then 1 else 0) else 2.
"""


def run(ctx):
    C.build_harness("dl-rules")
    proofs_ok = C.proof_gate(ctx, ["Lua/Census.vo", "Lua/Fingerprint.vo", "Model/RemoveContinue.vo"])
    rnd = random.Random(ctx.seed)
    depth2 = True
    limit = 120 if ctx.tier == "quick" else None

    jobs = []  # (rules_json, generator, source, feature index, rule name)
    gens = ['"retain_lines"', '"dense"', '"readable"']
    for rule, (idx, exprs, stmts, loopers) in CONSTRUCTS.items():
        sources = []
        for k in exprs:
            sources += contexts_for_expr(k, depth2, rnd, limit)
        for k in stmts:
            sources += contexts_for_stmt(k, depth2, rnd, limit)
        for k in loopers:
            sources += contexts_for_stmt(k, depth2, rnd, limit, loops_only=True)
        for src in sources:
            jobs.append(('["%s"]' % rule, rnd.choice(gens), src, idx, rule))
    # Luau number spellings: token-level, checked on the written text
    for sp in NUMBER_SPELLINGS + ["0b101"]:
        for src in contexts_for_expr(sp, False, rnd, None):
            jobs.append(('["convert_luau_number"]', '"retain_lines"', src, -1, "convert_luau_number"))
    # all rules together, random order, programs mixing constructs
    n_all = 300 if ctx.tier == "quick" else 3000
    every = [(r, k) for r, (_, ex, st, lo) in CONSTRUCTS.items() for k in st + ["local q = " + e for e in ex]]
    for _ in range(n_all):
        picks = rnd.sample(every, 4)
        body = "\n".join(rnd.choice(SS).replace("HOLE", k) if rnd.random() < 0.5 else k for _, k in picks)
        body += "\nfor i = 1, 2 do if c then continue end end"
        order = ALL_RULES[:]
        rnd.shuffle(order)
        jobs.append(("[%s]" % ", ".join('"%s"' % r for r in order), rnd.choice(gens), body, 99, "all"))

    # bundled: the construct sits only in a required module (the entry has none of the rule's constructs, the rule
    # runs on the bundle), alone and with all rules; a job with a 6th field is run with that module and bundling
    for rule, (idx, exprs, stmts, loopers) in CONSTRUCTS.items():
        for k in exprs[:2]:
            module = "local r = " + k + "\nreturn { r = r, f = function() return " + k + " end }"
            for g in gens:
                jobs.append(('["%s"]' % rule, g, "local m = require('./m')\nreturn m", idx, rule, module))
        for k in stmts[:2] + [LOOPS[0].replace("HOLE", l) for l in loopers[:2]]:
            module = k + "\nlocal function g()\n" + k + "\nend\nreturn g"
            for g in gens:
                jobs.append(('["%s"]' % rule, g, "local m = require('./m')\nreturn m", idx, rule, module))
    for sp in NUMBER_SPELLINGS + ["0b101"]:
        for g in gens:
            jobs.append(('["convert_luau_number"]', g, "local m = require('./m')\nreturn m", 5, "convert_luau_number",
                         "return { v = " + sp + " }"))
    order = ALL_RULES[:]
    for g in gens:
        module = "\n".join(st[0] for _, (_, _, st, _) in CONSTRUCTS.items() if st) + \
                 "\nlocal q = { " + ", ".join(ex[0] for _, (_, ex, _, _) in CONSTRUCTS.items() if ex) + " }" + \
                 "\nfor i = 1, 2 do if c then continue end end\nreturn q"
        jobs.append(("[%s]" % ", ".join('"%s"' % r for r in order), g, "local m = require('./m')\nreturn m", 99, "all", module))

    # de-duplicate by (rules, source)
    seen, uniq = set(), []
    for j in jobs:
        key = (j[0], j[2], j[5] if len(j) > 5 else None, j[1] if len(j) > 5 else None)
        if key not in seen:
            seen.add(key)
            uniq.append(j)
    jobs = uniq
    stdin = "".join("%s\t%s\t%s%s\n" % (j[0], j[1], j[2].encode().hex(), ("\t" + j[5].encode().hex()) if len(j) > 5 else "")
                    for j in jobs)
    out = C.harness("dl-rules", ["apply-batch"], input=stdin, timeout=1800)
    lines = out.splitlines()
    if len(lines) != len(jobs):
        raise C.CheckBroken("apply-batch returned %d lines for %d jobs" % (len(lines), len(jobs)))

    coq_cases, index = [], {}
    text_bad, stage_errors, template_errors = [], [], 0
    for job, line in zip(jobs, lines):
        rules, generator, src, idx, rule = job[:5]
        if len(job) > 5:
            src = src + "\n-- src/m.lua:\n" + job[5]
        t_in, t_out, t_e2e, text_hex = line.split("\t")
        if t_in.startswith("ERR:"):
            template_errors += 1
            continue
        for stage, t in (("out", t_out), ("e2e", t_e2e)):
            if t.startswith("ERR:"):
                stage_errors.append((job, stage, t))
                continue
            if idx >= 0:
                k = len(coq_cases)
                index[k] = (job, stage)
                coq_cases.append((k, "(%d%%nat, (%s, %s))" % (idx, t_in, t)))
        if (idx in (-1, 5, 99)) and text_hex != "-":
            text = bytes.fromhex(text_hex).decode("utf-8", "replace")
            m = LUAU_NUMBER.search(strip_strings_and_comments(text))
            if m:
                text_bad.append((job, m.group(0), text))
    if template_errors > len(jobs) // 20:
        raise C.CheckBroken("%d templates do not parse" % template_errors)
    stats = C.run_coq_stats(ctx.prop, PREAMBLE, coq_cases, chunk=150)
    ok = sum(1 for v in stats.values() if v == 0)
    vac = sum(1 for v in stats.values() if v == 1)
    bad = [k for k, v in stats.items() if v == 2]
    nontrivial = len({index[k][0][2] + index[k][0][0] for k, v in stats.items() if v == 0})
    ctx.stream("census of the construct in darklua's output tree (every construct x every slot)",
               len(coq_cases), nontrivial, [{"rules": j[0], "source": j[2]} for j in jobs[5:8]],
               removed=ok, input_without_construct=vac, still_present=len(bad), unparsable_templates=template_errors)
    ctx.stream("Luau number spellings in the written text", sum(1 for j in jobs if j[3] in (-1, 5, 99)),
               sum(1 for j in jobs if j[3] == -1), [], still_present=len(text_bad))
    # the tie of the theorems' models (Model/Lowering.v, Model/Visit.v) to the Rust rules
    lowering_gen.run_stream(ctx, ctx.prop)
    # ... and of Model/RemoveContinue.v to remove_continue (tree equality + census of the real output)
    continue_gen.run_stream(ctx, ctx.prop)
    for k in sorted(bad)[:5]:
        job, stage = index[k]
        ctx.violation("construct still present after the rule that targets it",
                      {"rules": job[0], "generator": job[1] if stage == "e2e" else None, "stage": stage,
                       "source": job[2], "bundled_module_src_m_lua": job[5] if len(job) > 5 else None, "feature_index": job[3],
                       "replay": "darklua process with these rules; census: Lua/Census.v feature"},
                      key=classify(job, stage))
    for job, tok, text in text_bad[:3]:
        ctx.violation("Luau-only number spelling %r still present in the written text" % tok,
                      {"rules": job[0], "generator": job[1], "source": job[2],
                       "bundled_module_src_m_lua": job[5] if len(job) > 5 else None, "output": text},
                      key=classify(job, "text"))
    for job, stage, t in stage_errors[:3]:
        ctx.violation("darklua failed on a valid program: " + t[:300],
                      {"rules": job[0], "generator": job[1], "source": job[2],
                       "bundled_module_src_m_lua": job[5] if len(job) > 5 else None, "stage": stage},
                      key=classify(job, stage + "-error"))
    if not proofs_ok and not ctx.violations:
        failed = [n for n, okk, _ in ctx.obligations if not okk]
        ctx.violation("proof obligation no longer checks: " + "; ".join(failed), {"obligations": failed},
                      found_input=False)


def classify(job, stage):
    return None


def replay(ctx, path):
    import json
    print(json.dumps(json.load(open(path)), indent=1))
    return 0
