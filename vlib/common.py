"""Shared machinery for the /verif checks (see DESIGN.md section 2).

Every property module in vlib/cXX.py exposes
    META : dict   -- manifest data (level text, technique, theorem names, allowed axioms)
    run(ctx)      -- performs the check; uses ctx to record evidence / violations
"""
import fcntl
import hashlib
import json
import os
import re
import shutil
import subprocess
import sys
import time
from concurrent.futures import ThreadPoolExecutor

ROOT = os.path.dirname(os.path.dirname(os.path.abspath(__file__)))
COQ = os.path.join(ROOT, "coq")
HARNESS = os.path.join(ROOT, "harness")
HARNESS_BIN_DIR = os.path.join(HARNESS, "target", "release")
WORK = os.path.join(ROOT, ".work")
EVIDENCE = os.path.join(ROOT, "evidence")
REPLAYS = os.path.join(EVIDENCE, "replays")
REPO = os.environ.get("VERIF_REPO", "/repo")
NPROC = min(16, os.cpu_count() or 4)

FORBIDDEN = re.compile(
    r"\b(Admitted|admit|Axiom|Axioms|Parameter|Parameters|Conjecture|Conjectures|Admit Obligations)\b"
    r"|Unset\s+Guard|bypass_check|-type-in-type|-impredicative-set|Unset\s+Universe\s+Checking"
    r"|Unset\s+Positivity")


class CheckBroken(Exception):
    """The machinery itself could not run (not a verdict about the property)."""


def sh(cmd, timeout=1200, cwd=None, env=None, input=None):
    e = dict(os.environ)
    e.update({"CARGO_NET_OFFLINE": "true"})
    if env:
        e.update(env)
    try:
        p = subprocess.run(cmd, cwd=cwd, env=e, input=input, stdout=subprocess.PIPE,
                           stderr=subprocess.STDOUT, timeout=timeout, text=True,
                           shell=isinstance(cmd, str), errors="replace")
        return p.returncode, p.stdout
    except subprocess.TimeoutExpired as ex:
        out = ex.stdout or ""
        if isinstance(out, bytes):
            out = out.decode(errors="replace")
        return 124, out + "\n[timeout after %ss]" % timeout


class Lock:
    def __init__(self, name):
        os.makedirs(WORK, exist_ok=True)
        self.path = os.path.join(WORK, name + ".lock")

    def __enter__(self):
        self.f = open(self.path, "w")
        fcntl.flock(self.f, fcntl.LOCK_EX)
        return self

    def __exit__(self, *a):
        fcntl.flock(self.f, fcntl.LOCK_UN)
        self.f.close()


# --------------------------------------------------------------------------------------
# building


def build_harness(crate):
    """(Re)build one harness binary (crate `dl-cXX`) against /repo's current working tree, hooks on."""
    cmd = ["cargo", "build", "--release", "--offline", "-q", "-p", crate]
    with Lock("cargo"):
        lock_src = os.path.join(REPO, "Cargo.lock")
        lock_dst = os.path.join(HARNESS, "Cargo.lock")
        if os.path.exists(lock_src) and not os.path.exists(lock_dst):
            shutil.copy(lock_src, lock_dst)
        t0 = time.time()
        rc, out = sh(cmd, cwd=HARNESS, timeout=1800)
        if rc != 0:
            # a stale lock file copied from another repo state: retry once with a fresh copy
            if os.path.exists(lock_src):
                shutil.copy(lock_src, lock_dst)
                rc, out = sh(cmd, cwd=HARNESS, timeout=1800)
        if rc != 0:
            raise CheckBroken("harness build against %s failed:\n%s" % (REPO, out[-4000:]))
        return time.time() - t0


def harness(crate, args, input=None, timeout=1200, check=True):
    rc, out = sh([os.path.join(HARNESS_BIN_DIR, crate)] + list(args), input=input, timeout=timeout)
    if check and rc != 0:
        raise CheckBroken("harness %s failed (rc=%s):\n%s" % (" ".join(args), rc, out[-3000:]))
    return out


def coq_project():
    rc, out = sh(["sh", os.path.join(COQ, "gen_project.sh")], cwd=COQ)
    if rc != 0:
        raise CheckBroken("coq project generation failed: " + out)


def coq_make(targets, timeout=3000):
    """Full .vo build of the given targets (never -vos). Returns (ok, log)."""
    with Lock("coq"):
        coq_project()
        rc, out = sh(["make", "-j%d" % NPROC] + list(targets), cwd=COQ, timeout=timeout)
        return rc == 0, out


def coqc_file(path, timeout=600, cwd=None):
    rc, out = sh(["coqc", "-noglob", "-w", "-all", "-Q", COQ, "DL", path], cwd=cwd or COQ, timeout=timeout)
    return rc, out


def dependency_closure(targets):
    """.v files (relative to coq/) that the given .vo targets depend on, transitively, read
    from the dependency file coq_makefile maintains (coq/.Makefile.d)."""
    deps = {}
    path = os.path.join(COQ, ".Makefile.d")
    if os.path.exists(path):
        for line in open(path):
            if ":" not in line:
                continue
            lhs, rhs = line.split(":", 1)
            outs = lhs.split()
            if not outs or not outs[0].endswith(".vo"):
                continue
            deps[outs[0]] = [x for x in rhs.split() if x.endswith(".vo")]
    seen, todo = set(), list(targets)
    while todo:
        t = todo.pop()
        if t in seen:
            continue
        seen.add(t)
        todo.extend(deps.get(t, []))
    return sorted(x[:-1] for x in seen)          # Foo.vo -> Foo.v


def audit_sources(targets=None):
    """grep the development for anything that would make a 'proof' meaningless.

    With `targets` (a list of .vo files) only their dependency closure is audited: that is
    exactly what the theorems of those targets rest on; other files in coq/ (work in progress
    of other properties) cannot affect them."""
    problems = []
    if targets is not None:
        files_to_check = [os.path.join(COQ, f) for f in dependency_closure(targets)]
    else:
        files_to_check = []
        for d, _, files in os.walk(COQ):
            files_to_check += [os.path.join(d, f) for f in files if f.endswith(".v")]
    for p in files_to_check:
        if not os.path.exists(p):
            problems.append("%s: missing source of a compiled dependency" % os.path.relpath(p, ROOT))
            continue
        for _once in (0,):
            text = open(p, errors="replace").read()
            # strip comments (non-nested handling is enough: we never nest)
            stripped = re.sub(r"\(\*.*?\*\)", "", text, flags=re.S)
            for m in FORBIDDEN.finditer(stripped):
                problems.append("%s: forbidden token %r" % (os.path.relpath(p, ROOT), m.group(0)))
            for m in re.finditer(r"^\s*(Variable|Variables|Hypothesis|Hypotheses|Context)\b", stripped, flags=re.M):
                # allowed only inside a Section
                before = stripped[:m.start()]
                depth = len(re.findall(r"^\s*Section\b", before, flags=re.M)) - len(re.findall(r"^\s*End\b", before, flags=re.M))
                # (End also closes modules; we do not use modules, so this is exact for us)
                if depth <= 0:
                    problems.append("%s: %s outside a Section" % (os.path.relpath(p, ROOT), m.group(1)))
    return problems


def check_property_file(prop, allowed_axioms=()):
    """Compile Properties/<prop>.v on its own, capture Print Assumptions output.

    Returns dict(ok, theorems=[(name, assumptions)], log). The property file is tiny
    (statements + `exact lemma`), so this is cheap; its dependencies were built by make."""
    vfile = os.path.join(COQ, "Properties", prop + ".v")
    src = open(vfile).read()
    names = re.findall(r"^\s*Print Assumptions\s+([A-Za-z0-9_'.]+)\s*\.", src, flags=re.M)
    thms = re.findall(r"^\s*(?:Theorem|Lemma|Corollary)\s+([A-Za-z0-9_']+)", src, flags=re.M)
    pins = re.findall(r"^\s*Check\s+([A-Za-z0-9_']+)\s*:", src, flags=re.M)
    with Lock("coq"):
        rc, out = coqc_file(vfile)
    res = {"ok": rc == 0, "log": out, "theorems": [], "problems": []}
    if rc != 0:
        res["problems"].append("Properties/%s.v does not compile" % prop)
        return res
    # Print Assumptions output: either "Closed under the global context" or "Axioms:" followed by
    # entries `name : type` (the type may start on the next line).  The `Check thm : ...` pin that
    # follows prints `thm\n     : type`, which looks like an entry: entries named like one of the
    # file's own theorems end the block.
    blocks = re.split(r"(?m)^(?=Closed under the global context|Axioms:)", out)
    blocks = [b for b in blocks if b.startswith(("Closed under", "Axioms:"))]
    if len(blocks) != len(names):
        res["problems"].append("expected %d Print Assumptions blocks, saw %d" % (len(names), len(blocks)))
    own = set(thms) | set(names)
    for name, block in zip(names, blocks):
        if block.startswith("Closed under"):
            res["theorems"].append((name, []))
            continue
        axs = []
        for m in re.finditer(r"(?m)^([A-Za-z_][A-Za-z0-9_'.]*)[ \t]*(?:\n[ \t]+)?:", block[len("Axioms:"):]):
            ident = m.group(1)
            if ident in own:
                break
            axs.append(ident)
        res["theorems"].append((name, axs))
        for a in axs:
            if a not in allowed_axioms:
                res["problems"].append("theorem %s depends on non-allow-listed axiom %s" % (name, a))
        if not axs:
            res["problems"].append("theorem %s: could not parse its Axioms block" % name)
    for t in thms:
        if t not in names:
            res["problems"].append("theorem %s has no Print Assumptions" % t)
        if t not in pins:
            res["problems"].append("theorem %s has no `Check %s : ...` pin" % (t, t))
    res["ok"] = not res["problems"]
    return res


# --------------------------------------------------------------------------------------
# running the model inside Coq (cases files)


def _run_case_file(args):
    idx, path = args
    rc, out = coqc_file(path, timeout=1800, cwd=os.path.dirname(path))
    return idx, rc, out


def run_coq_cases(prop, preamble, cases, chunk=400, tag="cases"):
    """Evaluate `check_case` (defined by `preamble`) on every case inside Coq.

    cases: list of (case_id:int, coq_term_for_the_case:str).  The preamble must define
      check_case : T -> bool      and      diag_case : T -> string
    Returns list of (case_id, diag_string) for the cases where check_case is false."""
    wd = os.path.join(WORK, prop, tag)
    shutil.rmtree(wd, ignore_errors=True)
    os.makedirs(wd)
    files = []
    for k in range(0, len(cases), chunk):
        part = cases[k:k + chunk]
        path = os.path.join(wd, "cases_%s_%04d.v" % (prop, k // chunk))
        with open(path, "w") as f:
            f.write(preamble + "\n")
            f.write("Set Printing Width 100000.\nSet Printing Depth 1000000.\n")
            # the element type is taken from check_case, so that a chunk whose cases are all `None` (or `[]`) at
            # some position still type-checks
            f.write("Definition case_T : Type := ltac:(match type of check_case with ?T -> _ => exact T end).\n")
            f.write("Definition the_cases : list (N * case_T) := [\n")
            f.write(";\n".join("(%d%%N, %s)" % (cid, term) for cid, term in part))
            f.write("].\n")
            f.write("Definition bad := List.filter (fun c => negb (check_case (snd c))) the_cases.\n")
            f.write("Eval vm_compute in List.map (fun c => (fst c, diag_case (snd c))) bad.\n")
        files.append((k // chunk, path))
    bad = []
    with ThreadPoolExecutor(max_workers=NPROC) as ex:
        for idx, rc, out in ex.map(_run_case_file, files):
            if rc != 0:
                raise CheckBroken("cases file %d for %s failed in coqc:\n%s" % (idx, prop, out[-3000:]))
            m = re.search(r"=\s*(\[.*\])\s*:\s*list", out, flags=re.S)
            if not m:
                raise CheckBroken("cannot parse coqc output for %s shard %d:\n%s" % (prop, idx, out[-2000:]))
            body = m.group(1)
            for mm in re.finditer(r'\((\d+)(?:%N)?,\s*"((?:[^"]|"")*)"(?:%string)?\)', body, flags=re.S):
                bad.append((int(mm.group(1)), mm.group(2).replace('""', '"')))
            if body.strip() != "[]" and not bad:
                raise CheckBroken("unparsed mismatch list: " + body[:500])
    shutil.rmtree(wd, ignore_errors=True)
    return bad


def _run_stat_file(args):
    idx, path = args
    rc, out = coqc_file(path, timeout=3000, cwd=os.path.dirname(path))
    return idx, rc, out


def run_coq_stats(prop, preamble, cases, chunk=100, tag="stats"):
    """Evaluate `stat_case : T -> N` (defined by `preamble`) on every case inside Coq.

    Returns {case_id: N}.  Use small numbers as verdict codes (e.g. 0 ok, 1 skipped, 2 bad)."""
    wd = os.path.join(WORK, prop, tag)
    shutil.rmtree(wd, ignore_errors=True)
    os.makedirs(wd)
    files = []
    for k in range(0, len(cases), chunk):
        part = cases[k:k + chunk]
        path = os.path.join(wd, "cases_%s_%04d.v" % (prop, k // chunk))
        with open(path, "w") as f:
            f.write(preamble + "\n")
            f.write("Set Printing Width 100000.\nSet Printing Depth 1000000.\n")
            f.write("Definition case_T : Type := ltac:(match type of stat_case with ?T -> _ => exact T end).\n")
            f.write("Definition the_cases : list (N * case_T) := [\n")
            f.write(";\n".join("(%d%%N, %s)" % (cid, term) for cid, term in part))
            f.write("].\n")
            f.write("Eval vm_compute in List.map (fun c => (fst c, stat_case (snd c))) the_cases.\n")
        files.append((k // chunk, path))
    stats = {}
    with ThreadPoolExecutor(max_workers=NPROC) as ex:
        for idx, rc, out in ex.map(_run_stat_file, files):
            if rc != 0:
                raise CheckBroken("stats file %d for %s failed in coqc:\n%s" % (idx, prop, out[-3000:]))
            m = re.search(r"=\s*(\[.*\])\s*:\s*list", out, flags=re.S)
            if not m:
                raise CheckBroken("cannot parse coqc output for %s shard %d:\n%s" % (prop, idx, out[-2000:]))
            for mm in re.finditer(r"\((\d+)(?:%N)?,\s*(\d+)(?:%N)?\)", m.group(1)):
                stats[int(mm.group(1))] = int(mm.group(2))
    missing = [cid for cid, _ in cases if cid not in stats]
    if missing:
        raise CheckBroken("no verdict for %d cases of %s (first: %s)" % (len(missing), prop, missing[:3]))
    shutil.rmtree(wd, ignore_errors=True)
    return stats


def coq_string(s):
    """Coq string literal for an ASCII python str."""
    return '"' + s.replace('"', '""') + '"'


# --------------------------------------------------------------------------------------
# known findings


def load_known_findings(prop):
    """known_findings.txt lines:
         known: property=C13 key=<key> :: <what fails>
         fixed: property=C13 <commit> <what failed>
    `key` is matched exactly against the key a check computes for a concrete failing case."""
    path = os.path.join(ROOT, "known_findings.txt")
    out = {}
    if not os.path.exists(path):
        return out
    for line in open(path):
        line = line.strip()
        m = re.match(r"known:\s+property=(\S+)\s+key=(\S+)\s+::\s+(.*)$", line)
        if m and m.group(1) == prop:
            out[m.group(2)] = m.group(3)
    return out


# --------------------------------------------------------------------------------------
# context: evidence + verdict


class Ctx:
    def __init__(self, prop, tier, seed, meta):
        self.prop = prop
        self.tier = tier
        self.seed = seed
        self.meta = meta
        self.t0 = time.time()
        self.violations = []          # (what, replay dict)
        self.known_hits = {}          # key -> description
        self.obligations = []         # (name, ok:bool, detail)
        self.cov = {"evaluations": 0, "distinct_nontrivial": 0, "samples": [], "streams": {}}
        self.assumptions = list(meta.get("assumptions", []))
        self.known = load_known_findings(prop)

    # ---- proof obligations
    def obligation(self, name, ok, detail=""):
        self.obligations.append((name, bool(ok), detail))

    # ---- correspondence statistics
    def stream(self, name, evaluations, distinct_nontrivial, samples=(), **extra):
        self.cov["evaluations"] += evaluations
        self.cov["distinct_nontrivial"] += distinct_nontrivial
        self.cov["streams"][name] = dict(evaluations=evaluations, distinct_nontrivial=distinct_nontrivial, **extra)
        for s in list(samples)[:3]:
            if len(self.cov["samples"]) < 12:
                self.cov["samples"].append({"stream": name, "case": s})

    # ---- verdicts
    def violation(self, what, replay, key=None, found_input=True):
        """Record a violation. `key` identifies the finding class for known_findings.txt."""
        if key is not None and key in self.known:
            self.known_hits[key] = self.known[key]
            return
        self.violations.append((what, replay, found_input))

    def finish(self):
        os.makedirs(REPLAYS, exist_ok=True)
        for key, desc in sorted(self.known_hits.items()):
            print("KNOWN-FINDING: property=%s %s [key=%s]" % (self.prop, desc, key))
        n_ob = len(self.obligations)
        n_ok = sum(1 for _, ok, _ in self.obligations if ok)
        ev = {
            "property_id": self.prop,
            "tier": self.tier,
            "seed": self.seed,
            "level": self.meta.get("level", "proof"),
            "coverage": {
                "obligations": n_ob,
                "discharged": n_ok,
                "obligation_list": [{"name": n, "ok": ok, "detail": d} for n, ok, d in self.obligations],
                "checker_cmd": self.meta.get("checker_cmd", "make -C coq Properties/%s.vo && coqc Properties/%s.v (Print Assumptions)" % (self.prop, self.prop)),
                "trusted_base": self.meta.get("trusted_base", []),
                "evaluations": self.cov["evaluations"],
                "distinct_nontrivial": self.cov["distinct_nontrivial"],
                "rule": self.meta.get("rule", ""),
                "samples": self.cov["samples"] or [{"note": "no correspondence cases in this run"}],
                "streams": self.cov["streams"],
                "known_findings_reproduced": sorted(self.known_hits.keys()),
            },
            "assumptions": self.assumptions,
            "wall_s": round(time.time() - self.t0, 2),
            "violations": len(self.violations),
        }
        os.makedirs(EVIDENCE, exist_ok=True)
        with open(os.path.join(EVIDENCE, self.prop + ".json"), "w") as f:
            json.dump(ev, f, indent=1, sort_keys=True)
        if not self.violations:
            print("OK property=%s tier=%s obligations=%d/%d evaluations=%d wall=%.1fs" % (
                self.prop, self.tier, n_ok, n_ob, self.cov["evaluations"], time.time() - self.t0))
            return 0
        for k, (what, replay, found) in enumerate(self.violations[:5]):
            path = os.path.join(REPLAYS, "%s-%d.json" % (self.prop, k))
            with open(path, "w") as f:
                json.dump({"property": self.prop, "what": what, "replay": replay,
                           "failing_input_found": found}, f, indent=1, sort_keys=True)
            print("VIOLATION property=%s replay=%s%s" % (self.prop, path, "" if found else " no-failing-input-found"))
        return 1


def proof_gate(ctx, extra_targets=()):
    """Build the property's theorems, audit them, record the obligations.

    Returns True when every proof obligation is discharged."""
    prop = ctx.prop
    ok, log = coq_make(["Properties/%s.vo" % prop] + list(extra_targets))
    if not ok:
        # name the first failing file
        m = re.search(r'File "([^"]+)", line (\d+)', log)
        where = "%s:%s" % (m.group(1), m.group(2)) if m else "unknown"
        ctx.obligation("coq build of Properties/%s.vo" % prop, False, where + "\n" + log[-1500:])
        return False
    closure_targets = ["Properties/%s.vo" % prop] + list(extra_targets)
    problems = audit_sources(closure_targets)
    ctx.obligation("no Admitted/admit/Axiom/Parameter/unsafe flags in the %d files the property's theorems depend on"
                   % len(dependency_closure(closure_targets)), not problems, "; ".join(problems[:5]))
    res = check_property_file(prop, ctx.meta.get("allowed_axioms", ()))
    for name, axs in res["theorems"]:
        ctx.obligation("theorem " + name, True, "closed under the global context" if not axs else "axioms: " + ", ".join(axs))
    if not res["ok"]:
        ctx.obligation("property file audit", False, "; ".join(res["problems"]))
    elif not res["theorems"]:
        ctx.obligation("property file has theorems", False, "none found")
    return all(ok for _, ok, _ in ctx.obligations)
