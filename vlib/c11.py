"""C11 - batch runs map files one-to-one, isolate failures and are deterministic."""
import json
import os
import posixpath
import shutil
import tempfile
from concurrent.futures import ThreadPoolExecutor

from . import common as C

META = {
    "title": "Batch runs map files one-to-one, isolate failures and are deterministic",
    "level": "proof",
    "design_ref": "DESIGN.md section 6 / C11",
    "technique": "Coq proofs about a Gallina model of collect_work (input/output shape cases, mirrored output paths) and "
                 "of the work loop with the error kept per item and fail-fast; the model is tied to darklua_core::process "
                 "on generated trees (collected items and final files compared inside Coq), and property-level oracles "
                 "that do not use the model are applied to the real results on memory resources and on real directories",
    "level_text": "Machine-checked theorems (Coq 8.16 kernel): the collected items are exactly the Lua files under the input, "
                  "each once, at the mirrored (or in-place) path; after the run every path holds either the transformation "
                  "of the ORIGINAL source of the successful item that owns it or its old content (nothing else is written, "
                  "nothing for a failing item); files outside the output are untouched; the result of an item does not "
                  "depend on another file's content nor on the processing order (Permutation); fail-fast is the run "
                  "restricted to the items up to the first failure. Hypothesis of the order/isolation theorems: no "
                  "transformation reads an output path of the batch - refuted for in-place runs with bundling and for "
                  "fail-fast, with witnesses that are reproduced on the real code.",
    "level_note": "The per-file pipeline is a section variable. OS-level behaviour (directory creation, unwritable "
                  "destinations, invalid UTF-8 reads, directory named like a Lua file, read_dir order) is exercised on real "
                  "temporary directories, not modelled: the model's file system is Resources::from_memory. The order of "
                  "toposort over a graph without edges is a parameter of the model.",
    "trusted_base": ["Coq 8.16.1 kernel, vm_compute", "Model/Batch.v spec_get (specification)",
                     "harness/crates/c11 (scenario generator, tree dumps) and WorkerTree::verif_dump",
                     "the independent path/extension logic of vlib/c11.py (oracle)"],
    "allowed_axioms": [],
    "rule": "seeded scenarios: 2-8 files under src/ in nested directories (names with spaces, several dots, non-ASCII, "
            "hidden, upper-case extension, a directory named d.lua), non-Lua files and bystanders whose extension only looks "
            "like a Lua one (init.lua~, chunk.luac, impl.lua_old, x.luax, lua, *.lua.bak, BIG.LUA), single-file projects, an "
            "existing output directory with a dotted name (dist.v2, build/pkg-1.2.0), a single-file matrix (input extension lua, "
            "luau, txt, json, none, LUA, lua.bak x output none, new path with lua/luau/other/version-like extension, existing "
            "file with and without extension, existing plain and dotted directory, new extensionless path, trailing slash), "
            "quiet sources (empty, newline only, "
            "blanks only, comment only - valid empty chunks - and a lone `;`, which Luau rejects), on disk invalid UTF-8 "
            "inside a string literal and Latin-1 in a comment (valid Lua after a lossy decoding), faulty files (syntax error, missing "
            "require under a bundle configuration, invalid UTF-8 and unwritable destination on disk), 9 input/output "
            "shapes (directory to new/existing directory, in place, onto itself, sub-directory, file to file / existing "
            "directory / new path without extension / in place), bundle on/off, fail-fast on/off; every scenario is run "
            "with and without its faulty files, in two separate processes; non-trivial = at least one faulty file is "
            "collected next to at least one good file, or the input is a single file; distinct by scenario id",
    "assumptions": ["stateless: the result of a file is a function of the file and the file system only - independent of "
                    "the processing order and of earlier runs on the same thread (C11_stateless_run); checked on the real "
                    "code by forcing several orders and by running trees one after the other on one thread",
                    "reads_no_output: no transformation reads a path that the batch writes (false for in-place runs with "
                    "bundling: recorded finding)",
                    "OS behaviour is exercised (real temp dirs under /tmp), not modelled"],
}

PREAMBLE = """From DL Require Import Lib.Bytes Model.WorkerFs Model.Batch Model.BatchCheck.
Open Scope N_scope.
Open Scope string_scope.
Definition check_case (k : c11_case) : bool := c11_check k.
Definition diag_case (k : c11_case) : string := c11_diag k.
"""

KNOWN = {
    "fail-fast-order": "fail-fast-enumeration-order:WorkerTree::process-break-work_loop",
    "in-place-bundle-order": "in-place-bundle-enumeration-order:Worker::advance_work",
    "unwritable-parent": "unwritable-destination-error-names-parent-only:Source::write",
}
KNOWN_TEXT = {
    "unwritable-parent": "when the destination directory cannot be created the error names that directory only "
                         "(`IO error with `out/dir`: File exists`), neither the source nor its output file",
    "fail-fast-order": "with fail-fast, which good files are written before the first failure depends on the enumeration "
                       "order of the files (hash-map order of memory resources: differs between two identical runs)",
    "in-place-bundle-order": "processing a directory in place with a bundle configuration: an entry inlines a sibling "
                             "either before or after that sibling was rewritten, depending on the enumeration order",
}


PATH_NAMES = {}


def cpath(p):
    """paths are defined once in the preamble (components as hex of their UTF-8 bytes) and used by name"""
    comps = tuple(x for x in p.split("/") if x not in ("", "."))
    if comps not in PATH_NAMES:
        PATH_NAMES[comps] = "p%d" % len(PATH_NAMES)
    return PATH_NAMES[comps]


def path_definitions():
    return "".join("Definition %s : path := [%s].\n" % (
        name, "; ".join('comp "%s"' % c.encode("utf-8").hex() for c in comps)) for comps, name in PATH_NAMES.items())


def norm(p):
    """`./x`, `a/../x`, `x/.`, `x/` are the same path (lexical normalisation, as utils::normalize_path)"""
    return posixpath.normpath(p)


def lua_ext(path):
    """Path::extension is lua/luau - written independently of the model"""
    name = path.rsplit("/", 1)[-1]
    if name in ("", ".."):
        return False
    stem, dot, ext = name.rpartition(".")
    if not dot or stem == "":
        return False
    return ext in ("lua", "luau")


def under(directory, path):
    return path == directory or path.startswith(directory.rstrip("/") + "/")


def expected_items(rec, run, disk):
    """(source, output) pairs a correct collect_work produces - independent of the model"""
    before = run["before"]
    inp, out = rec["input"], rec["output"]
    if out is not None:
        out = out.rstrip("/")          # `out/newdir/` and `out/newdir` are the same path
    dirs = set(run.get("dirs_before", []))
    for p in before:
        parts = p.split("/")
        for k in range(1, len(parts)):
            dirs.add("/".join(parts[:k]))
    if inp in before:                     # the input is a file
        base = inp.rsplit("/", 1)[-1]
        if out is None:
            return {(inp, inp)} if lua_ext(inp) else set()
        if out in dirs:
            return {(inp, out + "/" + base)}
        if out in before or "." in out.rsplit("/", 1)[-1].lstrip("."):
            return {(inp, out)}
        return {(inp, out + "/" + base)}
    items = set()
    for p in before:
        if under(inp, p) and p != inp and lua_ext(p):
            rel = p[len(inp.rstrip("/")) + 1:]
            items.add((p, p if out is None else out + "/" + rel))
    return items


def oracle(rec, run, disk):
    """property-level checks on one real run; returns a list of (what, detail)"""
    problems = []
    if run.get("panic"):
        return [("process panicked", {})]
    if "process_error" in run:
        return [("process returned an error instead of reporting per file", {"error": run["process_error"]})]
    before, after = run["before"], run["after"]
    items = {(norm(it["source"]), norm(it["output"])): it for it in run["items"]}
    if len(items) != len(run["items"]):
        problems.append(("two work items have the same source and output", {}))
    exp = expected_items(rec, run, disk)
    if set(items) != exp:
        problems.append(("the work items are not exactly the Lua files under the input at their mirrored paths",
                         {"missing": sorted(exp - set(items))[:4], "unexpected": sorted(set(items) - exp)[:4]}))
    changed = {p for p in set(before) | set(after) if before.get(p) != after.get(p)}
    ok_outputs = {o for (s, o), it in items.items() if it["status"] == "ok"}
    if not changed <= ok_outputs:
        problems.append(("a path that is not the output of a successful item changed",
                         {"paths": sorted(changed - ok_outputs)[:4]}))
    for o in ok_outputs:
        if o not in after:
            problems.append(("a successful item has no output file", {"output": o}))
    removed = [p for p in before if p not in after]
    if removed:
        problems.append(("a file disappeared", {"paths": removed[:4]}))
    inp, out = rec["input"], rec["output"]
    if out is not None:
        out = out.rstrip("/")
    if out is not None and not under(inp, out) and not under(out, inp) and out != inp:
        touched = [p for p in before if under(inp, p) and before[p] != after.get(p)]
        if touched:
            problems.append(("an input file was modified although an output location was given", {"paths": touched[:4]}))
    faulty = set(rec["faulty"]) & set(before)
    n_err = 0
    for (s, o), it in items.items():
        if it["status"] == "err":
            n_err += 1
            if s not in faulty and not (disk and unwritable(rec, o, run)):
                problems.append(("a file that is not faulty was reported as failing", {"source": s, "error": it["error"][:200]}))
            named = named_path(it["error"])
            if named is None or norm(named) != s:
                parts = o.split("/")
                ancestors = ["/".join(parts[:k]) for k in range(1, len(parts))]
                if disk and named is not None and norm(named) in ancestors:
                    problems.append(("KNOWN:unwritable-parent", {"source": s, "error": it["error"][:200]}))
                else:
                    problems.append(("the error of a failing file does not name its source path",
                                     {"source": s, "output": o, "named": named_path(it["error"]),
                                      "error": it["error"][:200]}))
            if o != s and named is not None and norm(named) == o and not (disk and unwritable(rec, o, run)):
                problems.append(("the error of a failing file names its output path",
                                 {"source": s, "output": o, "error": it["error"][:200]}))
            if after.get(o) != before.get(o):
                problems.append(("something was written for a failing file", {"source": s, "output": o}))
        elif it["status"] == "ok" and s in faulty:
            problems.append(("a faulty file was processed successfully", {"source": s}))
        elif it["status"] == "not_started" and not rec["fail_fast"]:
            problems.append(("an item was left unprocessed without fail-fast", {"source": s}))
    for (s, o), it in items.items():
        kind = rec["kinds"].get(s, "")
        if kind.startswith("Blank") or kind == "CommentOnly":
            if it["status"] == "err" and not (disk and unwritable(rec, o, run)):
                problems.append(("an empty / blank / comment-only source is reported as failing",
                                 {"source": s, "error": it["error"][:200]}))
            elif it["status"] == "ok":
                written = after.get(o)
                if written is None:
                    problems.append(("an empty / blank / comment-only source got no output", {"source": s, "output": o}))
                elif not rec.get("stamp") and not rec.get("identity") and bytes.fromhex(written).strip() != b"":
                    problems.append(("the output of an empty / blank / comment-only source is not an empty chunk",
                                     {"source": s, "output": o, "written": bytes.fromhex(written)[:80].decode("latin-1")}))
    if rec.get("identity"):
        # rules [] with the token-preserving generator: the output is the source, byte for byte
        for (s, o), it in items.items():
            if it["status"] == "ok" and after.get(o) != before.get(s):
                problems.append(("under the identity configuration the output is not the source text",
                                 {"source": s, "output": o,
                                  "written": bytes.fromhex(after.get(o) or "")[:80].decode("latin-1")}))
    if rec["fail_fast"] and n_err > 1:
        problems.append(("fail-fast run continued after the first error", {"errors": n_err}))
    # order-independent: a run that meets a faulty file reports it, fail-fast or not
    collected_faulty = sorted(s for (s, o) in items if s in faulty)
    if collected_faulty and n_err == 0:
        problems.append(("faulty files were collected but no error is reported",
                         {"faulty": collected_faulty[:4], "fail_fast": rec["fail_fast"],
                          "statuses": sorted((s, it["status"]) for (s, o), it in items.items())[:6]}))
    if not rec["fail_fast"]:
        unreported = [s for s in collected_faulty if items[[k for k in items if k[0] == s][0]]["status"] != "err"]
        if unreported:
            problems.append(("a faulty file is not reported", {"sources": unreported[:4]}))
    if len(items) == 1 and collected_faulty and n_err != 1:
        problems.append(("the only file of the run is faulty and is not reported", {"source": collected_faulty[0]}))
    return problems


def named_path(error):
    """the path an error message names first: `...` after the leading words"""
    a = error.find("`")
    b = error.find("`", a + 1)
    return error[a + 1:b] if a >= 0 and b > a else None


def unwritable(rec, output, run):
    """disk scenarios: an ancestor of the output path is a plain file"""
    parts = output.split("/")
    return any("/".join(parts[:k]) in run["before"] for k in range(1, len(parts)))


def coq_case(run, rec, reference=None):
    """Coq term of type c11_case for a memory run; with `reference`, the per-file outcomes given to the
    model are those of ANOTHER run of the same tree (so the model run checks order / history independence)"""
    blobs = {}

    def blob(h):
        return "[%d]" % blobs.setdefault(h, len(blobs))

    fs = "; ".join("(%s, %s)" % (cpath(p), blob(h)) for p, h in sorted(run["before"].items()))
    out = "None" if rec["output"] is None else "(Some %s)" % cpath(rec["output"])
    if "items" in run:
        items = "(Some [%s])" % "; ".join("(%s, %s)" % (cpath(norm(it["source"])), cpath(norm(it["output"])))
                                          for it in run["items"])
        src = reference or run
        outcomes = "; ".join("(%s, %s)" % (cpath(norm(it["source"])),
                                           "Some %s" % blob(src["after"][norm(it["output"])])
                                           if it["status"] == "ok" and norm(it["output"]) in src["after"] else "None")
                             for it in src["items"])
    else:
        items, outcomes = "None", ""
    after = "; ".join("(%s, %s)" % (cpath(p), blob(h)) for p, h in sorted(run["after"].items()))
    reported = "; ".join(cpath(named_path(it["error"]) or "<no path in the message>")
                         for it in run.get("items", []) if it["status"] == "err")
    return "(mkCase [%s] %s %s %s %s [%s] [%s] [%s])" % (
        fs, cpath(rec["input"]), out, items, "true" if rec["fail_fast"] else "false", outcomes, after, reported)


def two_runs(args):
    """the same harness command in two separate processes (different hash-map seeds)"""
    with ThreadPoolExecutor(max_workers=2) as ex:
        a, b = ex.map(lambda _: C.harness("dl-c11", args, timeout=1200), range(2))
    ra = [json.loads(l) for l in a.splitlines() if l.startswith("{")]
    rb = [json.loads(l) for l in b.splitlines() if l.startswith("{")]
    return ra, rb


def collected_faulty_unwritable(rec, full, disk):
    """disk: an item failed because an ancestor of its output is a plain file (known class): after the edit
    run its sibling outputs are the same anyway, nothing to exclude"""
    return False


def determinism_class(rec):
    full = rec["full"]
    collected_faulty = [it for it in full.get("items", []) if it["source"] in rec["faulty"]]
    if rec["fail_fast"] and collected_faulty:
        return "fail-fast-order"
    in_place = rec["output"] is None or rec["output"] == rec["input"]
    has_require = any("GoodRequire" in k for k in rec["kinds"].values())
    if in_place and rec["bundle"] and has_require:
        return "in-place-bundle-order"
    return None


def check_stream(ctx, name, ra, rb, disk, cases, case_index):
    nontrivial = 0
    samples = []
    for a, b in zip(ra, rb):
        replay = {"scenario": a["id"], "shape": a["shape"], "input": a["input"], "output": a["output"],
                  "fail_fast": a["fail_fast"], "bundle": a["bundle"], "faulty": a["faulty"], "kinds": a["kinds"],
                  "input_argument": a.get("input_arg"), "output_argument": a.get("output_arg"),
                  "replay": "harness/target/release/dl-c11 one --seed %d --case %d%s" % (
                      ctx.seed, a["id"], " --root /tmp/<dir>" if disk else "")}
        full = a["full"]
        items = full.get("items", [])
        collected_faulty = [it for it in items if it["source"] in a["faulty"]]
        good = [it for it in items if it["source"] not in a["faulty"]]
        if (collected_faulty and good) or a["shape"].startswith("file"):
            nontrivial += 1
            if len(samples) < 2 and collected_faulty:
                samples.append({"scenario": a["id"], "shape": a["shape"], "items": [
                    (it["source"], it["output"], it["status"]) for it in items]})
        det_class = determinism_class(a)
        # ---- determinism: two processes, byte-identical results
        if a["full"] != b["full"] or a["without_faulty"] != b["without_faulty"]:
            which = "full" if a["full"] != b["full"] else "without_faulty"
            diff = [p for p in set(a[which]["after"]) | set(b[which]["after"])
                    if a[which]["after"].get(p) != b[which]["after"].get(p)]
            r = dict(replay, differing_paths=sorted(diff)[:6], run=which)
            if det_class:
                ctx.violation(KNOWN_TEXT[det_class], r, key=KNOWN[det_class])
            else:
                ctx.violation("two identical runs in separate processes gave different results", r,
                              key="nondeterministic:%s:%d" % (name, a["id"]))
        # ---- per-run oracles
        for which in ("full", "without_faulty"):
            sub = dict(a, faulty=a["faulty"] if which == "full" else [])
            for what, detail in oracle(sub, a[which], disk):
                if what.startswith("KNOWN:"):
                    cls = what[len("KNOWN:"):]
                    ctx.violation(KNOWN_TEXT[cls], dict(replay, run=which, detail=detail), key=KNOWN[cls])
                else:
                    ctx.violation(what, dict(replay, run=which, detail=detail),
                                  key="oracle:%s:%d:%s" % (name, a["id"], what[:24]))
        # ---- the outputs depend on the input tree only: the same run into an EMPTY output location
        if "clean_output" in a and "items" in full and "items" in a["clean_output"] and det_class is None:
            clean = a["clean_output"]
            for it in items:
                o = norm(it["output"])
                if it["status"] == "ok" and full["after"].get(o) != clean["after"].get(o):
                    ctx.violation("the output differs from the same run without the files that were already at the output paths "
                                  "(a stale output survived or leaked into the result)",
                                  dict(replay, source=it["source"], output=o, prepopulated=a["prepopulated"],
                                       identity_configuration=a["identity"]),
                                  key="prepopulated:%s:%d" % (name, a["id"]))
        # ---- run, edit a source, run, restore it, run: as if only the last run had happened
        if "sequence" in a and "items" in full and det_class is None and not collected_faulty_unwritable(a, full, disk):
            seq = a["sequence"]
            if not seq["ok"] and not any(it["status"] == "err" for it in items):
                ctx.violation("a repeated run failed", dict(replay, victim=seq["victim"]), key="sequence-failed:%s:%d" % (name, a["id"]))
            diff = sorted(p for p in set(seq["after"]) | set(full["after"]) if seq["after"].get(p) != full["after"].get(p))
            if diff:
                ctx.violation("after edit, run, restore, run the tree differs from a single run over the same inputs",
                              dict(replay, victim=seq["victim"], differing_paths=diff[:6],
                                   identity_configuration=a["identity"]),
                              key="sequence:%s:%d" % (name, a["id"]))
        # ---- isolation: the good files come out as if the faulty ones were absent
        if not a["fail_fast"] and "items" in full and "items" in a["without_faulty"] and det_class is None:
            wo = a["without_faulty"]
            for it in good:
                if it["status"] != "ok":
                    continue
                if full["after"].get(it["output"]) != wo["after"].get(it["output"]):
                    ctx.violation("the output of a good file differs from the run without the faulty files",
                                  dict(replay, source=it["source"], output=it["output"]),
                                  key="isolation:%s:%d" % (name, a["id"]))
        # ---- the model (memory semantics only)
        if not disk:
            for which in ("full", "without_faulty"):
                if not a[which].get("panic"):
                    case_index[len(cases)] = (name, a["id"], which, replay)
                    cases.append((len(cases), coq_case(a[which], a)))
    return nontrivial, samples


LETTERS = ("a", "b", "c")


def rc_full(files, run):
    """a run of the `.luaurc` stream in the shape the model glue expects"""
    return {"before": files, "after": dict(files, **run["out"]), "items": run["items"]}


def check_luaurc_stream(ctx, ra, rb, cases, case_index):
    """nested `.luaurc` files overriding an alias: every file uses its closest one, whatever the order in
    which the files are processed and whatever ran before on the same thread"""
    nontrivial = 0
    samples = []
    for a, b in zip(ra, rb):
        replay = {"scenario": a["id"], "config": a["config"], "luaurc_files": a["trees"],
                  "replay": "harness/target/release/dl-c11 luaurc --seed %d --n %d  (scenario %d)" % (
                      ctx.seed, a["id"] + 1, a["id"])}
        if a != b:
            ctx.violation("two identical runs in separate processes gave different results (.luaurc stream)", replay,
                          key="nondeterministic:luaurc:%d" % a["id"])
        nested = any(len(t) > 1 for t in a["trees"])
        nontrivial += nested
        for which in (0, 1):
            expected = a["expected"][which]
            files = a["files"][which]
            runs = {name[2:]: run for name, run in a["orders"].items() if name.startswith("%d:" % which)}
            if which == 0:
                runs["first of a sequence on one thread"] = a["sequence"][0]
                runs["after two other runs on the same thread"] = a["sequence"][3]
            else:
                runs["after another tree on the same thread"] = a["sequence"][1]
                runs["second time in a row on the same thread"] = a["sequence"][2]
            reference = runs["collect"]
            for name, run in runs.items():
                r = dict(replay, tree=which, run=name)
                if "out" not in run:
                    ctx.violation("process failed or panicked on a tree with .luaurc files", dict(r, result=run),
                                  key="luaurc-process:%d" % a["id"])
                    continue
                status = {it["source"]: it for it in run["items"]}
                for source, letter in expected.items():
                    it = status.get(source)
                    out_path = "out/" + source[len("src/"):]
                    text = bytes.fromhex(run["out"].get(out_path, "")).decode("utf-8", "replace")
                    if letter is None and a["config"] == "convert-require":
                        # convert_require leaves a require it cannot resolve as it is (it only warns)
                        if it is None or it["status"] != "ok" or "@Lib/value" not in text:
                            ctx.violation("a require whose alias no .luaurc defines was not left alone by convert_require",
                                          dict(r, source=source, item=it, written=text[:120]),
                                          key="luaurc-unresolved:%d" % a["id"])
                        continue
                    if letter is None:
                        if it is None or it["status"] != "err" or named_path(it["error"]) != source:
                            ctx.violation("a file whose alias no .luaurc defines is not reported with its path",
                                          dict(r, source=source, item=it), key="luaurc-unresolved:%d" % a["id"])
                        continue
                    used = [l for l in LETTERS if "LIB_%s" % l.upper() in text or "libs_%s" % l in text]
                    if it is None or it["status"] != "ok" or used != [letter]:
                        ctx.violation("a file does not use the alias of its CLOSEST .luaurc",
                                      dict(r, source=source, expected_library=letter, used=used,
                                           error=(it or {}).get("error", "")[:200]),
                                      key="luaurc-closest:%d:%s" % (a["id"], name))
                if run["out"] != reference["out"]:
                    diff = sorted(p for p in set(run["out"]) | set(reference["out"]) if run["out"].get(p) != reference["out"].get(p))
                    what = ("the outputs depend on the order in which the files are processed"
                            if name in ("ascending", "descending", "shuffled", "shallow-first", "deep-first")
                            else "a run is influenced by what was processed before on the same thread")
                    ctx.violation(what, dict(r, differing_outputs=diff[:6]), key="luaurc-%s:%d" % (name.split()[0], a["id"]))
                # the model, with the outcomes of the reference run: order / history independence
                if name in ("shallow-first", "deep-first", "second time in a row on the same thread",
                            "after another tree on the same thread", "after two other runs on the same thread"):
                    case_index[len(cases)] = ("luaurc", a["id"], "%d:%s" % (which, name), r)
                    cases.append((len(cases), coq_case(rc_full(files, run),
                                                       {"input": "src", "output": "out", "fail_fast": False},
                                                       reference=rc_full(files, reference))))
        if nested and len(samples) < 2:
            samples.append({"scenario": a["id"], "config": a["config"], "luaurc": a["trees"][0], "expected": a["expected"][0]})
    return nontrivial, samples


def run(ctx):
    C.build_harness("dl-c11")
    proofs_ok = C.proof_gate(ctx, extra_targets=["Model/BatchCheck.vo"])
    quick = ctx.tier == "quick"
    cases, case_index = [], {}

    n_mem = 1500 if quick else 12000
    ra, rb = two_runs(["mem", "--seed", str(ctx.seed), "--n", str(n_mem)])
    if len(ra) != n_mem or len(rb) != n_mem:
        raise C.CheckBroken("memory stream: expected %d scenarios, got %d / %d" % (n_mem, len(ra), len(rb)))
    nt, samples = check_stream(ctx, "memory", ra, rb, False, cases, case_index)
    ctx.stream("memory resources: oracles (one-to-one, inputs untouched, faulty reported, isolation, two processes)",
               n_mem, nt, samples)

    n_disk = 400 if quick else 4000
    root_a = tempfile.mkdtemp(prefix="dl-c11-a-", dir="/tmp")
    root_b = tempfile.mkdtemp(prefix="dl-c11-b-", dir="/tmp")
    try:
        with ThreadPoolExecutor(max_workers=2) as ex:
            outs = list(ex.map(lambda root: C.harness("dl-c11", ["disk", "--seed", str(ctx.seed), "--n", str(n_disk),
                                                                 "--root", root], timeout=1200), [root_a, root_b]))
    finally:
        shutil.rmtree(root_a, ignore_errors=True)
        shutil.rmtree(root_b, ignore_errors=True)
    da = [json.loads(l) for l in outs[0].splitlines() if l.startswith("{")]
    db = [json.loads(l) for l in outs[1].splitlines() if l.startswith("{")]
    case_sensitive = all(r.get("case_sensitive_file_system", True) for r in da + db if "id" not in r)
    da = [r for r in da if "id" in r]
    db = [r for r in db if "id" in r]
    if len(da) != n_disk or len(db) != n_disk:
        raise C.CheckBroken("disk stream: expected %d scenarios, got %d / %d" % (n_disk, len(da), len(db)))
    nt, samples = check_stream(ctx, "disk", da, db, True, cases, case_index)
    ctx.stream("real temporary directories: the same oracles, plus invalid UTF-8, directory named *.lua, unwritable destination",
               n_disk, nt, samples, case_sensitive_file_system=case_sensitive,
               case_pairs_on_disk="generated" if case_sensitive else "skipped: the file system folds case")

    n_rc = 200 if quick else 3000
    ra, rb = two_runs(["luaurc", "--seed", str(ctx.seed), "--n", str(n_rc)])
    if len(ra) != n_rc or len(rb) != n_rc:
        raise C.CheckBroken(".luaurc stream: expected %d scenarios, got %d / %d" % (n_rc, len(ra), len(rb)))
    nt, samples = check_luaurc_stream(ctx, ra, rb, cases, case_index)
    ctx.stream("nested .luaurc aliases (bundle path/luau, convert_require): 6 processing orders per tree, 4 runs in "
               "sequence on one thread, closest configuration wins", n_rc, nt, samples,
               runs_per_scenario=16)

    bad = C.run_coq_cases(ctx.prop, PREAMBLE + path_definitions(), cases, chunk=max(10, len(cases) // (2 * C.NPROC) + 1))
    ctx.stream("collect_work and final files: Model/Batch.v vs darklua_core::process (memory)", len(cases),
               sum(1 for k in case_index.values() if k[2] == "full"), [], mismatches=len(bad))
    if bad and not ctx.violations:
        cid, diag = bad[0]
        name, sid, which, replay = case_index[cid]
        ctx.violation("correspondence broken: darklua_core::process and Model/Batch.v disagree (%s); the property-level "
                      "oracles found nothing" % diag,
                      dict(replay, run=which, diag=diag, mismatches=len(bad), stream="collect/run model-vs-code"),
                      found_input=False)
    if not proofs_ok and not ctx.violations:
        failed = [n for n, ok, _ in ctx.obligations if not ok]
        ctx.violation("proof obligation no longer checks: " + "; ".join(failed), {"obligations": failed},
                      found_input=False)


def replay(ctx, path):
    r = json.load(open(path))
    print(json.dumps(r, indent=1))
    return 0
