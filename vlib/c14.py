"""C14 - data files convert to Lua values equal to the data."""
import json
import os
import random

from . import common as C
from . import c14_docs as D

FLOCQ_AXIOMS = ["ClassicalDedekindReals.sig_not_dec", "ClassicalDedekindReals.sig_forall_dec",
                "FunctionalExtensionality.functional_extensionality_dep", "Classical_Prop.classic"]

META = {
    "title": "Data files convert to Lua values equal to the data",
    "level": "proof",
    "design_ref": "DESIGN.md section 6 / C14",
    "technique": "Coq proof that the expression built by a Gallina model of the serde serializer evaluates, in the "
                 "reference interpreter and under both dialects, to a value that denotes the document (Lua/DataSpec.v); "
                 "model tied to the Rust serializer on every run (recorded serde calls -> model vs the tree the real "
                 "to_expression built); independent oracle: the text emitted by convert_data and by a bundled require "
                 "is parsed, executed in the Coq interpreter and compared with the value computed from the document by python",
    "level_text": "Machine-checked theorems (Coq 8.16 kernel): for every document without null / NaN / compound keys the "
                  "modelled expression evaluates without error, under Lua 5.1 and Luau, to a value that is the document "
                  "(sequences in order, mappings with exactly the document's keys and last-binding-wins, strings "
                  "byte-identical, integers the nearest double, floats bit-identical, null = nil); the two excluded key "
                  "kinds are refuted by witness. The model is compared with the compiled serializer on every generated "
                  "document, and the emitted TEXT (convert_data, bundled require; three generators) is executed and "
                  "compared with the document's value computed independently.",
    "level_note": "C14_serialize_sound covers every i64/u64 integer and depends on Flocq's binary_round_correct "
                  "(classical real number axioms, allow-listed); C14_serialize_sound_exact_ints (integers below 2^53) and "
                  "all other theorems are closed under the global context. Trusted: Coq kernel + vm_compute; Lua/Sem.v "
                  "and Lua/DataSpec.v (specification); darklua's parser for reading the emitted text back; the harness "
                  "recorder (record.rs) and astdump; python's float() for the expected doubles.",
    "trusted_base": ["Coq 8.16.1 kernel, vm_compute", "Lua/Sem.v reference interpreter, Lua/DataSpec.v (specification)",
                     "Flocq 4 (binary_round_correct) for integers beyond 2^53 only",
                     "harness/crates/c14 (serde call recorder), harness/crates/astdump, darklua_core::Parser on the emitted text",
                     "python float() / struct for the expected bit patterns; json5, serde_yaml, toml parsers as the meaning of a document"],
    "allowed_axioms": FLOCQ_AXIOMS,
    "rule": "seeded documents (nesting <= 5, empty containers, nulls in arrays and as values, keys that are keywords / "
            "digit-initial / empty / contain quotes, backslashes, newlines, NUL, non-ASCII; strings over every byte UTF-8 "
            "can carry, escape look-alikes, `]]`, texts over 60 bytes with line breaks; integers around 2^53, 2^63, 2^64 and "
            "beyond, fractions, exponent forms, -0.0, subnormals, YAML/TOML inf and nan; YAML non-string scalar keys) "
            "written as JSON, JSON5, YAML, TOML (and text files) with randomly chosen spellings; a case is non-trivial when "
            "the document has a non-identifier key, a string needing an escape or >= 60 bytes, a non-integer or >= 2^53 "
            "number, or a null inside a container; distinct by (format, document text)",
    "assumptions": ["Lua/Sem.v is a faithful reference semantics on the constructs the emitted programs use "
                    "(table constructors, literals, unary minus, division for inf/nan, and the bundle's module wrapper)",
                    "what a JSON/JSON5/YAML/TOML text means is what json5 / serde_yaml / toml parse it to; the expected value "
                    "is computed from the generator's document, so a disagreement between the two shows up as a mismatch",
                    "sequences have fewer than 2^53 elements (positional indices are doubles in the reference interpreter)"],
}

PREAMBLE = """From Coq Require Import ZArith Ascii.
From DL Require Import Lib.Bytes Lib.F64 Lua.Syntax Lua.Sem Lua.DataSpec Model.Serializer Model.SerializerCheck.
Open Scope N_scope.
Open Scope string_scope.
Definition bx := unhex.
Definition nm := of_string.
(* case = (recorded serde calls and the tree the real to_expression built, if any;
           hex of convert_data's text when it is the first program, if any;
           parsed emitted programs; expected rendering; fuel; mode (0 compare, 1 only run)) *)
Definition case := (option (data * expr) * option string * list block * rvalue * N * N)%type.
Definition c_model (c : case) := let '(m, _, _, _, _, _) := c in m.
Definition c_text (c : case) := let '(_, t, _, _, _, _) := c in t.
Definition c_blocks (c : case) := let '(_, _, b, _, _, _) := c in b.
Definition c_expected (c : case) := let '(_, _, _, e, _, _) := c in e.
Definition c_fuel (c : case) := let '(_, _, _, _, f, _) := c in f.
Definition c_mode (c : case) := let '(_, _, _, _, _, m) := c in m.
Definition model_ok (c : case) : bool :=
  match c_model c with
  | None => true
  | Some (d, t) => model_matches d t
  end.
(* reference lexer + reference literal decoder (Luau escape rules) on convert_data's text *)
Definition literals_ok (c : case) : bool :=
  match c_text c, c_blocks c with
  | Some h, b :: _ => literals_agree true (unhex h) b
  | _, _ => true
  end.
(* 0 ok, 1 value differs, 2 run-time error, 3 out of fuel, 4 outside the interpreter, 5 not one value *)
Definition run_code (c : case) (b : block) (d : dialect) : N :=
  match run_data d (N.to_nat (c_fuel c)) 64 b with
  | RunValue v => if N.eqb (c_mode c) 1 then 0 else if rv_eqb v (c_expected c) then 0 else 1
  | RunValues _ => 5
  | RunError => 2
  | RunFuel => 3
  | RunUnsup _ => 4
  end.
Definition codes (c : case) : list N :=
  List.flat_map (fun b => [run_code c b L51; run_code c b Luau]) (c_blocks c).
Definition check_case (c : case) : bool := model_ok c && literals_ok c && List.forallb (N.eqb 0) (codes c).
Definition diag_case (c : case) : string :=
  (if model_ok c then "model=ok" else "model=DIFFERS") ++
  (if literals_ok c then " literals=ok" else " literals=DIFFER") ++ " runs=" ++
  List.fold_right (fun n acc => String (ascii_of_N (48 + n)) acc) "" (codes c).
"""

IDENT_PREAMBLE = """From DL Require Import Lib.Bytes Model.Serializer.
Open Scope N_scope.
Open Scope string_scope.
Definition bad_of (l : list (string * bool)) := List.filter (fun p => negb (Bool.eqb (is_valid_identifier (unhex (fst p))) (snd p))) l.
Definition check_case (l : list (string * bool)) : bool := match bad_of l with nil => true | _ => false end.
Definition diag_case (l : list (string * bool)) : string := String.concat " " (List.map fst (bad_of l)).
"""

FORMATS = ["json", "json5", "yaml", "toml"]

# witnesses of the recorded findings: (key, format, document text, expected rvalue)
INF_BITS = 0x7FF0000000000000
WITNESSES = [
    ("yaml-null-key@complete_table_entry", "yaml", "~: 1\n", '(RTable [] false)'),
    ("yaml-null-key@complete_table_entry", "yaml", "{a: 1, null: 2}\n", '(RTable [((RStr (bx "61")), (RNum 4607182418800017408))] false)'),
    ("yaml-nan-key@complete_table_entry", "yaml", ".nan: 1\n", '(RTable [] false)'),
    ("json-nonfinite-number-becomes-nil@serde_json::Value", "json", '{"x":1e400}', '(RTable [((RStr (bx "78")), (RNum %d))] false)' % INF_BITS),
    ("json-nonfinite-number-becomes-nil@serde_json::Value", "json", '[1e999]', '(RTable [((RNum 4607182418800017408), (RNum %d))] false)' % INF_BITS),
    ("json-nonfinite-number-becomes-nil@serde_json::Value", "json5", "[Infinity]", '(RTable [((RNum 4607182418800017408), (RNum %d))] false)' % INF_BITS),
    ("json-nonfinite-number-becomes-nil@serde_json::Value", "json5", "{a: -Infinity}", '(RTable [((RStr (bx "61")), (RNum %d))] false)' % (INF_BITS | 1 << 63)),
    ("json-nonfinite-number-becomes-nil@serde_json::Value", "json5", "NaN", '(RNum %d)' % D.NAN_BITS),
]

# model correspondence beyond the property's vocabulary (no expected value: mode 1 = must run to a value)
EXTRAS = [
    ("yaml", "[1, 2]: a\n{b: 1}: c\n"),                     # compound keys: tables as keys (by identity)
    ("yaml", "- !tag 5\n- !point {x: 1}\n- !!str 12\n"),    # tagged values
    ("toml", "d = 1979-05-27T07:32:00Z\nt = 07:32:00\nl = [1979-05-27, 1979-05-27T07:32:00]\n"),   # datetimes
    ("yaml", "a: &x [1, 2]\nb: *x\n"),                      # anchors / aliases
    ("yaml", "<<: {a: 1}\nb: 2\n"),                         # merge key is an ordinary string key
]


def gen_ident_samples(rng):
    out = []
    for a in range(128):
        out.append(bytes([a]))
    firsts = list(range(128))
    for a in firsts:
        for b in range(128):
            out.append(bytes([a, b]))
    words = D.LUA_KEYWORDS + D.OTHER_WORDS + ["goto", "continue", "const", "type", "typeof", "export"]
    for w in words:
        for v in (w, w.upper(), w.capitalize(), w + "_", "_" + w, w + "0", "0" + w, w + " ", " " + w, w[:-1], w + w,
                  w + "\xe9", "\xe9" + w, w + "\n", w + "\0"):
            out.append(v.encode("utf-8"))
    for _ in range(600):
        n = rng.randrange(1, 12)
        out.append("".join(rng.choice("abzAZ_09 -\xe9$.") for _ in range(n)).encode("utf-8"))
    out.append(b"")
    seen, res = set(), []
    for b in out:
        if b not in seen:
            seen.add(b)
            res.append(b)
    return res


def run_ident_stream(ctx):
    rng = random.Random(ctx.seed * 7919 + 14)
    samples = gen_ident_samples(rng)
    path = os.path.join(C.WORK, "C14", "ident.txt")
    os.makedirs(os.path.dirname(path), exist_ok=True)
    with open(path, "w") as f:
        for b in samples:
            f.write(b.hex() + "\n")
    out = C.harness("dl-c14", ["ident", "--input", path])
    pairs = []
    for line in out.splitlines():
        parts = line.split("\t")
        if len(parts) == 2 and parts[1] in ("0", "1"):
            pairs.append((parts[0], parts[1] == "1"))
    if len(pairs) != len(samples):
        raise C.CheckBroken("ident stream: %d answers for %d samples" % (len(pairs), len(samples)))
    cases = []
    for k in range(0, len(pairs), 400):
        part = pairs[k:k + 400]
        cases.append((k // 400, "[" + "; ".join('("%s", %s)' % (h, "true" if v else "false") for h, v in part) + "]"))
    bad = C.run_coq_cases(ctx.prop, IDENT_PREAMBLE, cases, chunk=3, tag="ident")
    accepted = sum(1 for _, v in pairs if v)
    ctx.stream("is_valid_identifier: model vs Rust (all 1- and 2-byte ASCII strings, keyword variants, seeded strings)",
               len(pairs), len(pairs), [{"input_hex": pairs[200][0], "rust": pairs[200][1]}],
               mismatches=len(bad), accepted=accepted)
    return bad


def make_documents(ctx, n_docs):
    """[(format, text, expected rvalue, nodes, features, doc repr)]"""
    rng = random.Random(ctx.seed * 1000003 + 14)
    docs = []
    # fixed: byte coverage and a few hand-written shapes
    huge = [D.Num("int", ival=v) for v in D.HUGE_INTS]
    fixed = [D.byte_coverage_strings(),
             D.Obj([(s, i) for i, s in enumerate([])]),
             D.Obj([(w, D.Num("int", ival=i)) for i, w in enumerate(D.LUA_KEYWORDS)]),
             D.Obj([(w, D.Num("int", ival=i)) for i, w in enumerate(D.OTHER_WORDS)]),
             [None, None, D.Num("int", ival=1), None],
             [[], D.Obj([]), [[]], [D.Obj([])]],
             D.Obj([("a", None), ("b", [None]), ("c", D.Obj([("d", None)]))]),
             [D.Num("int", ival=v) for v in D.INT_VALUES],
             [D.Num("float", text=t) for t in D.FLOAT_TEXTS],
             huge,
             [D.Num("inf"), D.Num("ninf"), D.Num("nan")],
             D.Obj([("k" * 30 + " " + "k" * 40, D.Num("int", ival=1)), ("line\n" * 8 + "tail", D.Num("int", ival=2)),
                    ("x ]] y" * 12 + "]=", D.Num("int", ival=3))]),
             ["line\n" * 8 + "tail of the string text", "x ]] y" * 12 + "]=", "\nleading newline " * 6, "a]]b" * 20 + "]"],
             [[[[[D.Obj([("deep", [[[D.Num("int", ival=1)]]])])]]]]]]
    generic = fixed + [D.gen_document(rng) for _ in range(n_docs)]
    for doc in generic:
        for fmt in FORMATS:
            p = D.project(doc, fmt, keep_huge=(doc is huge))
            text = D.serialize(rng, p, fmt)
            docs.append((fmt, text, D.expected_rvalue(p), D.node_count(p), D.features(p), repr(p)[:400]))
    # JSON / JSON5 duplicate keys: the last one holds
    for _ in range(max(4, n_docs // 25)):
        key = D.gen_string(rng)
        v = D.Obj([(key, D.gen_value(rng, 1)), ("other", D.Num("int", ival=1)), (key, D.gen_value(rng, 1))])
        for fmt in ("json", "json5"):
            p = D.project(v, fmt)
            docs.append((fmt, D.serialize(rng, p, fmt), D.expected_rvalue(p), D.node_count(p), D.features(p) | {"key"}, repr(p)[:400]))
    # YAML documents with scalar non-string keys
    for _ in range(max(8, n_docs // 8)):
        p = D.project(D.gen_document(rng, yaml_keys=True), "yaml")
        docs.append(("yaml", D.serialize(rng, p, "yaml"), D.expected_rvalue(p), D.node_count(p), D.features(p), repr(p)[:400]))
    # text files
    for _ in range(max(8, n_docs // 8)):
        s = D.gen_string(rng)
        docs.append(("txt", s, D.expected_rvalue(s), 1, D.features(s), repr(s)[:400]))
    for s in D.byte_coverage_strings():
        docs.append(("txt", s, D.expected_rvalue(s), 1, D.features(s), repr(s)[:400]))
    return docs


def run_harness(ctx, docs, tag):
    """docs: [(format, text)] -> {id: {"D": (data, tree), "C": (hex, block), "B": (gen, hex, block), "P": msg}}"""
    path = os.path.join(C.WORK, "C14", tag + ".txt")
    os.makedirs(os.path.dirname(path), exist_ok=True)
    with open(path, "w") as f:
        for i, (fmt, text) in enumerate(docs):
            f.write("%d\t%s\t%s\n" % (i, fmt, text.encode("utf-8").hex()))
    out = C.harness("dl-c14", ["run", "--input", path, "--generators", "dense,readable,retain_lines"], timeout=1800)
    res = {}
    for line in out.splitlines():
        p = line.split("\t")
        if p[0] == "D" and len(p) == 5:
            res.setdefault(int(p[1]), {})["D"] = (p[3], p[4])
        elif p[0] == "C" and len(p) == 4:
            res.setdefault(int(p[1]), {})["C"] = (p[2], p[3])
        elif p[0] == "B" and len(p) == 5:
            res.setdefault(int(p[1]), {})["B"] = (p[2], p[3], p[4])
        elif p[0] == "P" and len(p) >= 3:
            res.setdefault(int(p[1]), {})["P"] = p[2]
    return res


def text_of(hexs):
    if hexs.startswith("ERR:"):
        return hexs
    return bytes.fromhex(hexs).decode("utf-8", "replace")


def build_case(r, expected, nodes, mode):
    """-> (coq term | None, problems [(what, detail)])"""
    problems = []
    model = "None"
    if "D" in r:
        data, tree = r["D"]
        if tree.startswith("ERR:"):
            problems.append(("to_expression failed on a parsed document", tree))
        elif data.startswith("ERR:"):
            problems.append(("the document drives serde calls outside the modelled vocabulary", data))
        else:
            model = "(Some (%s, %s))" % (data, tree)
    blocks = []
    text = "None"
    for tagk in ("C", "B"):
        if tagk not in r:
            continue
        ent = r[tagk]
        hexs, block = ent[-2], ent[-1]
        where = "convert_data" if tagk == "C" else "bundled require (%s generator)" % ent[0]
        if hexs.startswith("ERR:"):
            problems.append(("%s failed on a parsed document" % where, hexs))
        elif block.startswith("ERR:"):
            problems.append(("the text emitted by %s does not parse" % where, block + " :: " + text_of(hexs)[:400]))
        else:
            if tagk == "C":
                text = '(Some "%s")' % hexs
            blocks.append(block)
    if not blocks and model == "None":
        return None, problems
    fuel = 6 * nodes + 400
    term = "(%s, %s, [%s], %s, %d, %d)" % (model, text, "; ".join(blocks), expected, fuel, mode)
    return term, problems


def run(ctx):
    C.build_harness("dl-c14")
    proofs_ok = C.proof_gate(ctx, ["Model/SerializerCheck.vo", "Lua/DataSpec.vo"])

    ident_bad = run_ident_stream(ctx)

    n_docs = 110 if ctx.tier == "quick" else 1500
    docs = make_documents(ctx, n_docs)
    seen, uniq = set(), []
    for d in docs:
        if (d[0], d[1]) not in seen:
            seen.add((d[0], d[1]))
            uniq.append(d)
    docs = uniq
    n_main = len(docs)
    all_docs = [(d[0], d[1]) for d in docs] + [(w[1], w[2]) for w in WITNESSES] + list(EXTRAS)
    res = run_harness(ctx, all_docs, "docs")

    cases, info = [], {}
    rejected = 0
    per_format = {}
    nontrivial = 0
    hard = []          # problems found without Coq: (doc index, what, detail)
    for i, (fmt, text) in enumerate(all_docs):
        r = res.get(i, {})
        if "P" in r and "D" not in r:
            rejected += 1
            if i >= n_main:
                raise C.CheckBroken("a fixed witness / extra document is rejected by its parser: %r: %s" % (text, r["P"]))
            continue
        if i < n_main:
            expected, nodes, mode = docs[i][2], docs[i][3], 0
        elif i < n_main + len(WITNESSES):
            expected, nodes, mode = WITNESSES[i - n_main][3], 8, 0
        else:
            expected, nodes, mode = "RNil", 30, 1
        term, problems = build_case(r, expected, nodes, mode)
        for what, detail in problems:
            hard.append((i, what, detail))
        if term is not None:
            cases.append((i, term))
            info[i] = r
            if i < n_main:
                per_format[fmt] = per_format.get(fmt, 0) + 1
                if docs[i][4]:
                    nontrivial += 1
    bad = dict(C.run_coq_cases(ctx.prop, PREAMBLE, cases, chunk=40 if ctx.tier == "quick" else 120, tag="docs"))

    def replay_of(i):
        fmt, text = all_docs[i]
        r = res.get(i, {})
        rp = {"format": fmt, "document": text, "document_hex": text.encode("utf-8").hex(),
              "replay": "printf the document into data.%s; `darklua convert data.%s` (or bundle `return require('./data.%s')`); "
                        "run the output" % (fmt, fmt, fmt)}
        if "C" in r:
            rp["convert_output"] = text_of(r["C"][0])[:2000]
        if "B" in r:
            rp["bundle_generator"] = r["B"][0]
        if i < n_main:
            rp["expected_value"] = docs[i][2][:2000]
            rp["generator_document"] = docs[i][5]
        return rp

    # ---- main stream
    main_bad = [i for i in bad if i < n_main]
    model_bad = [i for i in main_bad if "model=DIFFERS" in bad[i]]
    run_bad = [i for i in main_bad if bad[i].split("runs=")[1].strip("0") != "" or "literals=DIFFER" in bad[i]]
    needs_luau_escapes = sum(1 for i in info if i < n_main and "C" in info[i] and not info[i]["C"][0].startswith("ERR:")
                             and b"\\u{" in bytes.fromhex(info[i]["C"][0]))
    samples = [{"format": docs[i][0], "document": docs[i][1][:300]} for i in (5, len(docs) // 2, len(docs) - 20) if i < len(docs)]
    ctx.stream("documents: serializer model vs the tree built by the real to_expression (from the recorded serde calls)",
               sum(1 for i in info if i < n_main and "D" in info[i]), nontrivial, samples,
               mismatches=len(model_bad), per_format=per_format, rejected_by_format_parser=rejected)
    ctx.stream("documents: emitted text (convert_data + bundled require) parsed, run in the Coq interpreter under both "
               "dialects and compared with the value computed from the document",
               2 * sum(len([k for k in ("C", "B") if k in info[i]]) for i in info if i < n_main), nontrivial, [],
               differing=len(run_bad), texts_using_luau_only_unicode_escapes=needs_luau_escapes)

    for i in run_bad[:6]:
        ctx.violation("the emitted Lua does not evaluate to the document's value (runs: per program and dialect "
                      "0 ok / 1 differs / 2 run-time error / 3 fuel / 4 unsupported / 5 arity; literals = string literals of the "
                      "text read by the reference lexer and decoder vs the parsed tree): " + bad[i],
                      replay_of(i), key="value:" + all_docs[i][0] + ":" + all_docs[i][1][:40].replace(" ", "_"))
    for i, what, detail in hard:
        if i < n_main + len(WITNESSES):
            ctx.violation(what + ": " + detail[:600], replay_of(i),
                          key="emit:" + all_docs[i][0] + ":" + all_docs[i][1][:40].replace(" ", "_"))
    # ---- witnesses of recorded findings (reported under their key; silent once repaired)
    for j, (key, fmt, text, _) in enumerate(WITNESSES):
        i = n_main + j
        if i in bad:
            ctx.violation("recorded finding still present (%s): %s" % (key, bad[i]), replay_of(i), key=key)
    # ---- extras: model correspondence only
    extras_bad = [i for i in bad if i >= n_main + len(WITNESSES)]
    ctx.stream("extras (compound YAML keys, tags, anchors, TOML datetimes): model vs code, emitted text runs to a value",
               len(EXTRAS), len(EXTRAS), [{"format": f, "document": t} for f, t in EXTRAS[:2]], mismatches=len(extras_bad))

    corr_bad = model_bad + extras_bad
    if ident_bad and not ctx.violations:
        ctx.violation("correspondence broken: is_valid_identifier differs from Model/Serializer.is_valid_identifier on: "
                      + ident_bad[0][1][:300], {"stream": "is_valid_identifier", "inputs_hex": ident_bad[0][1][:1000]},
                      found_input=False)
    if corr_bad and not ctx.violations:
        i = corr_bad[0]
        ctx.violation("correspondence broken: the tree built by to_expression differs from Model/Serializer.to_expression "
                      "on the recorded serde calls (theorems no longer apply to the code); every emitted text still "
                      "evaluates to its document", dict(replay_of(i), diag=bad[i], mismatches=len(corr_bad)),
                      found_input=False)
    if not proofs_ok and not ctx.violations:
        failed = [n for n, ok, _ in ctx.obligations if not ok]
        ctx.violation("proof obligation no longer checks: " + "; ".join(failed), {"obligations": failed}, found_input=False)


def replay(ctx, path):
    r = json.load(open(path))
    print(json.dumps(r, indent=1)[:6000])
    r = r.get("replay", r)
    if "document_hex" not in r:
        return 0
    C.build_harness("dl-c14")
    docs = [(r["format"], bytes.fromhex(r["document_hex"]).decode("utf-8"))]
    res = run_harness(ctx, docs, "replay").get(0, {})
    for k in ("P", "C", "B"):
        if k in res:
            ent = res[k]
            print(k, ":", ent if k == "P" else text_of(ent[-2])[:3000])
            if k != "P":
                print("   parsed:", ent[-1][:300])
    return 0
