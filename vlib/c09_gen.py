"""Program generator for C09 (rename_variables): templates + seeded random composition.

Every program is plain Lua 5.1 / Luau text.  The generator draws identifiers from a SMALL pool so that
shadowing, reuse after a scope closes, locals spelled like globals used elsewhere and locals spelled like
the names the rule generates (a, b, aa, ...) happen all the time; whether an identifier is bound at the
point of use is left to chance (unbound ones are the file's globals)."""

# ------------------------------------------------------------------------------------------
# fixed templates: one per scoping situation named by the property
TEMPLATES = [
    # nested functions capturing outer locals
    "local x = 1\nlocal function f() local y = x return function() return x + y end end\nreturn f()()",
    "local a, b = 1, 2\nlocal f = function(c) return function(d) return a + b + c + d end end\nreturn f(3)(4)",
    "local counter = 0\nlocal function inc() counter = counter + 1 return counter end\nlocal function get() return counter end\nreturn inc, get",
    # shadowing: do
    "local x = 1\ndo local x = x + 1 print(x) end\nprint(x)",
    # while
    "local x = 3\nwhile x > 0 do local x = x - 1 print(x) break end\nreturn x",
    # repeat-until condition reading body locals
    "local x = 0\nrepeat local x = x + 1 local done = x > 0 until done and x\nreturn x",
    "local done = false\nrepeat local done = true until done\nreturn done",
    "repeat local a = f() local b = a until a == b or c",
    # numeric for
    "local i = 10\nfor i = i, i + 2, i do local i = i * 2 print(i) end\nreturn i",
    # generic for
    "local k, v = 1, 2\nfor k, v in pairs({k, v}) do local k = v print(k, v) end\nreturn k, v",
    "local t = {}\nfor i, t in ipairs(t) do print(i, t) end\nreturn t",
    # if / elseif / else
    "local x = 1\nif x then local x = 2 print(x) elseif x == nil then local x = 3 print(x) else local x = 4 print(x) end\nreturn x",
    # function parameters
    "local a = 1\nlocal function f(a, b) local b = a return a, b end\nreturn f(a, a)",
    "local function f(a, a) return a end\nreturn f(1, 2)",
    "local x = 1\nlocal g = function(x, ...) local y = ... return x, y, ... end\nreturn g(x)",
    # local function self reference / recursion;  local f = function does not see itself
    "local function fact(n) if n < 2 then return 1 end return n * fact(n - 1) end\nreturn fact(5)",
    "local fact = function(n) if n < 2 then return 1 end return n * fact(n - 1) end\nreturn fact",
    "local f = 1\nlocal function f() return f end\nlocal f = function() return f end\nreturn f",
    "local function even(n) if n == 0 then return true end return odd(n - 1) end\nlocal function odd(n) return even(n) end\nreturn even, odd",
    # names reused after a scope closes
    "do local a = 1 print(a) end\ndo local b = 2 print(b) end\ndo local a, b, c = 1, 2, 3 print(a, b, c) end\nlocal d = 4\nreturn d",
    "local function f() local p, q = 1, 2 return p + q end\nlocal function g() local r = 3 return r end\nlocal s = f() + g()\nreturn s",
    "for i = 1, 2 do local a = i end\nfor j = 1, 2 do local b, c = j, j end\nlocal z = 1\nreturn z",
    # locals named like globals used elsewhere
    "do local print = 1 local x = print end\nprint(1)",
    "local function f() local foo = 1 return foo end\nfoo(f)",
    "local a = 1\ndo local b = a end\nprint(b, c, d, e)",
    "local x1, x2, x3, x4 = 1, 2, 3, 4\nreturn a, b, c, x1 + x2 + x3 + x4",
    "local q = 1\nfunction a() return q end\nfunction b.c() return q end\nreturn q",
    "local string = string\nlocal math = math\nreturn string.format, math.floor, table.insert",
    # locals named like generated names
    "local a = 1\nlocal b = a\nlocal aa = b\nlocal c = aa + a\nreturn a, b, aa, c",
    "local b = 1\nlocal a = b\ndo local a = a local b = a end\nreturn a, b",
    "local c, b, a = 1, 2, 3\nreturn a, b, c",
    # method definitions using self
    "local t = {}\nfunction t:m(a) return self, a end\nfunction t.f(self, a) return self, a end\nreturn t",
    "local self = 1\nlocal t = {}\nfunction t:m() local x = self return function() return self, x end end\nreturn self, t",
    "function obj:method(self2) local self = self2 return self end",
    "local o = {}\nfunction o:a() local function inner() return self end return inner end\nfunction o:b() return self:a() end\nreturn o",
    "return self",
    # an EXPLICIT parameter called self in a method: `function t:m(p)` is `t.m = function(self, p)`, the implicit
    # receiver comes first, so the explicit parameter shadows it and the body's `self` is the argument
    "local t = {}\nfunction t:m(self) return self end\nreturn t:m(7)",
    "local t = { a = {} }\nfunction t.a:m(x, self) return self, x, self.x end\nreturn t.a:m(1, 2)",
    "local t = {}\nfunction t:m(self, ...) local n = select('#', ...) return self.x, n, ... end\nreturn t:m({ x = 1 }, 2, 3)",
    "local t = {}\nfunction t:m(a, self) return function() return self, a end end\nreturn t:m(1, 2)()",
    "local t = {}\nfunction t:m(self) local f = function(b) return function() return self + b end end return f(1)() end\nreturn t:m(7)",
    "local t = {}\nfunction t:m(self) local self = self return self end\nfunction t:n(self, self) return self end\nreturn t:m(1), t:n(1, 2)",
    "local t = {}\nfunction t:outer(self) local u = {} function u:inner(x) return self, x end function u:own(self) return self end return u, self end\nreturn t:outer(3)",
    # controls: methods without an explicit self, and a function (not a method) with a parameter self
    "local t = {}\nfunction t:m(a) return self, a end\nfunction t.f(self, a) return self, a end\nfunction t:n(b) self.x = b return self:m(b) end\nreturn t:m(1), t.f(2, 3), t:n(4)",
    # a local / upvalue called self outside any method
    "local self = { v = 1 }\nlocal function get() return self.v end\nlocal t = {}\nfunction t.f() return self end\nfunction t:g() return self end\nfunction t:h(a) local g = get return function() return self, a, g() end end\nreturn get, t, self",
    # a parameter called like the method's table; `...` together with self
    "local t = {}\nfunction t:m(t) return self, t end\nfunction t.k(t, self) return t, self end\nfunction t:p(x, t, self) return self, t, x end\nreturn t",
    "local o = {}\nfunction o:m(...) local s = self return self, ..., s end\nfunction o:n(self, ...) return ..., self end\nfunction o:q(a, self, ...) return select(self, ...), a end\nreturn o:m(1), o:n(2, 3), o:q(1, 2, 3)",
    # varargs
    "local function f(...) local a, b = ... return select('#', ...), a, b end\nreturn f(1, 2)",
    "local a = ...\nlocal function g(x, ...) return ..., x, a end\nreturn g",
    # function statements on locals, fields
    "local f\nfunction f() return f end\nreturn f",
    "local t = {}\nfunction t.a() return t end\nfunction t.b.c:d() return t, self end\nreturn t",
    # redeclaration in the same scope
    "local x = 1\nlocal x = x + 1\nlocal x, x = x, x\nreturn x",
    "local a = 1\nlocal f = function() return a end\nlocal a = 2\nreturn f() + a",
    # fields and methods spelled like locals
    "local a = {}\na.a = a\na.b = { a = a, b = 1, [a] = a }\nreturn a:a(a.a), a.b.a",
    # assignments to globals and locals
    "x = 1\nlocal x = x\nx = x + 1\ny = x\nreturn x, y",
    # Luau: typeof in annotations, compound assignment, continue, if-expression, interpolation
    "local x = 1\nlocal y: typeof(x) = x\nlocal function f(a: typeof(x), b: number): typeof(y) return a end\nreturn f",
    "local n = 0\nfor i = 1, 3 do if i == 2 then continue end n += i end\nreturn if n > 1 then `n={n}` else n",
    "local t = {}\ntype T = typeof(t)\nlocal u: T = t\nreturn (u :: typeof(t))",
]


def many_locals(n, style):
    names = ["v%d" % i for i in range(1, n + 1)]
    if style == 0:      # one statement
        return "local %s = ...\nreturn %s, %s, %s" % (", ".join(names), names[0], names[n // 2], names[-1])
    if style == 1:      # one statement each, each reading the previous one
        lines = ["local v1 = 1"] + ["local v%d = v%d + 1" % (i, i - 1) for i in range(2, n + 1)]
        return "\n".join(lines) + "\nreturn v%d, v1, a, aa, ab, ba, a0, _" % n
    if style == 2:      # parameters, captured in a closure that declares locals of its own
        return ("local function f(%s)\n  return function(x, y) local z = x + y return z + %s end\nend\nreturn f"
                % (", ".join(names), " + ".join(names[::7])))
    # nested scopes: the pool is refilled and emptied
    half = n // 2
    lines = ["do", "  local %s = ..." % ", ".join(names[:half]), "  print(%s)" % ", ".join(names[:half:9]), "end",
             "local %s = ..." % ", ".join(names[half:]),
             "do local p, q, r = 1, 2, 3 print(p, q, r) end",
             "return %s" % ", ".join(names[half::11])]
    return "\n".join(lines)


# ------------------------------------------------------------------------------------------
# random composition
NAMES = ["a", "b", "c", "aa", "ab", "x", "y", "print", "foo", "self", "t", "i", "k", "v", "_", "a0", "d", "e",
         "typ", "f", "g", "A", "B", "_a", "z9", "pairs", "game", "n"]
FIELDS = ["a", "b", "x", "foo", "print", "self", "m"]


class Gen:
    def __init__(self, rnd, luau=False):
        self.r = rnd
        self.luau = luau

    def name(self):
        r = self.r
        return r.choice(NAMES[:8]) if r.random() < 0.5 else r.choice(NAMES)

    def expr(self, d):
        r = self.r
        k = r.random()
        if d <= 0 or k < 0.35:
            return self.name() if r.random() < 0.8 else str(r.randint(0, 9))
        if k < 0.45:
            return "%s %s %s" % (self.expr(d - 1), r.choice(["+", "-", "..", "==", "and", "or", "<"]), self.expr(d - 1))
        if k < 0.55:
            return "%s(%s)" % (self.name(), ", ".join(self.expr(d - 1) for _ in range(r.randint(0, 2))))
        if k < 0.62:
            return "%s.%s" % (self.name(), r.choice(FIELDS))
        if k < 0.68:
            return "%s:%s(%s)" % (self.name(), r.choice(FIELDS), self.expr(d - 1))
        if k < 0.74:
            return "%s[%s]" % (self.name(), self.expr(d - 1))
        if k < 0.82:
            items = []
            for _ in range(r.randint(0, 3)):
                c = r.random()
                if c < 0.4:
                    items.append("%s = %s" % (r.choice(FIELDS), self.expr(d - 1)))
                elif c < 0.6:
                    items.append("[%s] = %s" % (self.expr(d - 1), self.expr(d - 1)))
                else:
                    items.append(self.expr(d - 1))
            return "{ %s }" % ", ".join(items)
        if k < 0.94:
            return self.func(d - 1)
        if k < 0.97:
            return "(%s)" % self.expr(d - 1)
        return "not %s" % self.expr(d - 1)

    def params(self, explicit_self=False):
        r = self.r
        ps = [self.name() for _ in range(r.randint(0, 3))]
        if explicit_self:
            ps.insert(r.randint(0, len(ps)), "self")
        if r.random() < 0.25:
            ps.append("...")
        return ", ".join(ps)

    def self_use(self, d):
        """statements of a method body that read `self` observably"""
        r = self.r
        k = r.random()
        if k < 0.3:
            return "return self, %s" % self.expr(min(d, 1))
        if k < 0.5:
            return "return self.%s, self" % r.choice(FIELDS)
        if k < 0.7:
            return "return function(%s) return self, %s end" % (self.name(), self.name())
        if k < 0.85:
            return "local %s = self return %s, self:%s(%s)" % (self.name(), self.name(), r.choice(FIELDS), self.expr(0))
        return "do local %s = self end return self" % self.name()

    def func(self, d):
        return "function(%s) %s end" % (self.params(), self.block(d, self.r.randint(0, 3), True))

    def ret(self, d):
        r = self.r
        vals = [self.expr(d) for _ in range(r.randint(0, 3))]
        return "return " + ", ".join(vals)

    def block(self, d, n, in_function=False):
        r = self.r
        out = [self.stmt(d) for _ in range(n)]
        if r.random() < (0.6 if in_function else 0.2):
            out.append(self.ret(min(d, 1)))
        return " ".join(out)

    def stmt(self, d):
        r = self.r
        k = r.random()
        if d <= 0:
            k = k * 0.42
        if k < 0.16:
            return "local %s = %s" % (self.name(), self.expr(d))
        if k < 0.24:
            n = r.randint(2, 3)
            return "local %s = %s" % (", ".join(self.name() for _ in range(n)),
                                      ", ".join(self.expr(d - 1) for _ in range(r.randint(1, n))))
        if k < 0.27:
            return "local %s" % self.name()
        if k < 0.34:
            return "%s = %s" % (r.choice([self.name(), "%s.%s" % (self.name(), r.choice(FIELDS)),
                                          "%s[%s]" % (self.name(), self.expr(0))]), self.expr(d))
        if k < 0.42:
            return "%s(%s)" % (self.name(), ", ".join(self.expr(d - 1) for _ in range(r.randint(0, 2))))
        if k < 0.48:
            return "do %s end" % self.block(d - 1, r.randint(1, 3))
        if k < 0.53:
            return "while %s do %s end" % (self.expr(1), self.block(d - 1, r.randint(1, 2)))
        if k < 0.59:
            return "repeat %s until %s" % (self.block(d - 1, r.randint(1, 3)), self.expr(1))
        if k < 0.66:
            step = ", " + self.expr(0) if r.random() < 0.3 else ""
            return "for %s = %s, %s%s do %s end" % (self.name(), self.expr(1), self.expr(1), step,
                                                    self.block(d - 1, r.randint(1, 2)))
        if k < 0.73:
            n = r.randint(1, 3)
            return "for %s in %s do %s end" % (", ".join(self.name() for _ in range(n)), self.expr(1),
                                                self.block(d - 1, r.randint(1, 2)))
        if k < 0.81:
            s = "if %s then %s" % (self.expr(1), self.block(d - 1, r.randint(0, 2)))
            for _ in range(r.randint(0, 2)):
                s += " elseif %s then %s" % (self.expr(1), self.block(d - 1, r.randint(0, 2)))
            if r.random() < 0.5:
                s += " else %s" % self.block(d - 1, r.randint(0, 2))
            return s + " end"
        if k < 0.89:
            return "local function %s(%s) %s end" % (self.name(), self.params(), self.block(d - 1, r.randint(0, 3), True))
        if k < 0.95:
            base = self.name()
            path = "".join("." + r.choice(FIELDS) for _ in range(r.randint(0, 2)))
            meth = ":" + r.choice(FIELDS) if r.random() < 0.6 else ""
            if meth and r.random() < 0.6:
                # the body reads self; half of the time an explicit parameter is called self too
                body = " ".join([self.stmt(d - 1) for _ in range(r.randint(0, 2))] + [self.self_use(d - 1)])
                return "function %s%s%s(%s) %s end" % (base, path, meth, self.params(r.random() < 0.5), body)
            return "function %s%s%s(%s) %s end" % (base, path, meth, self.params(),
                                                   self.block(d - 1, r.randint(0, 3), True))
        if self.luau:
            c = r.random()
            if c < 0.4:
                return "local %s: typeof(%s) = %s" % (self.name(), self.name(), self.expr(1))
            if c < 0.7:
                return "%s += %s" % (self.name(), self.expr(1))
            return "local %s = if %s then %s else %s" % (self.name(), self.expr(0), self.expr(0), self.expr(0))
        return "local %s = %s" % (self.name(), self.func(d - 1))

    def program(self, size, depth):
        body = [self.stmt(depth) for _ in range(size)]
        if self.r.random() < 0.7:
            body.append(self.ret(1))
        return "\n".join(body)


def random_program(rnd, size=None, depth=None, luau=False):
    g = Gen(rnd, luau)
    return g.program(size or rnd.randint(3, 12), depth or rnd.randint(1, 4))
