"""Correspondence stream of C06/C07: the Gallina models of the lowering rules' rewrites
(coq/Model/Lowering.v, traversal coq/Model/Visit.v) against the real rules.

Small Luau programs are produced from templates that hit every arm of the models' case
splits; each is pushed through the real rule (`dl-rules apply-batch`, rule applied to the
AST), and inside Coq `block_eqb (model_rule IN) OUT` is evaluated (Lua/Fingerprint.v).

Left out on purpose (the models do not cover them, see the header of Model/Lowering.v):
programs that declare a local / parameter named `math`, `string`, `tostring` or one of the
`__DARKLUA_VAR*` temporaries; remove_attribute with a `match` list.  remove_continue has its own
model (coq/Model/RemoveContinue.v, a post-order traversal with a loop stack) and its own
stream, vlib/continue_gen.py."""
import itertools
import random

from . import common as C

# rule id (model_rule in the preamble) -> rules json
RULES = {
    0: '["remove_if_expression"]',
    1: '["remove_compound_assignment"]',
    2: '["remove_floor_division"]',
    3: '["remove_interpolated_string"]',
    4: '[{rule:"remove_interpolated_string", strategy:"tostring"}]',
    5: '["convert_luau_number"]',
    6: '["make_assignment_local"]',
    7: '["remove_types"]',
    8: '["remove_attribute"]',
}
NAMES = {0: "remove_if_expression", 1: "remove_compound_assignment", 2: "remove_floor_division",
         3: "remove_interpolated_string", 4: "remove_interpolated_string", 5: "convert_luau_number",
         6: "make_assignment_local", 7: "remove_types", 8: "remove_attribute"}

PREAMBLE = """From Coq Require Import ZArith.
From DL Require Import Lib.Bytes Lua.Syntax Lua.Fingerprint Model.Visit Model.Lowering.
Open Scope N_scope.
Open Scope string_scope.
Definition bx := unhex.
Definition nm := of_string.
Definition model_rule (r : N) : block -> block :=
  match r with
  | 0 => rule_if_expression
  | 1 => rule_compound_assign
  | 2 => rule_floor_division
  | 3 => rule_interpolated_string false
  | 4 => rule_interpolated_string true
  | 5 => rule_luau_number
  | 6 => rule_const
  | 7 => rule_types
  | 8 => rule_attribute
  | _ => fun b => b
  end.
(* case = (rule ids in application order, (input tree, darklua's output tree));
   verdict: 0 = model = code and the rule changed the tree, 1 = model = code, tree unchanged,
   2 = model <> code *)
Definition stat_case (c : list N * (block * block)) : N :=
  let m := List.fold_left (fun b r => model_rule r b) (fst c) (fst (snd c)) in
  if block_eqb m (snd (snd c)) then (if block_eqb (fst (snd c)) (snd (snd c)) then 1 else 0) else 2.
"""

# ---------------------------------------------------------------------------------------------
# templates per rule

RESULTS = ["1", "'s'", "true", "{}", "nil", "false", "x", "f()", "...", "-x", "a + b", "(f())", "a and b",
           "a or f()", "if p then 1 else 2", "function() end", "#t", "t.k", "t[1]", "not x", "`i{x}`", "(x :: any)",
           "1 .. 2", "a == b", "nil and 1", "1 and nil", "{} or nil"]
CONDS = ["c", "f()", "true", "nil", "a < b", "if q then a else b"]


def wrap_fn(body):
    return "local function w(...) %s end" % body


def gen_if_expression(rnd, thorough):
    out = []
    for r in RESULTS:
        for e in RESULTS:
            out.append(wrap_fn("local r = if c then %s else %s" % (r, e)))
    n = 1200 if thorough else 250
    for _ in range(n):
        k = rnd.choice([1, 1, 2, 2, 3])
        s = "if %s then %s" % (rnd.choice(CONDS), rnd.choice(RESULTS))
        for _ in range(k):
            s += " elseif %s then %s" % (rnd.choice(CONDS), rnd.choice(RESULTS))
        s += " else %s" % rnd.choice(RESULTS)
        form = rnd.choice(["local r = %s", "return %s", "g(%s, 1)", "local r = { %s }", "local r = (%s) + 1",
                           "t[%s] = 1", "local r = if %s then 1 else 2"])
        out.append(wrap_fn(form % s))
    return out


PREFIXES = ["t", "(t)", "(1)", "('s')", "(nil)", "(true)", "(false)", "(...)", "t.a", "t.a.b", "(t.a)", "f()", "(f())",
            "t[1]", "(t[1])", "o:m()", "(a + b)", "({})", "t[f()]", "((t))"]
KEYS = ["1", "k", "'s'", "nil", "true", "false", "...", "`x{y}`", "`p`", "(k)", "(1)", "('s')", "(nil)", "(...)",
        "(f())", "f()", "a + b", "{}", "function() end", "-k", "(k :: number)", "k :: number", "if a then 1 else 2",
        "a.b", "(a.b)", "t[1]", "not k", "((k))", "(`x`)", "o:m()"]
OPS = ["+=", "-=", "*=", "/=", "//=", "%=", "^=", "..="]
VALUES = ["1", "f()", "x", "...", "a + b"]


def gen_compound(rnd, thorough):
    out = []
    for p in PREFIXES:
        out.append(wrap_fn("%s.x += 1" % p))
        for k in KEYS:
            out.append(wrap_fn("%s[%s] %s %s" % (p, k, rnd.choice(OPS), rnd.choice(VALUES))))
    for op in OPS:
        for v in VALUES:
            out.append(wrap_fn("x %s %s" % (op, v)))
            out.append(wrap_fn("t.f %s %s" % (op, v)))
    # sequences: the numbering of temporaries across statements, nested blocks and scopes
    n = 600 if thorough else 150
    atoms = ["%s[%s] %s %s;" % (rnd.choice(PREFIXES), rnd.choice(KEYS), rnd.choice(OPS), rnd.choice(VALUES))
             for _ in range(60)] + ["%s.x %s 1;" % (p, rnd.choice(OPS)) for p in PREFIXES]
    shapes = ["%s %s", "%s do %s end %s", "do %s end %s", "%s if c then %s else %s end %s",
              "%s while c do %s end %s", "%s repeat %s until (function() %s end)()", "%s local g = function() %s end %s",
              "%s for i = 1, 2 do %s %s end", "%s for k, v in pairs(t) do %s end %s", "%s function o:m() %s end %s",
              "%s local function h() %s %s end", "%s t[function() %s end] += 1 %s", "%s return function() %s end",
              "repeat %s %s until (function() %s end)() %s"]
    for _ in range(n):
        shape = rnd.choice(shapes)
        out.append(wrap_fn(shape % tuple(rnd.choice(atoms) for _ in range(shape.count("%s")))))
    return out


def gen_floor(rnd, thorough):
    out = []
    operands = ["a", "1", "f()", "(a // b)", "a // b", "-a", "a + b", "...", "t.x"]
    for l in operands:
        for r in operands:
            out.append(wrap_fn("local q = %s // %s" % (l, r)))
    stm = ["x //= 2", "t.f //= f()", "t[f()] //= 3", "f().x //= a // b", "(t)[(k)] //= 1",
           "t[f()] //= function() y += 1 u[g()] -= 1 z //= 2 end", "t[function() x //= 2 end] //= 1",
           "x += a // b", "t[a // b] *= 2", "t[f()][g()] //= h()"]
    out += [wrap_fn(s) for s in stm]
    for a, b in itertools.product(stm, stm):
        out.append(wrap_fn("%s do %s end" % (a, b)))
    out.append("local v: typeof(a // b) = 1")
    out.append("type T = typeof(a // b)")
    out.append("local r = `x{a // b}`")
    return out


def gen_interp(rnd, thorough):
    out = []
    strs = ["", "a", "%", "100%d", "%%", "\\n", "\\{", "x y"]
    vals = ["x", "1", "nil", "f()", "'s'", "`in{y}`", "a + b", "...", "({})", "true"]
    segs = [("s", s) for s in strs if s] + [("v", v) for v in vals]
    for n in range(0, 4):
        pool = list(itertools.product(segs, repeat=n))
        if len(pool) > (1500 if thorough else 300):
            pool = rnd.sample(pool, 1500 if thorough else 300)
        for combo in pool:
            text = "".join(x if kind == "s" else "{%s}" % x for kind, x in combo)
            out.append(wrap_fn("local r = `%s`" % text))
    return out


NUMBERS = ["0b101", "0B11", "0b1_0", "0b0", "0b11111111111111111111111111111111", "0xFF", "0XfF", "0x_ff", "1_000", "1e3",
           "1E3", "12.5", ".5", "5.", "1e-3", "1_0.5", "0b1111_0000", "0xA", "3"]


def gen_number(rnd, thorough):
    out = ["local r = %s" % n for n in NUMBERS]
    out += ["local r = %s + %s" % (a, b) for a in NUMBERS for b in NUMBERS[:6]]
    out += ["t[%s] = { %s, k = %s }" % (a, a, a) for a in NUMBERS]
    return out


def gen_const(rnd, thorough):
    return ["const K = 1", "const A, B = f()", "local y = 2", "const K = 1 local y = K const Z = y",
            "do const K = 1 end", "local function g() const K = 1 return K end", "for i = 1, 2 do const K = i end",
            "const F = function() const G = 1 end", "const K: number = 1", "if c then const K = 1 else const J = 2 end",
            "repeat const K = 1 until K", "while c do const K = 1 end"]


def gen_types(rnd, thorough):
    base = ["local x: number = 1", "local x = v :: any", "local x = f() :: any", "local x = (f()) :: any",
            "local x = (v :: any) :: number", "local x = (f() :: any) :: number", "local x = ... :: any",
            "local x = -v :: any", "local x = (a + b) :: any", "local x = a + b :: any", "local x = (a and b) :: any",
            "local x = f<<number>>", "local x = f<<number>>(1)", "local x = f<<number>>.y", "f<<number>>(1)",
            "f<<number>>.y = 1", "f<<number>>[1] = 2", "local x = (f<<number>>)", "local x = f<<number>>()<<string>>",
            "local x = f()<<number>>", "local x = (f()<<number>>) :: any", "o:m<<number>>(1)", "local x = o:m<<number>>()",
            "type T = number", "export type U = { x: number }", "type G<T = string> = { T }", "type function tf() end",
            "local function h<T>(a: T, b: string, ...: number): (T, string) return a, b end",
            "function M.f(a: number): number return a end", "function M:g<T...>(...: T...): ...any return ... end",
            "local g = function<T>(a: T): T return a end", "for i: number = 1, 2 do end",
            "for k: string, v: number in pairs(t) do end", "local a: number, b: string = 1, 's'",
            "local x: typeof(v :: any) = 1", "type T = typeof((f() :: any))", "local x = (function(a: number) end) :: any",
            "local x = { (f() :: any) }", "return f() :: any", "t[(k :: number)] = 1", "t[k :: number] += 1",
            "(v :: any).x = 1", "(v :: any)()", "((v :: any) :: T)(1)", "local x = if c then v :: any else w :: T",
            "local x = `a{v :: any}`", "local x = #(v :: any)", "local x = (v :: any) // 2"]
    out = list(base)
    nest = ["do %s end", "if c then %s end", "while c do %s end", "repeat %s until c", "for i = 1, 2 do %s end",
            "local function g() %s end", "local q = function() %s end", "function M.f() %s end", "type function tf() %s end"]
    for b in base:
        out.append(rnd.choice(nest) % b)
        if not b.startswith("return"):
            out.append("%s type X = number %s" % (b, rnd.choice(base)))
    return out


def gen_attribute(rnd, thorough):
    return ["@native local function n() end", "@native function gg() end", "@native function M.f() end",
            "local g = @native function() end", "@[native, deprecated] local function n() end",
            "@native @checked local function n() end", "local function n() @native local function m() end end",
            "do @native function gg() end end", "return @native function() end",
            "local t = { f = @native function() end }", "@native local function n() return @native function() end end",
            "if c then @native function gg() end end", "local function plain() end"]


GENERATORS = {0: gen_if_expression, 1: gen_compound, 2: gen_floor, 3: gen_interp, 4: gen_interp, 5: gen_number,
              6: gen_const, 7: gen_types, 8: gen_attribute}


def slot_sources(rid, rnd, thorough):
    """every construct of the rule in every syntactic slot (templates of vlib/c07.py): the tie of
    the TRAVERSAL model (which positions the visitor reaches, in which role)"""
    from . import c07
    rule = NAMES[rid]
    idx, exprs, stmts, loopers = c07.CONSTRUCTS[rule]
    limit = None if thorough else 60
    out = []
    for k in exprs:
        out += c07.contexts_for_expr(k, True, rnd, limit)
    for k in stmts:
        out += c07.contexts_for_stmt(k, True, rnd, limit)
    return out


def excluded(src):
    """programs outside the models' domain (documented in Model/Lowering.v)"""
    for name in ("local math", "local string", "local tostring", "__DARKLUA_"):
        if name in src:
            return True
    return False


SEARCH_PRELUDE = """local t = { 10, 20, 30, x = 1, a = { b = { c = 1 }, 7 }, s = "s", k1 = 5 }
local function kf() ext_k() return 1 end
local function xf() ext_x() return 2 end
local function af() ext_a() return 3 end
local function bf() ext_b() return 4 end
local function f() ext_f() return 1 end
local function g() ext_g() return 2 end
local function h() ext_h() return 3 end
local k, x, y, a, b, c, d, p, q, v, z = 1, 2, 3, 4, 5, true, false, true, nil, 6, 7
local o = { m = function(self) ext_m() return t end }
local M = {}
"""

SEARCH_PREAMBLE = """From Coq Require Import ZArith.
From DL Require Import Lib.Bytes Lib.F64 Lua.Syntax Lua.Sem Lua.RunCheck.
Open Scope N_scope.
Open Scope string_scope.
Definition bx := unhex.
Definition nm := of_string.
Definition stat_case (c : block * block) : N := compare_all 300%nat (fst c) (snd c).
"""


def search_failing_input(prop, bad_jobs):
    """For programs on which model and code disagree: make the program observable (bind its free
    names, make sub-expressions effectful, call the wrapper) and compare the runs of the input
    and of the REAL rule's output in the reference interpreter.  Returns (rules, source) of a
    program whose behaviour the rule changed, or None."""
    import re
    cands = []
    for ids, rules, src in bad_jobs[:12]:
        if 4 in ids:
            continue            # `%*` is Luau-only by design
        body = src + ("\nreturn w(1, 2)" if src.startswith("local function w(") else "")
        variants = [body]
        for pat, rep in ((r"\bk\b", "kf()"), (r"\bx\b", "xf()"), (r"\ba\b", "af()"), (r"\bb\b", "bf()")):
            v = re.sub(pat, rep, body)
            if v != body:
                variants.append(v)
        for v in variants:
            cands.append((rules, SEARCH_PRELUDE + v))
    if not cands:
        return None
    stdin = "".join("%s\t%s\t%s\n" % (r, '"dense"', s.encode().hex()) for r, s in cands)
    out = C.harness("dl-rules", ["apply-batch"], input=stdin, timeout=600)
    cases, index = [], {}
    for (rules, src), line in zip(cands, out.splitlines()):
        parts = line.split("\t")
        if len(parts) != 4 or parts[0].startswith("ERR:") or parts[1].startswith("ERR:"):
            continue
        k = len(cases)
        index[k] = (rules, src)
        cases.append((k, "(%s, %s)" % (parts[0], parts[1])))
    if not cases:
        return None
    stats = C.run_coq_stats(prop, SEARCH_PREAMBLE, cases, chunk=4, tag="local_search")
    for k in sorted(stats):
        if stats[k] == 2:
            return index[k]
    return None


def run_stream(ctx, prop):
    """Returns the number of mismatching cases (after recording stream + violation)."""
    rnd = random.Random(ctx.seed ^ 0x10ca1)
    thorough = ctx.tier != "quick"
    jobs = []  # (rule ids, rules json, source)
    for rid, gen in GENERATORS.items():
        srcs = gen(rnd, thorough) + slot_sources(rid, rnd, thorough)
        for s in srcs:
            if not excluded(s):
                jobs.append(((rid,), RULES[rid], s))
    # compositions: all modelled rules, random order, on programs mixing constructs
    mixed = []
    for rid, gen in GENERATORS.items():
        if rid != 4:
            pool = [s for s in gen(rnd, False) if not excluded(s)]
            mixed.append((rid, pool))
    for _ in range(400 if thorough else 80):
        order = [0, 1, 2, 3, 5, 6, 7, 8]
        rnd.shuffle(order)
        body = "\n".join(rnd.choice(pool) for _, pool in rnd.sample(mixed, 3))
        rules = "[" + ", ".join(RULES[r][1:-1] for r in order) + "]"
        jobs.append((tuple(order), rules, body))
    seen, uniq = set(), []
    for j in jobs:
        if (j[0], j[2]) not in seen:
            seen.add((j[0], j[2]))
            uniq.append(j)
    jobs = uniq
    stdin = "".join("%s\t%s\t%s\n" % (r, '"dense"', s.encode().hex()) for _, r, s in jobs)
    out = C.harness("dl-rules", ["apply-batch"], input=stdin, timeout=1800)
    lines = out.splitlines()
    if len(lines) != len(jobs):
        raise C.CheckBroken("apply-batch returned %d lines for %d jobs" % (len(lines), len(jobs)))
    cases, index, unparsable, rule_errors = [], {}, 0, []
    for job, line in zip(jobs, lines):
        t_in, t_out, _t_e2e, _text = line.split("\t")
        if t_in.startswith("ERR:"):
            unparsable += 1
            continue
        if t_out.startswith("ERR:"):
            rule_errors.append((job, t_out))
            continue
        k = len(cases)
        index[k] = job
        cases.append((k, "([%s], (%s, %s))" % ("; ".join(str(r) for r in job[0]), t_in, t_out)))
    if unparsable > len(jobs) // 10:
        raise C.CheckBroken("%d of %d templates do not parse" % (unparsable, len(jobs)))
    stats = C.run_coq_stats(prop, PREAMBLE, cases, chunk=120, tag="local")
    changed = [k for k, v in stats.items() if v == 0]
    same = [k for k, v in stats.items() if v == 1]
    bad = sorted(k for k, v in stats.items() if v == 2)
    per_rule = {}
    for k in changed:
        for r in set(index[k][0]):
            per_rule[NAMES[r]] = per_rule.get(NAMES[r], 0) + 1
    ctx.stream("local rewrites: model of the rule (Model/Lowering.v + Model/Visit.v) vs the rule applied to the tree",
               len(cases), len({index[k][2] + index[k][1] for k in changed}),
               [{"rules": index[k][1], "source": index[k][2]} for k in changed[:3]],
               equal_and_changed=len(changed), equal_and_unchanged=len(same), mismatches=len(bad),
               unparsable_templates=unparsable, rule_errors=len(rule_errors), changed_per_rule=per_rule)
    if bad:
        job = index[bad[0]]
        found = search_failing_input(prop, [index[k] for k in bad])
        if found is not None:
            ctx.violation("the rule changes the behaviour of a program (found while searching around the programs on "
                          "which the rule's output differs from the model's: %d of %d)" % (len(bad), len(cases)),
                          {"rules": found[0], "source": found[1], "stream": "local rewrites model-vs-code + reference runs",
                           "replay": "darklua process with these rules on this source; compare runs with Lua/RunCheck.v compare_all",
                           "model_mismatch_on": {"rules": job[1], "source": job[2]}})
        else:
            ctx.violation("correspondence broken: the rule's output differs from the model's on %d of %d programs "
                          "(the theorems about the model no longer describe the code)" % (len(bad), len(cases)),
                          {"rules": job[1], "source": job[2], "stream": "local rewrites model-vs-code",
                           "others": [{"rules": index[k][1], "source": index[k][2]} for k in bad[1:6]]},
                          found_input=False)
    return len(bad)
