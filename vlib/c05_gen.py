"""C05 - generation of module graphs (projects), of the reference program (the entry run with a
standard `require` written in Lua) and of the graph abstraction given to the Coq model.

A project is a dict
  files      {path: text}
  entry      path
  mode       "path" | "luau"
  excludes   [glob]
  reference  Lua text
  graph      {path: ("lua", [site...], returns) | ("data",) | ("broken",)}   site = resolved path | ("nf", literal)
  roots      [site...]                      call sites of the entry, in textual order
  features   set of strings (what the project exercises)
"""
import json
import posixpath
import random

# ---------------------------------------------------------------------------------------------
# resolution: the contract of src/rules/require/{path_locator,luau_path_locator,path_iterator}.rs
# for relative requires (validated on every run by the behaviour comparison and by the shape check)


def candidates(path, mfn="init"):
    out = [path]
    base = posixpath.basename(path)
    ext = base.rsplit(".", 1)[1] if "." in base.strip(".") and not base.startswith(".") else None
    if ext in ("lua", "luau"):
        return out
    out.append(path + ".luau")
    out.append(path + ".lua")
    out.append(path + "/" + mfn)
    if "." not in mfn:
        out.append(path + "/" + mfn + ".luau")
        out.append(path + "/" + mfn + ".lua")
    return out


def resolve(mode, source, literal, files, mfn="init", aliases=None):
    """aliases: {name: directory (project path)} - `sources` of the path mode / `aliases` of the luau mode,
    already joined with the project location (the directory of the entry)"""
    if not (literal.startswith("./") or literal.startswith("../") or literal in (".", "..")):
        head, _, rest = literal.partition("/")
        if mode == "luau" and head == "@self":
            path = posixpath.normpath(posixpath.join(posixpath.dirname(source), rest))
        elif aliases and head in aliases and (mode == "path" or head.startswith("@")):
            path = posixpath.normpath(posixpath.join(aliases[head], rest))
        else:
            return None
        for c in candidates(path, mfn):
            if c in files:
                return c
        return None
    base = posixpath.dirname(source)
    stem = posixpath.basename(source).split(".")[0]
    if mode == "luau" and stem == "init":
        base = posixpath.dirname(base)
    path = posixpath.normpath(posixpath.join(base, literal))
    if path.startswith(".."):
        return None
    for c in candidates(path, mfn):
        if c in files:
            return c
    return None


def spellings(mode, source, target, files, aliases=None):
    """several literals that resolve from `source` to `target`, checked with resolve()"""
    base = posixpath.dirname(source)
    stem = posixpath.basename(source).split(".")[0]
    if mode == "luau" and stem == "init":
        base = posixpath.dirname(base)
    rel = posixpath.relpath(target, base or ".")
    rel = rel if rel.startswith("..") else "./" + rel
    out = [rel]
    tbase = posixpath.basename(target)
    if tbase.endswith(".lua") or tbase.endswith(".luau"):
        noext = rel.rsplit(".", 1)[0]
        out.append(noext)
        if tbase.split(".")[0] == "init":
            out.append(posixpath.dirname(noext) if posixpath.dirname(noext) not in ("", ".") else noext)
    # a detour through a sibling directory that exists lexically
    first = rel.split("/", 1)
    if rel.startswith("./") and len(first) == 2:
        out.append("./pad/../" + first[1])
        out.append("././" + first[1])
    elif rel.startswith("../"):
        out.append("./" + rel)
    for name, d in (aliases or {}).items():
        if target.startswith(d + "/"):
            r = target[len(d) + 1:]
            out.append(name + "/" + r)
            if r.endswith(".lua") or r.endswith(".luau"):
                out.append(name + "/" + r.rsplit(".", 1)[0])
    if mode == "luau" and target.startswith(posixpath.dirname(source) + "/"):
        out.append("@self/" + target[len(posixpath.dirname(source)) + 1:])
    good = []
    for s in out:
        if s not in good and resolve(mode, source, s, files, aliases=aliases) == target:
            good.append(s)
    return good


# ---------------------------------------------------------------------------------------------
# data documents


def lua_string(s):
    out = ['"']
    for ch in s:
        o = ord(ch)
        if ch == '"':
            out.append('\\"')
        elif ch == "\\":
            out.append("\\\\")
        elif ch == "\n":
            out.append("\\n")
        elif o < 32 or o > 126:
            for b in ch.encode("utf-8"):
                out.append("\\%03d" % b)
        else:
            out.append(ch)
    out.append('"')
    return "".join(out)


def is_ident(k):
    return k.isidentifier() and k.isascii() and k not in (
        "and", "break", "do", "else", "elseif", "end", "false", "for", "function", "if", "in", "local", "nil", "not",
        "or", "repeat", "return", "then", "true", "until", "while", "continue", "type", "export")


class Datetime:
    """a TOML date / time / datetime: darklua gives the table { ["$__toml_private_datetime"] = "<text>" }"""
    KEY = "$__toml_private_datetime"

    def __init__(self, text):
        self.text = text


class Spelled:
    """a string value written in the data file with a given raw spelling (multi-line TOML strings, YAML
    block scalars with CRLF line ends): `value` is what the unchanged tree reads"""

    def __init__(self, value, spelling):
        self.value = value
        self.spelling = spelling


def special_float(v):
    return isinstance(v, float) and (v != v or v in (float("inf"), float("-inf")))


def to_lua(doc):
    if doc is None:
        return "nil"
    if isinstance(doc, Datetime):
        return "{[%s] = %s}" % (lua_string(Datetime.KEY), lua_string(doc.text))
    if isinstance(doc, Spelled):
        return lua_string(doc.value)
    if special_float(doc):
        return "(0/0)" if doc != doc else ("(1/0)" if doc > 0 else "(-1/0)")
    if doc is True:
        return "true"
    if doc is False:
        return "false"
    if isinstance(doc, (int, float)):
        return repr(doc) if doc >= 0 else "(%r)" % doc
    if isinstance(doc, str):
        return lua_string(doc)
    if isinstance(doc, list):
        # Lua/DataSpec.v (C14 specification, VD_seq): element i (0-based) is under the key i + 1 and a null
        # element is an absent key - written with explicit keys so that the reference does not depend on
        # how a constructor with nil positional entries is written or read
        return "{" + ", ".join("[%d] = %s" % (i + 1, to_lua(v)) for i, v in enumerate(doc) if v is not None) + "}"
    return "{" + ", ".join("[%s] = %s" % (lua_string(k), to_lua(v)) for k, v in doc.items()) + "}"


def to_json5(doc, rnd):
    if isinstance(doc, dict):
        parts = []
        for k, v in doc.items():
            key = k if is_ident(k) and rnd.random() < 0.6 else ("'%s'" % k if "'" not in k and "\\" not in k and rnd.random() < 0.5 else json.dumps(k))
            parts.append("%s: %s" % (key, to_json5(v, rnd)))
        return "{ " + ", ".join(parts) + (", " if parts and rnd.random() < 0.5 else " ") + "}"
    if isinstance(doc, list):
        parts = [to_json5(v, rnd) for v in doc]
        return "[" + ", ".join(parts) + ("," if parts and rnd.random() < 0.5 else "") + "]"
    if isinstance(doc, str) and "'" not in doc and "\\" not in doc and "\n" not in doc and doc.isascii() and rnd.random() < 0.5:
        return "'%s'" % doc
    if isinstance(doc, int) and not isinstance(doc, bool) and doc >= 0 and rnd.random() < 0.3:
        return "+%d" % doc if rnd.random() < 0.5 else "0x%X" % doc
    return json.dumps(doc)


def yaml_scalar(v, k=0):
    if v is None:
        return ["null", "~", "Null", ""][k % 4]
    return json.dumps(v)           # JSON scalars are YAML flow scalars (true, 1.5, "a\nb")


def to_yaml(doc):
    """block style at the top, flow (JSON) style below"""
    if isinstance(doc, list):
        # a top-level sequence in block style
        return "\n".join("- %s" % (yaml_scalar(x, i) if not isinstance(x, (dict, list)) else json.dumps(x))
                         for i, x in enumerate(doc)).replace("- \n", "-\n") + "\n"
    if isinstance(doc, dict):
        lines = []
        for k, v in doc.items():
            key = k if is_ident(k) else json.dumps(k)
            if isinstance(v, list) and v and all(not isinstance(x, (dict, list)) for x in v):
                lines.append("%s:" % key)
                for i, x in enumerate(v):
                    lines.append(("  - %s" % yaml_scalar(x, i + len(lines))).rstrip())
            elif isinstance(v, dict) and v and all(not isinstance(x, (dict, list)) for x in v.values()):
                lines.append("%s:" % key)
                for kk, x in v.items():
                    lines.append("  %s: %s" % (kk if is_ident(kk) else json.dumps(kk), yaml_scalar(x)))
            else:
                lines.append("%s: %s" % (key, json.dumps(v)))
        return "\n".join(lines) + "\n"
    return json.dumps(doc) + "\n"


def toml_value(v, k=0):
    if isinstance(v, bool):
        return "true" if v else "false"
    if isinstance(v, Datetime):
        return v.text
    if isinstance(v, Spelled):
        return v.spelling
    if special_float(v):
        return ["nan", "+nan", "-nan"][k % 3] if v != v else (["inf", "+inf"][k % 2] if v > 0 else "-inf")
    if isinstance(v, (int, float)):
        return repr(v)
    if isinstance(v, str):
        return json.dumps(v)
    if isinstance(v, list):
        return "[" + ", ".join(toml_value(x, i) for i, x in enumerate(v)) + "]"
    return "{ " + ", ".join("%s = %s" % (kk if is_ident(kk) else json.dumps(kk), toml_value(x, i)) for i, (kk, x) in enumerate(v.items())) + " }"


def to_toml(doc):
    lines, tables = [], []
    for k, v in doc.items():
        key = k if is_ident(k) else json.dumps(k)
        if isinstance(v, dict) and v:
            tables.append((key, v))
        else:
            lines.append("%s = %s" % (key, toml_value(v, len(lines))))
    for key, v in tables:
        lines.append("")
        lines.append("[%s]" % key)
        for kk, x in v.items():
            lines.append("%s = %s" % (kk if is_ident(kk) else json.dumps(kk), toml_value(x, len(lines))))
    return "\n".join(lines) + "\n"


def gen_scalar(rnd, nulls):
    pool = [lambda: rnd.randint(-5, 120), lambda: rnd.choice([0.5, 1.25, -2.5, 100.125]),
            lambda: rnd.choice(["", "x", "hello world", 'q"uote', "line\nbreak", "café", "tab\there", "back\\slash", "]]"]),
            lambda: rnd.random() < 0.5]
    if nulls and rnd.random() < 0.15:
        return None
    return rnd.choice(pool)()


HOLES = [[1, None, 3], [None, True], [10, None, None, 40], ["a", None, "c", None, "e"], [None, None, 7],
         [[1, None, 3], None, [None, 2]], [{"k": [None, "v"]}, None, {"k": 2}], [False, None, 0]]


def holes_doc(rnd, marker, top_array=False):
    """sequences with nulls that are not last, also nested in mappings and sequences"""
    if top_array:
        return [marker] + rnd.choice([[None, 3], [None, None, "x", None, True], [[None, 1], None, {"a": [None, 2]}]])
    doc = {"_p": marker}
    for k in rnd.sample(["seq", "lead", "many", "b c", "z"], 3):
        doc[k] = rnd.choice(HOLES)
    doc["nested"] = {"in": rnd.choice(HOLES), "x": rnd.choice([None, 1])}
    return doc


def gen_doc(rnd, fmt, marker):
    nulls = fmt != "toml"
    keys = ["a", "b", "name", "list", "nested", "b c", "1x", "end", "z_9", "v"]
    rnd.shuffle(keys)
    doc = {"_p": marker}
    for k in keys[:rnd.randint(1, 4)]:
        r = rnd.random()
        if r < 0.5:
            doc[k] = gen_scalar(rnd, nulls)
        elif r < 0.75:
            kind = rnd.randrange(4)
            n = rnd.randint(0, 3)
            if fmt == "toml" or kind:      # homogeneous arrays for toml
                doc[k] = [[rnd.randint(0, 9) for _ in range(n)], ["s%d" % i for i in range(n)], [True, False][:n],
                          [0.5 * i for i in range(n)]][kind]
            else:
                doc[k] = [gen_scalar(rnd, nulls) for _ in range(n)]
        else:
            sub = {}
            for kk in rnd.sample(["x", "y", "k k", "deep"], rnd.randint(1, 3)):
                sub[kk] = gen_scalar(rnd, nulls) if rnd.random() < 0.8 else ([1, 2] if fmt == "toml" else [1, "two"])
            doc[k] = sub
    if nulls and rnd.random() < 0.5:
        doc["holes"] = rnd.choice(HOLES)
    return doc


def index_expr(k):
    return "." + k if isinstance(k, str) and is_ident(k) else "[%s]" % (lua_string(k) if isinstance(k, str) else k)


def doc_probes(doc, acc):
    """Lua expressions reading every leaf of the document from the accessor expression `acc`
    (null leaves read as nil on both sides); tables are also probed by their number of keys"""
    out = []

    def walk(d, e):
        if isinstance(d, dict):
            out.append("nkeys(%s)" % e)
            for k, v in d.items():
                walk(v, e + index_expr(k))
        elif isinstance(d, list):
            out.append("type(%s)" % e)
            if None not in d:
                out.append("#%s" % e)          # unambiguous: no hole
            for i, v in enumerate(d):
                walk(v, e + "[%d]" % (i + 1))
            out.append("%s[%d]" % (e, len(d) + 1))
        elif isinstance(d, Spelled):
            out.append(e)
            out.append("#%s" % e)
            out.append("(%s == %s)" % (e, lua_string(d.value)))
        elif isinstance(d, Datetime):
            out.append("nkeys(%s)" % e)
            out.append("%s[%s]" % (e, lua_string(Datetime.KEY)))
        elif special_float(d):
            # observed by comparison: x == 1/0, x == -1/0, x ~= x (NaN), and its type
            out.append("type(%s)" % e)
            out.append("(%s == 1/0)" % e)
            out.append("(%s == -1/0)" % e)
            out.append("(%s ~= %s)" % (e, e))
        else:
            out.append(e)
    walk(doc, acc)
    return out


DATA_FORMATS = ["json", "json5", "yaml", "yml", "toml", "txt"]


def toml_specials_doc(rnd, marker):
    """TOML 1.0 special floats (inf, +inf, -inf, nan), also in arrays and tables; dates and times;
    integers that binary64 cannot hold exactly"""
    inf, nan = float("inf"), float("nan")
    doc = {"_p": marker, "pinf": inf, "ninf": -inf, "notnum": nan,
           "values": rnd.choice([[1.0, inf, 2.5], [inf, -inf], [nan, 1.5, inf], [0.5, -inf, nan, 4.0]]),
           "big": rnd.choice([9007199254740993, 9223372036854775807, 4503599627370497 * 4 + 1]),
           "neg": rnd.choice([-9223372036854775808, -9007199254740993]),
           "when": Datetime(rnd.choice(["1979-05-27T07:32:00Z", "1979-05-27T00:32:00-07:00", "1979-05-27T07:32:00.999"])),
           "day": Datetime("1979-05-27"), "clock": Datetime("07:32:00"),
           "t": {"x": rnd.choice([-inf, inf, nan]), "arr": rnd.choice([[nan, 1.5], [1.0, inf]]), "plain": 2.5,
                 "dates": [Datetime("2000-01-01"), Datetime("2000-01-02")]},
           "inl": {"deep": {"v": inf, "w": [nan]}},
           # multi-line strings whose line ends are CRLF: the unchanged tree keeps the `\r` (the first newline is
           # trimmed, a line-ending backslash eats the break and the indentation)
           "ml": Spelled("first\r\nsecond\r\n", '"""\r\nfirst\r\nsecond\r\n"""'),
           "lit": Spelled("lit\r\nx", "'''\r\nlit\r\nx'''"),
           "cont": Spelled("one two", '"""one \\\r\n   two"""'),
           "cr": Spelled("a\rb\r\n", '"a\\rb\\r\\n"')}
    return doc


TXT_BYTES = [
    "line1\r\nline2\r\n",                      # CRLF
    "a\rb\rc",                                  # lone CR
    "a\n\rb\n\r",                              # LF CR
    "first\r\nlast line without newline",       # CRLF inside, no final newline
    "ends with CRLF\r\n",                       # trailing CRLF
    "\r\n",                                     # only a CRLF
    "\r\n\r\n\r\r\n\n",                       # runs
    "nul\x00 soh\x01 bel\x07 esc\x1b del\x7f\r\n",  # NUL and other control bytes
    "caf\u00e9 \u20ac \U0001F600\r\n\ttab",         # multi-byte UTF-8 next to CRLF
    "x\r\r\ny \\r\\n literal backslashes\r",   # CR CR LF, backslash sequences that are not line ends
]


def make_data(rnd, fmt, path, holes=None):
    """(file text, python value) - the value a require of the file must give.
    holes: None | "map" | "array" - a document made of sequences with interior nulls"""
    marker = "@@" + path
    if fmt == "txt" and holes and holes.startswith("txt-bytes:"):
        k = int(holes.split(":")[1])
        body = TXT_BYTES[k % len(TXT_BYTES)]
        # a byte order mark in front of everything in some files (then the marker is not first)
        text = ("\ufeff" + body + marker) if k % 5 == 3 else (marker + " " + body)
        return text, text
    if fmt == "txt":
        text = marker + rnd.choice(["", "\nsecond line", " \"q\" ]] \\ tail", "\n"])
        return text, text
    if holes == "toml-specials":
        doc = toml_specials_doc(rnd, marker)
        return to_toml(doc), doc
    if holes == "json5-nonfinite":
        doc = {"_p": marker, "a": float("inf"), "b": [1, float("-inf")], "c": float("nan")}
        return '{ _p: "%s", a: Infinity, b: [1, -Infinity], c: NaN }\n' % marker, doc
    if holes == "yaml-specials":
        doc = {"_p": marker, "a": float("inf"), "b": float("-inf"), "c": float("nan"), "d": [1, float("inf"), 2.5],
               "e": 9007199254740993, "f": 18446744073709551615, "blk": Spelled("first\nsecond\n", ""),
               "fold": Spelled("folded text\n", ""), "esc": Spelled("x\r\ny", "")}
        return ('_p: "%s"\na: .inf\nb: -.inf\nc: .nan\nd: [1, .inf, 2.5]\ne: 9007199254740993\nf: 18446744073709551615\n'
                'blk: |\r\n  first\r\n  second\r\nfold: >\r\n  folded\r\n  text\r\nesc: "x\\r\\ny"\r\n' % marker), doc
    doc = holes_doc(rnd, marker, holes == "array") if holes else gen_doc(rnd, fmt, marker)
    if fmt == "json":
        return json.dumps(doc, indent=rnd.choice([None, 1])), doc
    if fmt == "json5":
        return "// data\n" + to_json5(doc, rnd) + rnd.choice(["", "\n", " // end\n", "\n/* block */\n"]), doc
    if fmt in ("yaml", "yml"):
        return to_yaml(doc), doc
    return to_toml(doc), doc


# ---------------------------------------------------------------------------------------------
# Lua modules

VTYPES = ["table", "table", "table", "func", "func", "string", "number", "false", "true"]

LAYOUT_DIRS = ["src", "src/lib", "src/lib/deep", "src/util"]

REQUIRE_SPELL = ['require("%s")', "require('%s')", 'require "%s"', "require [[%s]]", 'require( "%s" )']


class Mod:
    def __init__(self, idx, path, kind, vtype=None):
        self.idx = idx
        self.path = path
        self.kind = kind            # "lua" | "data"
        self.vtype = vtype          # for lua: value type; for data: "data"
        self.deps = []              # indexes (targets)
        self.text = None
        self.sites = []             # graph abstraction: resolved path or ("nf", literal)
        self.doc = None
        self.returns = 1


def show(m, x):
    """a Lua expression (string or number valued, error free) revealing the value `x` of module m
    and advancing its state when it has one"""
    t = m.vtype
    if t == "table":
        return '(%s.name .. "#" .. %s.inc() .. %s.deps())' % (x, x, x)
    if t == "func":
        return '("f" .. %s())' % x
    if t == "string":
        return x
    if t == "number":
        return "(%s + 0)" % x
    if t == "data":
        if isinstance(m.doc, str):
            return x
        if isinstance(m.doc, list):
            return '(type(%s) .. %s[1])' % (x, x)
        return '(type(%s) .. %s._p)' % (x, x)
    return "tostring(%s)" % x       # false / true / nil


class Emitter:
    """emits the statements of one file; records call sites in textual order"""

    def __init__(self, proj, rnd, source, is_entry):
        self.p = proj
        self.rnd = rnd
        self.source = source
        self.is_entry = is_entry
        self.lines = []
        self.sites = []
        self.rtab = {}              # literal -> resolved (reference resolution table of this file)
        self.k = 0

    def req(self, target, count_site=True):
        """text of a require call of `target` (a Mod); registers the site"""
        sp = spellings(self.p["mode"], self.source, target.path, self.p["files"], self.p.get("aliases"))
        forced = self.p.get("force_literal", {}).get((self.source, target.path))
        if forced is not None:
            assert resolve(self.p["mode"], self.source, forced, self.p["files"], aliases=self.p.get("aliases")) == target.path, \
                (self.source, forced, target.path)
            sp = [forced]
        lit = self.rnd.choice(sp)
        if not lit.startswith("."):
            self.p["features"].add("alias-or-self-spelling")
        if len(sp) > 1:
            self.p["features"].add("several-spellings")
        self.rtab[lit] = target.path
        if count_site:
            self.sites.append(target.path)
        form = self.rnd.choice(REQUIRE_SPELL if "]]" not in lit else REQUIRE_SPELL[:3])
        return form % lit

    def bind(self, target, simple=False):
        """statements binding the value of `target`; returns the accessor expression"""
        self.k += 1
        k = self.k
        d = "d%d" % k
        rnd = self.rnd
        styles = ["plain", "plain", "lazy", "paren", "tab1", "select", "stmt", "ifblock", "iife", "field", "loop",
                  "ident", "twice", "dostmt", "andor", "typed"]
        if target.vtype == "table" and not simple:
            styles += ["prefix", "prefixcall"]
        if target.vtype == "func" and not simple:
            styles += ["callnow"]
        st = rnd.choice(styles)
        self.p["features"].add("style:" + st)
        L = self.lines
        if st == "plain":
            L.append("local %s = %s" % (d, self.req(target)))
        elif st == "lazy":
            L.append("local function get%d() return %s end" % (k, self.req(target)))
            self.p["nested"] = True
            return "get%d()" % k
        elif st == "paren":
            L.append("local %s = (%s)" % (d, self.req(target)))
        elif st == "tab1":
            L.append("local t%d = { %s }" % (k, self.req(target)))
            return "t%d[1]" % k
        elif st == "select":
            L.append("local %s = select(1, %s)" % (d, self.req(target)))
            self.p["nested"] = True
        elif st == "stmt":
            L.append(self.req(target))
            L.append("local %s = %s" % (d, self.req(target)))
        elif st == "ifblock":
            L.append("local %s" % d)
            L.append("if count == 0 then %s = %s else %s = nil end" % (d, self.req(target), d))
            self.p["nested"] = True
        elif st == "iife":
            L.append("local %s = (function() return %s end)()" % (d, self.req(target)))
            self.p["nested"] = True
        elif st == "field":
            L.append("local t%d = { v = %s, [2] = 0 }" % (k, self.req(target)))
            return "t%d.v" % k
        elif st == "loop":
            L.append("local %s" % d)
            L.append("for i = 1, 2 do %s = %s end" % (d, self.req(target)))
            self.p["nested"] = True
        elif st == "ident":
            L.append("local function id%d(...) return ... end" % k)
            L.append("local %s = id%d(%s)" % (d, k, self.req(target)))
            self.p["nested"] = True
        elif st == "twice":
            a = self.req(target)
            b = self.req(target)
            L.append("local %s, e%d = %s, %s" % (d, k, a, b))
            L.append("local same%d = rawequal(%s, e%d)" % (k, d, k))
            self.extra_shows.append("tostring(same%d)" % k)
        elif st == "dostmt":
            L.append("local %s" % d)
            L.append("do local inner = %s %s = inner end" % (self.req(target), d))
        elif st == "andor":
            L.append("local %s = count == 0 and %s or nil" % (d, self.req(target)))
            if target.vtype == "false":
                return "(%s == nil)" % d
        elif st == "typed":
            if self.source.endswith(".luau"):
                L.append("local %s: any = %s :: any" % (d, self.req(target)))
            else:
                L.append("local %s = %s" % (d, self.req(target)))
        elif st == "prefix":
            L.append("local n%d = %s.name" % (k, self.req(target)))
            L.append("local %s = %s" % (d, self.req(target)))
            self.extra_shows.append("n%d" % k)
            self.p["nested"] = True
        elif st == "prefixcall":
            L.append("local c%d = %s.inc()" % (k, self.req(target)))
            L.append("local %s = %s" % (d, self.req(target)))
            self.extra_shows.append("c%d" % k)
            self.p["nested"] = True
        elif st == "callnow":
            L.append("local r%d = %s()" % (k, self.req(target)))
            L.append("local %s = %s" % (d, self.req(target)))
            self.extra_shows.append("r%d" % k)
            self.p["nested"] = True
        return d


def lua_module_text(proj, rnd, m, mods):
    em = Emitter(proj, rnd, m.path, False)
    em.extra_shows = []
    L = em.lines
    short = posixpath.basename(m.path).split(".")[0] + str(m.idx)
    L.append('local _P = "@@%s"' % m.path)
    L.append("local count = 0")
    L.append('local name = "%s"' % short)
    if m.path.endswith(".luau") and rnd.random() < 0.4:
        L.append("export type Item%d = { id: number }" % m.idx)
        L.append("type Private = string")
        proj["features"].add("types")
    shadow = None
    if proj.get("shadow_module") == m.idx:
        # the module has its own `require`: its calls are not requires of files
        shadow = rnd.choice(["local", "param"])
    accs = []
    if shadow == "local":
        L.append('local require = function(n) return "mine:" .. n end')
        proj["features"].add("module-shadows-require")
    for t in m.deps:
        accs.append((mods[t], em.bind(mods[t], simple=(shadow == "local"))))
    if shadow == "param":
        tgt = mods[m.deps[0]] if m.deps else None
        lit = None
        if tgt is not None:
            lit = spellings(proj["mode"], m.path, tgt.path, proj["files"])[0]
            em.sites.append(tgt.path)       # the bundler inlines it although `require` is a parameter here
        else:
            lit = "./nowhere"
            em.sites.append(("nf", lit))
        L.append('local function with(require) return require("%s") end' % lit)
        L.append('local mine = with(function(n) return "param:" .. n end)')
        em.extra_shows.append("mine")
        proj["features"].add("module-shadows-require")
    if shadow == "local":
        # under the module's own require every accessor is a string "mine:<literal>"
        accs = [(None, a) for _, a in accs]
    if rnd.random() < 0.3:
        L.append("shared_loads = (shared_loads or 0) + 1")
        proj["features"].add("global-counter")
    L.append("local function bump() count = count + 1 return count end")
    if proj.get("crlf_modules"):
        # (no long string spanning lines here: darklua's reader keeps the CR LF of such a string, Lua reads LF -
        # reported to C13; the comparison must not depend on it)
        L.append("local banner = [[first second]] -- one line")
        em.extra_shows.append("(#banner .. banner)")
    if rnd.random() < 0.3:
        # a global named like other modules' locals must not be visible here
        L.append("local leak = tostring(_P2) .. tostring(secret)")
    L.append("local secret = %d" % (m.idx * 7))

    def dep_shows():
        parts = []
        for tm, a in accs:
            parts.append("tostring(%s)" % a if tm is None else show(tm, a))
        parts += em.extra_shows
        return parts

    at_load = None
    if accs and rnd.random() < 0.5:
        at_load = ' .. "," .. '.join("tostring(%s)" % s for s in dep_shows())
        L.append("local at_load = %s" % at_load)
        proj["features"].add("load-time-use")
    shows = dep_shows() + (["at_load"] if at_load else [])
    joined = ' .. "|" .. '.join("tostring(%s)" % s for s in shows) if shows else '""'
    t = m.vtype
    if proj.get("excluded") and rnd.random() < 0.5 and t in ("table", "func"):
        lit = rnd.choice(proj["excluded"])
        L.append("local function outside() return require(%s) end" % lua_string(lit))
        joined += ' .. tostring(outside())'
        proj["features"].add("excluded-in-module")
    if t == "table":
        L.append("return {")
        L.append("  name = name,")
        L.append("  inc = bump,")
        L.append('  deps = function() return "<" .. %s .. ">" end,' % joined)
        L.append("}")
    elif t == "func":
        L.append('return function() count = count + 1 return name .. count .. "<" .. %s .. ">" end' % joined)
    elif t == "string":
        L.append('return name .. "/" .. %s' % joined)
    elif t == "number":
        L.append("return %d + #(%s)" % (m.idx * 10, joined))
    elif t == "false":
        L.append("return false")
    elif t == "true":
        L.append("return true")
    else:
        L.append("return nil")
    m.text = "\n".join(L) + "\n"
    if proj.get("crlf_modules") and m.idx % 2 == proj["crlf_modules"] % 2:
        m.text = m.text.replace("\n", "\r\n")
        proj["features"].add("crlf-module")
    m.sites = em.sites
    m.rtab = em.rtab
    return m.text


def entry_text(proj, rnd, m, mods):
    em = Emitter(proj, rnd, m.path, True)
    em.extra_shows = []
    L = em.lines
    fallback = bool(proj.get("excluded")) or proj.get("odd_forms")
    if fallback:
        L.append("_G.require = function(...) return ext_req(...) end")
    L.append("local count = 0")
    L.append("local function nkeys(t) local n = 0 for k in pairs(t) do n = n + 1 end return n end")
    accs = [(mods[t], em.bind(mods[t])) for t in m.deps]
    for tm, a in accs:
        L.append("ext_p(%s)" % show(tm, a))
    for e in em.extra_shows:
        L.append("ext_p(%s)" % e)
    # a second round: state must have advanced identically
    for tm, a in accs:
        if tm.vtype in ("table", "func") and rnd.random() < 0.7:
            L.append("ext_p(%s)" % show(tm, a))
    for tm, a in accs:
        if tm.vtype == "data" and not isinstance(tm.doc, str):
            probes = doc_probes(tm.doc, "dd")
            L.append("do local dd = %s" % a)
            for i in range(0, len(probes), 6):
                L.append("  ext_p(%s)" % ", ".join(probes[i:i + 6]))
            L.append("end")
            proj["features"].add("data:" + tm.path.rsplit(".", 1)[1])
        elif tm.vtype == "data":
            proj["features"].add("data:txt")
            # the required text is the file's content verbatim: its length, every byte, equality with the literal
            L.append("do local tt = %s" % a)
            L.append("  local codes = {}")
            L.append("  for i = 1, #tt do codes[i] = tt:sub(i, i):byte() end")
            L.append('  ext_p(#tt, table.concat(codes, ","), tt == %s, string.sub(tt, -2), tt)' % lua_string(tm.doc))
            L.append("end")
            if "\r" in tm.doc:
                proj["features"].add("txt-with-CR")
    # locals of modules are not visible
    L.append("ext_p(tostring(_P) .. tostring(secret) .. tostring(bump) .. tostring(name) .. tostring(shared_loads))")
    if proj.get("excluded"):
        for lit in proj["excluded"]:
            L.append("ext_p(require(%s))" % lua_string(lit))
        proj["features"].add("excluded")
    if proj.get("odd_forms"):
        proj["features"].add("odd-forms")
        tgt = accs[0][0] if accs else None
        lit = spellings(proj["mode"], m.path, tgt.path, proj["files"])[0] if tgt else "./zzz"
        # method form and field form: not the global `require`, must be left alone
        L.append('local loader = { require = function(self, n) return "L:" .. tostring(n) end }')
        L.append('ext_p(loader:require(%s), loader.require(nil, %s))' % (lua_string(lit), lua_string(lit)))
        # two arguments / non-literal argument / no argument: skipped by the bundler; here with names
        # that do not resolve, so that a standard require and the bundle both reach the host's require
        L.append('ext_p(require("host-lib", 1))')
        L.append('local dyn = "host" .. "-dyn"')
        L.append("ext_p(require(dyn))")
        L.append('ext_p(require("host-a" .. "b"))')
        L.append('ext_p(require({ "x" }))')
        # a parameter / local named require in the entry: tracked by the bundler
        L.append('local function with(require) return require(%s) end' % lua_string(lit))
        L.append('ext_p(with(function(n) return "P:" .. n end))')
        L.append("do")
        L.append('  local require = function(n) return "S:" .. n end')
        L.append("  ext_p(require(%s))" % lua_string(lit))
        L.append("end")
        if tgt is not None:
            L.append("local again = %s" % em.req(tgt))
            L.append("ext_p(%s)" % show(tgt, "again"))
    if rnd.random() < 0.4:
        L.append("return count")
    m.text = "\n".join(L) + "\n"
    if proj.get("crlf_modules") and proj["crlf_modules"] > 1:
        m.text = m.text.replace("\n", "\r\n")
        proj["features"].add("crlf-entry")
    m.sites = em.sites
    m.rtab = em.rtab
    return m.text


REFERENCE_PRELUDE = """local __L, __M, __R = {}, {}, {}
local function __mkreq(from)
  return function(name, ...)
    local key = __R[from][name]
    if key == nil then return _G.require(name, ...) end
    local v = __L[key]
    if v ~= nil then return v end
    v = __M[key](key)
    if v == nil then v = true end
    __L[key] = v
    return v
  end
end
"""


def reference_text(proj, mods):
    out = [REFERENCE_PRELUDE]
    for m in mods:
        rt = getattr(m, "rtab", {}) or {}
        out.append("__R[%s] = { %s }" % (lua_string(m.path), ", ".join("[%s] = %s" % (lua_string(k), lua_string(v))
                                                                         for k, v in sorted(rt.items()))))
    for m in mods[1:]:
        if m.kind == "data":
            out.append("__M[%s] = function() return %s end" % (lua_string(m.path), to_lua(m.doc)))
        else:
            out.append("__M[%s] = function(...) local require = __mkreq(%s)\n%s\nend" % (lua_string(m.path), lua_string(m.path), m.text))
    out.append("local require = __mkreq(%s)" % lua_string(mods[0].path))
    out.append(mods[0].text)
    return "\n".join(out)


def gen_project(rnd, mode=None, n=None, want=None):
    """one acyclic project. `want`: None | "nil" | "shadow" (known-finding classes, kept out of the
    ordinary stream)"""
    mode = mode or rnd.choice(["path", "path", "luau"])
    n = n or rnd.randint(2, 7)
    proj = {"mode": mode, "features": set(), "files": {}, "nested": False, "excludes": [], "excluded": []}
    entry_path = rnd.choice(["src/main.lua", "src/main.lua", "src/main.luau", "src/app/main.lua"])
    mods = [Mod(0, entry_path, "lua", "entry")]
    used = {entry_path}
    names = ["a", "b", "c", "util", "core", "state", "conf", "x1", "mod", "init"]
    dirs = LAYOUT_DIRS
    if want is None and rnd.random() < 0.4:
        # a tiny pool of file names over more directories: equal base names (and equal trailing path
        # components) in different directories are the rule, and requires go through `..`
        names = ["util", "config", "init"]
        dirs = ["src", "src/lib", "src/util", "src/lib/util", "lib", "lib/util", "src/lib/config"]
        proj["features"].add("tiny-name-pool")
    for i in range(1, n):
        for _ in range(50):
            if rnd.random() < 0.22:
                fmt = rnd.choice(DATA_FORMATS)
                path = "%s/%s.%s" % (rnd.choice(LAYOUT_DIRS + ["src/data"]), rnd.choice(["d", "cfg", "strings", "a"]), fmt)
                kind, vt = "data", "data"
            else:
                nm = rnd.choice(names)
                d = rnd.choice(dirs)
                if nm == "init":
                    d = d + "/" + rnd.choice(["pkg", "folder"] if dirs is LAYOUT_DIRS else ["util", "config", "x"])
                path = "%s/%s.%s" % (d, nm, rnd.choice(["lua", "lua", "luau"]))
                kind, vt = "lua", rnd.choice(VTYPES)
            stem = path.rsplit(".", 1)[0]
            # keep resolution unambiguous: one file per stem, no `x.lua` next to `x/init.lua`
            if any(u.rsplit(".", 1)[0] == stem for u in used):
                continue
            if any(u.rsplit(".", 1)[0] == stem + "/init" or stem == u.rsplit(".", 1)[0] + "/init" for u in used):
                continue
            break
        else:
            continue
        used.add(path)
        mods.append(Mod(len(mods), path, kind, vt))
    n = len(mods)
    for m in mods:
        proj["files"][m.path] = ""
    if rnd.random() < 0.35:
        here = posixpath.dirname(entry_path)
        dirs = rnd.sample(["src/lib", "src/util", "src"], 2)
        keys = ["@lib", "@pkg"] if mode == "luau" else ["pkg", "@u"]
        proj["aliases"] = {k: d for k, d in zip(keys, dirs)}
        proj["alias_config"] = {k: rnd.choice(["", "./"]) + posixpath.relpath(d, here) for k, d in zip(keys, dirs)}
    # edges i -> j with j > i (acyclic); every module reachable; shared dependencies favoured
    for j in range(1, n):
        cands = [i for i in range(0, j) if mods[i].kind == "lua"]
        k = 1 if rnd.random() < 0.45 else min(len(cands), rnd.randint(2, 3))
        for i in rnd.sample(cands, k):
            mods[i].deps.append(j)
    for m in mods:
        rnd.shuffle(m.deps)
        if m.kind == "lua" and len(m.deps) > (5 if m.idx == 0 else 3):
            m.deps = m.deps[:(5 if m.idx == 0 else 3)]
    # drop what became unreachable
    seen, todo = set(), [0]
    while todo:
        i = todo.pop()
        if i in seen:
            continue
        seen.add(i)
        todo += mods[i].deps
    indeg = {}
    for i in seen:
        for j in mods[i].deps:
            indeg[j] = indeg.get(j, 0) + 1
    if any(v > 1 for v in indeg.values()):
        proj["features"].add("shared-dependency")
        proj["shared"] = True
    if want == "nil":
        cand = [m for m in mods[1:] if m.kind == "lua" and m.idx in seen]
        if cand:
            rnd.choice(cand).vtype = "nil"
            proj["features"].add("nil-module")
    if want == "shadow":
        cand = [m for m in mods[1:] if m.kind == "lua" and m.idx in seen]
        if cand:
            proj["shadow_module"] = rnd.choice(cand).idx
    if want is None and rnd.random() < 0.3:
        proj["excludes"] = rnd.choice([["@ext/*"], ["**/vendor/**"], ["./lib/skip_*", "@ext/*"]])
        proj["excluded"] = {"@ext/*": ["@ext/net"], "**/vendor/**": ["./vendor/json", "../vendor/x/y"],
                            "./lib/skip_*": ["./lib/skip_me"]}[proj["excludes"][0]]
    if want is None and rnd.random() < 0.3:
        proj["odd_forms"] = True
    if want is None and rnd.random() < 0.2:
        proj["crlf_modules"] = rnd.randint(1, 3)
    for m in mods:
        if m.kind == "data":
            fmt = m.path.rsplit(".", 1)[1]
            m.text, m.doc = make_data(rnd, fmt, m.path)
            proj["files"][m.path] = m.text
    for m in reversed(mods[1:]):
        if m.kind == "lua":
            proj["files"][m.path] = lua_module_text(proj, rnd, m, mods)
    proj["files"][mods[0].path] = entry_text(proj, rnd, mods[0], mods)
    proj["entry"] = mods[0].path
    live = [m for m in mods if m.idx in seen]
    proj["reference"] = reference_text(proj, [mods[0]] + [m for m in mods[1:]])
    proj["graph"] = {}
    for m in mods:
        if m.kind == "data":
            proj["graph"][m.path] = ("data",)
        else:
            proj["graph"][m.path] = ("lua", list(m.sites), 1 if m.idx else None)
    proj["roots"] = list(mods[0].sites)
    proj["modules"] = len(live) - 1
    bases = [posixpath.basename(m.path) for m in live]
    if len(set(bases)) < len(bases):
        proj["features"].add("equal-base-names")
    for m in live:
        if m.idx:
            proj["features"].add("returns:" + m.vtype)
    return proj


def resolution_base(mode, source):
    base = posixpath.dirname(source)
    if mode == "luau" and posixpath.basename(source).split(".")[0] == "init":
        base = posixpath.dirname(base)
    return base


TWIN_VARIANTS = [(rk, tk) for rk in ("plain", "init", "entry", "three") for tk in ("lua-ext", "lua", "luau", "folder", "parent")]


def twin_project(rnd, mode, variant):
    """the SAME relative literal written in files of different directories, where it denotes
    DIFFERENT files: src/a/entry.lua and src/b/entry.lua both `require("./helper")`, with distinct
    src/a/helper.lua and src/b/helper.lua whose exports differ"""
    rk, tk = variant
    proj = {"mode": mode, "features": {"same-literal-different-directories", "twin:%s/%s" % variant}, "files": {},
            "nested": False, "excludes": [], "excluded": [], "shared": True}
    entry = "src/main.lua"
    if rk == "init":
        requirers = ["src/a/pkg/init.lua", "src/b/pkg/init.luau"]
    elif rk == "entry":
        requirers = [entry, "src/lib/user.lua"]
    elif rk == "three":
        requirers = ["src/a/entry.lua", "src/b/entry.luau", "src/a/deep/entry.lua"]
    elif tk == "parent":
        requirers = ["src/a/x/entry.lua", "src/b/x/entry.lua"]
    else:
        requirers = ["src/a/entry.lua", "src/b/entry.lua"]
    literal = {"lua-ext": "./helper.lua", "lua": "./helper", "luau": "./helper", "folder": "./helper", "parent": "../helper"}[tk]
    helpers = []
    for r in requirers:
        base = resolution_base(mode, r)
        if tk == "parent":
            base = posixpath.dirname(base)
        helpers.append(base + {"lua-ext": "/helper.lua", "lua": "/helper.lua", "luau": "/helper.luau",
                               "folder": "/helper/init.lua", "parent": "/helper.lua"}[tk])
    if len(set(helpers)) != len(helpers) or any(h in requirers for h in helpers) or any(not h.startswith("src/") for h in helpers):
        return None
    mods = [Mod(0, entry, "lua", "entry")]
    index = {entry: 0}
    for path in requirers + helpers:
        if path not in index:
            index[path] = len(mods)
            mods.append(Mod(len(mods), path, "lua", rnd.choice(["table", "func", "string", "table"])))
    for r in requirers:
        if r != entry:
            mods[0].deps.append(index[r])
    proj["force_literal"] = {}
    for r, h in zip(requirers, helpers):
        mods[index[r]].deps.append(index[h])
        proj["force_literal"][(r, h)] = literal
    # the helper of the first directory is also required by the entry under another spelling in some projects
    if rnd.random() < 0.5 and entry not in requirers:
        mods[0].deps.append(index[helpers[-1]])
    if rnd.random() < 0.5:
        rnd.shuffle(mods[0].deps)
    for m in mods:
        proj["files"][m.path] = ""
    for m in reversed(mods[1:]):
        proj["files"][m.path] = lua_module_text(proj, rnd, m, mods)
    proj["files"][entry] = entry_text(proj, rnd, mods[0], mods)
    proj["entry"] = entry
    proj["reference"] = reference_text(proj, mods)
    proj["graph"] = {m.path: ("lua", list(m.sites), 1 if m.idx else None) for m in mods}
    proj["roots"] = list(mods[0].sites)
    proj["modules"] = len(mods) - 1
    return proj


# files with the same name, or the same trailing path components, in an ancestor / sibling / deeper
# directory: [entry, m1, m2, ...]; the chain entry -> m1 -> m2 -> ... is ACYCLIC although a comparison of
# path suffixes or of file names would see m2 "again" while m1 is being inlined
SAMENAME_LAYOUTS = [
    ["src/main.lua", "src/util.lua", "util.lua"],
    ["src/main.lua", "src/lib/config.lua", "lib/config.lua", "config.lua"],
    ["src/main.lua", "src/a/x/init.lua", "src/x/init.lua", "x/init.lua"],
    ["src/main.lua", "src/a/util.lua", "src/b/util.lua", "src/util.lua"],
    ["app/main.lua", "lib/config.lua", "app/lib/config.lua", "app/src/lib/config.luau"],
    ["src/util.lua", "lib/util.lua", "lib/util/util.lua", "lib/util/util/init.lua"],
    ["src/main.lua", "src/lib/util/config.lua", "src/util/config.lua", "util/config.lua", "src/lib/config.lua"],
]


def root_level_hazard(mode, paths, adj):
    """a file whose requires are resolved from the project root (a file directly in the root; in luau mode
    also `<dir>/init.lua` of a top-level directory) and that requires something: darklua then names what it
    requires `./x/y.lua` while the same file reached from elsewhere is `x/y.lua` (a recorded finding)"""
    return any(resolution_base(mode, paths[i]) == "" and adj[i] for i in range(len(paths)))


def layout_project(rnd, mode, paths, adj, vtypes=None):
    """an acyclic project over the given files (0 = entry) with full module bodies (behaviour stream)"""
    proj = {"mode": mode, "features": {"equal-base-names", "samename-layout"}, "files": {}, "nested": False,
            "excludes": [], "excluded": [], "shared": True}
    mods = [Mod(0, paths[0], "lua", "entry")]
    for i, path in enumerate(paths[1:], 1):
        mods.append(Mod(i, path, "lua", vtypes[i - 1] if vtypes else rnd.choice(["table", "table", "func", "string"])))
    for i, targets in enumerate(adj):
        mods[i].deps = list(targets)
    for m in mods:
        proj["files"][m.path] = ""
    for m in reversed(mods[1:]):
        proj["files"][m.path] = lua_module_text(proj, rnd, m, mods)
    proj["files"][paths[0]] = entry_text(proj, rnd, mods[0], mods)
    proj["entry"] = paths[0]
    proj["reference"] = reference_text(proj, mods)
    proj["graph"] = {m.path: ("lua", list(m.sites), 1 if m.idx else None) for m in mods}
    proj["roots"] = list(mods[0].sites)
    proj["modules"] = len(mods) - 1
    return proj


LUA_KEYWORDS = ["and", "break", "do", "else", "elseif", "end", "false", "for", "function", "if", "in", "local", "nil", "not",
                "or", "repeat", "return", "then", "true", "until", "while"]
NAME_ALPHABET = "abcdefghijklmnopqrstuvwxyzABCDEFGHIJKLMNOPQRSTUVWXYZ_0123456789"


def raw_name(n):
    """n-th string of the permutator (bijective base 63), as Model/Rename.v nth_raw"""
    out = []
    while True:
        if n < 63:
            out.append(NAME_ALPHABET[n])
            break
        out.append(NAME_ALPHABET[n % 63])
        n = n // 63 - 1
    return "".join(reversed(out))


def modules_needed_to_reach(word):
    """how many bundled modules make an unchecked name generator hand out `word`: 1 + the number of
    valid names before it"""
    n, valid = 0, 0
    while True:
        name = raw_name(n)
        if name == word:
            return valid + 1
        if not name[0].isdigit() and name not in LUA_KEYWORDS and name != "cache":
            valid += 1
        n += 1


def wide_project(rnd, mode, width):
    """one entry requiring `width` tiny modules that all use one shared leaf: the bundler has to hand out
    more than 53 accessor names (all one-letter names, then two-letter ones; digits first and keywords
    must be skipped)"""
    proj = {"mode": mode, "features": {"wide:%d" % width}, "files": {}, "nested": False, "excludes": [], "excluded": [],
            "shared": True, "wide": width}
    files = proj["files"]
    files["src/leaf.lua"] = 'local _P = "@@src/leaf.lua"\nlocal n = 0\nreturn { inc = function() n = n + 1 return n end }\n'
    graph = {"src/leaf.lua": ("lua", [], 1)}
    rtab = {"src/main.lua": {"./leaf": "src/leaf.lua"}}
    lines = ["local t = {}"]
    roots = []
    for i in range(1, width + 1):
        path = "src/w/m%d.%s" % (i, "luau" if i % 7 == 0 else "lua")
        lit_leaf = "../leaf" if i % 2 else "../leaf.lua"
        files[path] = 'local _P = "@@%s"\nreturn { i = %d, n = require("%s").inc() }\n' % (path, i, lit_leaf)
        graph[path] = ("lua", ["src/leaf.lua"], 1)
        rtab[path] = {lit_leaf: "src/leaf.lua"}
        lit = "./w/m%d" % i if i % 3 else "./w/" + posixpath.basename(path)
        rtab["src/main.lua"][lit] = path
        lines.append("t[%d] = require(%s)" % (i, lua_string(lit)))
        roots.append(path)
    lines.append('local leaf = require("./leaf")')
    roots.append("src/leaf.lua")
    lines.append("local sum = 0")
    lines.append("for i = 1, #t do sum = sum + t[i].i * i + t[i].n end")
    lines.append("ext_p(#t, sum, t[1].i, t[%d].i, t[%d].n, leaf.inc())" % (min(54, width), width))
    files["src/main.lua"] = "\n".join(lines) + "\n"
    graph["src/main.lua"] = ("lua", roots, None)
    proj["entry"] = "src/main.lua"
    proj["graph"], proj["roots"] = graph, roots
    out = [REFERENCE_PRELUDE]
    for path in files:
        out.append("__R[%s] = { %s }" % (lua_string(path), ", ".join("[%s] = %s" % (lua_string(k), lua_string(v))
                                                                       for k, v in sorted(rtab.get(path, {}).items()))))
    for path, text in files.items():
        if path != "src/main.lua":
            out.append("__M[%s] = function(...) local require = __mkreq(%s)\n%s\nend" % (lua_string(path), lua_string(path), text))
    out.append('local require = __mkreq("src/main.lua")')
    out.append(files["src/main.lua"])
    proj["reference"] = "\n".join(out)
    proj["modules"] = width + 1
    return proj


def semicolon_project(rnd, mode, entry_long, seq):
    """modules (and the entry) whose last statements carry a `;` followed by a comment: `return x; -- c`,
    `return r;` inside functions, `break;` inside loops; the entry is much shorter or much longer than
    the modules. proj["tags"]: comment tags that follow a `;` - each must be written once by retain_lines"""
    proj = {"mode": mode, "features": {"semicolon-after-last-statement", "entry-%s-than-modules" % ("longer" if entry_long else "shorter")},
            "files": {}, "nested": True, "excludes": [], "excluded": [], "shared": True, "tags": []}
    tagn = [0]

    def tag():
        tagn[0] += 1
        t = "--~s%d.%d~" % (seq, tagn[0])
        proj["tags"].append(t)
        return t

    def module(path, deps, long):
        L = ["-- module %s" % path] if long else []
        L.append('local _P = "@@%s"; %s' % (path, tag()))
        L.append("local n = 0")
        sites = []
        for k, (lit, tgt) in enumerate(deps):
            L.append("local d%d = require(%s); %s" % (k, lua_string(lit), tag()))
            sites.append(tgt)
        if long:
            L += ["local function first(t)", "  local r", "  for i = 1, #t do", "    r = t[i]",
                  "    if i >= 2 then break; %s" % tag(), "    end", "  end", "  return r; %s" % tag(), "end",
                  "while true do n = n + 1 break; end", "repeat n = n + 1 if n > 1 then break; %s" % tag(), " end until true",
                  "local function nothing() return; %s" % tag(), "end", "nothing()"]
            for j in range(rnd.randint(3, 12)):
                L.append("-- padding line %d of %s" % (j, path))
            value = "{ v = first({ 5, 6, 7 }) + n, n = function() n = n + 1 return n end%s }" % "".join(
                ", d%d = d%d" % (k, k) for k in range(len(deps)))
        else:
            value = rnd.choice(["7", '"s"', "false"]) if not deps else "{ v = 1%s }" % "".join(", d%d = d%d" % (k, k) for k in range(len(deps)))
        L.append("return %s; %s" % (value, tag()))
        if long and rnd.random() < 0.5:
            L.append("-- after the return of %s" % path)
        return "\n".join(L) + ("\n" if rnd.random() < 0.7 else ""), sites

    files, graph = proj["files"], {}
    leaf_long = not entry_long
    files["src/lib/leaf.lua"], s0 = module("src/lib/leaf.lua", [], leaf_long)
    files["src/mid.lua"], s1 = module("src/mid.lua", [("./lib/leaf", "src/lib/leaf.lua")], not entry_long)
    files["src/other.luau"], s2 = module("src/other.luau", [("./lib/leaf.lua", "src/lib/leaf.lua"), ("./mid", "src/mid.lua")], not entry_long)
    graph["src/lib/leaf.lua"], graph["src/mid.lua"], graph["src/other.luau"] = ("lua", s0, 1), ("lua", s1, 1), ("lua", s2, 1)
    if entry_long:
        E = ["-- entry", 'local a = require("./mid"); %s' % tag(), 'local b = require("./other"); %s' % tag(), "local acc = 0",
             "for i = 1, 5 do", "  acc = acc + i", "  if i == 3 then break; %s" % tag(), "  end", "end",
             "local function pick(x) if x then return x.v; %s" % tag(), " end return 0; end"]
        for j in range(rnd.randint(10, 25)):
            E.append("-- entry padding %d" % j)
        E += ["ext_p(pick(a), pick(b), acc, tostring(b.d0 == a.d0), type(b.d1)); %s" % tag(), "return acc; %s" % tag()]
        roots = ["src/mid.lua", "src/other.luau"]
        files["src/main.lua"] = "\n".join(E) + "\n"
    else:
        style = seq % 3
        if style == 0:
            files["src/main.lua"] = 'ext_p(require("./other").v, require("./mid").n());'
        elif style == 1:
            files["src/main.lua"] = 'local o = require("./other"); ext_p(o.v, require("./mid").n()); return o.v; %s' % tag()
        else:
            files["src/main.lua"] = 'return require("./other").v + require("./mid").n(); %s\n' % tag()
        roots = ["src/other.luau", "src/mid.lua"]
    graph["src/main.lua"] = ("lua", roots, None)
    proj["entry"] = "src/main.lua"
    proj["graph"], proj["roots"] = graph, roots
    rtab = {"src/main.lua": {"./mid": "src/mid.lua", "./other": "src/other.luau"}, "src/mid.lua": {"./lib/leaf": "src/lib/leaf.lua"},
            "src/other.luau": {"./lib/leaf.lua": "src/lib/leaf.lua", "./mid": "src/mid.lua"}, "src/lib/leaf.lua": {}}
    out = [REFERENCE_PRELUDE]
    for path in files:
        out.append("__R[%s] = { %s }" % (lua_string(path), ", ".join("[%s] = %s" % (lua_string(k), lua_string(v))
                                                                       for k, v in sorted(rtab[path].items()))))
    for path, text in files.items():
        if path != "src/main.lua":
            out.append("__M[%s] = function(...) local require = __mkreq(%s)\n%s\nend" % (lua_string(path), lua_string(path), text))
    out.append('local require = __mkreq("src/main.lua")')
    out.append(files["src/main.lua"])
    proj["reference"] = "\n".join(out)
    proj["modules"] = 3
    return proj


SAMESTEM_PAIRS = [("src/messages.lua", "src/messages.json"), ("src/x.lua", "src/x.luau"), ("src/conf.yaml", "src/conf.toml"),
                  ("src/lib/util.luau", "src/lib/util.json5"), ("src/data/strings.txt", "src/data/strings.yml"),
                  ("src/mod/init.lua", "src/mod/init.luau")]


def generic_project(rnd, mode, paths, adj, features, vtypes=None, extra=None):
    """a project over given files (0 = entry; Lua or data by extension) with full module bodies"""
    proj = {"mode": mode, "features": set(features), "files": {}, "nested": False, "excludes": [], "excluded": [], "shared": True}
    proj.update(extra or {})
    mods = [Mod(0, paths[0], "lua", "entry")]
    for i, path in enumerate(paths[1:], 1):
        ext = path.rsplit(".", 1)[1]
        if ext in ("lua", "luau"):
            mods.append(Mod(i, path, "lua", vtypes[i - 1] if vtypes else rnd.choice(["table", "func", "string", "table"])))
        else:
            mods.append(Mod(i, path, "data", "data"))
    for i, targets in enumerate(adj):
        mods[i].deps = list(targets)
    for m in mods:
        proj["files"][m.path] = ""
    for m in mods:
        if m.kind == "data":
            m.text, m.doc = make_data(rnd, m.path.rsplit(".", 1)[1], m.path)
            proj["files"][m.path] = m.text
    for m in reversed(mods[1:]):
        if m.kind == "lua":
            proj["files"][m.path] = lua_module_text(proj, rnd, m, mods)
    proj["files"][paths[0]] = entry_text(proj, rnd, mods[0], mods)
    proj["entry"] = paths[0]
    proj["reference"] = reference_text(proj, mods)
    proj["graph"] = {m.path: (("data",) if m.kind == "data" else ("lua", list(m.sites), 1 if m.idx else None)) for m in mods}
    proj["roots"] = list(mods[0].sites)
    proj["modules"] = len(mods) - 1
    return proj


def samestem_project(rnd, mode, pair, order):
    """two DISTINCT files with the same stem and different extensions (Lua + data, lua + luau, data + data),
    both required - with their extension - by the entry and by a module, in either order, each observed by value"""
    a, b = pair if order == 0 else (pair[1], pair[0])
    user = "src/user.lua"
    paths = ["src/main.lua", a, b, user]
    # entry: a, b, user ; user: b, a
    adj = [[1, 2, 3], [], [], [2, 1]]
    if order == 2:
        adj = [[3, 2, 1], [], [], [1, 2]]
    proj = generic_project(rnd, mode, paths, adj, {"same-stem-different-extension", "same-stem:%s+%s" % (a.rsplit(".", 1)[1], b.rsplit(".", 1)[1])})
    return proj


def alias_precedence_project(rnd, mode, rc_at_root, seq):
    """the same alias name in the nearest .luaurc and in the configuration, with different existing targets;
    plus an alias only in the configuration and one only in .luaurc. Reference = the unchanged tree per mode:
    luau mode takes the .luaurc target, path mode takes the configuration's (C15 finding path-luaurc-precedence)"""
    rc_alias = {"@pkg": "src/vendor", "@rc": "src/rc"}
    cfg_alias = {"@pkg": "src/fallback", "@only": "src/only"}
    effective = dict(cfg_alias)
    if mode == "luau":
        effective.update(rc_alias)
    else:
        effective.update({k: v for k, v in rc_alias.items() if k not in cfg_alias})
    win = effective["@pkg"]
    paths = ["src/main.lua", win + "/lib.luau", "src/only/lib.lua", "src/rc/lib.luau", "src/sub/user.lua"]
    adj = [[1, 2, 3, 4], [], [], [], [1, 3]]
    loser = ("src/fallback" if win == "src/vendor" else "src/vendor") + "/lib.luau"
    force = {("src/main.lua", paths[1]): "@pkg/lib", ("src/main.lua", paths[2]): "@only/lib", ("src/main.lua", paths[3]): "@rc/lib",
             ("src/sub/user.lua", paths[1]): "@pkg/lib.luau", ("src/sub/user.lua", paths[3]): "@rc/lib"}
    proj = generic_project(rnd, mode, paths, adj, {"alias-in-luaurc-and-configuration", "alias-precedence:" + mode},
                           extra={"aliases": effective, "force_literal": force,
                                  "alias_config": {k: "./" + posixpath.relpath(v, "src") for k, v in cfg_alias.items()}})
    # the target that must NOT be bundled exists too, with an observably different value
    proj["files"][loser] = 'return { name = "LOSER", inc = function() return -1 end, deps = function() return "" end }\n'
    rcdir = "" if rc_at_root else "src"
    rel = lambda d: "./" + (posixpath.relpath(d, rcdir or "."))
    proj["files"][(rcdir + "/" if rcdir else "") + ".luaurc"] = json.dumps({"aliases": {k[1:]: rel(v) for k, v in rc_alias.items()}})
    proj["loser"] = loser
    return proj


def data_holes_project(rnd, mode, fmt, holes):
    """the entry and a module require a data file whose sequences have nulls that are not last; the
    entry reads every index"""
    proj = {"mode": mode, "features": {"data-holes:" + fmt, "data-holes-shape:" + holes}, "files": {}, "nested": False,
            "excludes": [], "excluded": [], "shared": True}
    mods = [Mod(0, "src/main.lua", "lua", "entry"), Mod(1, "src/data/holes.%s" % fmt, "data", "data"),
            Mod(2, "src/reader.lua", "lua", "table"), Mod(3, "src/data/more.%s" % rnd.choice(["json", "yaml", "json5"]), "data", "data")]
    mods[0].deps = [1, 2, 3]
    mods[2].deps = [1]
    for m in mods:
        proj["files"][m.path] = ""
    for m in (mods[1], mods[3]):
        m.text, m.doc = make_data(rnd, m.path.rsplit(".", 1)[1], m.path, holes if m.idx == 1 else rnd.choice(["map", "array"]))
        if m.idx == 1 and holes in ("toml-specials", "json5-nonfinite", "yaml-specials"):
            proj["features"].add("data-" + holes)
        if m.idx == 3 and rnd.random() < 0.5:
            # the whole file with CRLF line ends: the parsed value is the same
            m.text = m.text.replace("\n", "\r\n")
            proj["files"][m.path] = m.text
            proj["features"].add("crlf-data-file")
        proj["files"][m.path] = m.text
    proj["files"][mods[2].path] = lua_module_text(proj, rnd, mods[2], mods)
    proj["files"][mods[0].path] = entry_text(proj, rnd, mods[0], mods)
    proj["entry"] = mods[0].path
    proj["reference"] = reference_text(proj, mods)
    proj["graph"] = {m.path: (("data",) if m.kind == "data" else ("lua", list(m.sites), 1 if m.idx else None)) for m in mods}
    proj["roots"] = list(mods[0].sites)
    proj["modules"] = 3
    return proj


# ---------------------------------------------------------------------------------------------
# small graphs, all of them (cycles, missing files, malformed modules)


def small_project(n, adj, mode="path", defect=None, paths=None):
    """n nodes (0 = entry `src/main.lua`, i = `src/m<i>.lua`); adj[i] = list of targets of node i in
    textual order. defect = None | ("missing", i) | ("syntax", i) | ("two", i) | ("three", i) | ("noreturn", i) | ("bare", i) |
    ("bare-semicolon", i) | ("doreturn", i) | ("baddata", i, fmt)"""
    custom = paths is not None
    paths = list(paths) if custom else ["src/main.lua"] + ["src/m%d.lua" % i for i in range(1, n)]
    files, graph = {}, {}
    nf = {}
    if defect and defect[0] == "baddata":
        paths[defect[1]] = "src/m%d.%s" % (defect[1], defect[2])
    if defect and defect[0] == "badext":
        paths[defect[1]] = "src/m%d.png" % defect[1]
    for i in range(n):
        lines = ['local _P = "@@%s"' % paths[i]]
        sites = []
        for k, j in enumerate(adj[i]):
            if defect and defect[0] == "missing" and defect[1] == j:
                lit = "./gone%d" % j
                sites.append(("nf", lit))
                nf[lit] = j
            elif custom:
                sp = spellings(mode, paths[i], paths[j], set(paths))
                lit = sp[(k + i) % len(sp)]
                sites.append(paths[j])
            else:
                base = posixpath.basename(paths[j])
                lit = "./" + (base if (k + i) % 2 or not base.endswith(".lua") else base[:-4])
                sites.append(paths[j])
            lines.append("local d%d = require(%s)" % (k, lua_string(lit)))
        lines.append("return { %s }" % ", ".join("d%d" % k for k in range(len(adj[i]))))
        text = "\n".join(lines) + "\n"
        kind = ("lua", sites, 1)
        if defect and defect[1] == i:
            if defect[0] == "syntax":
                text = "local x = = 1\n" + text
                kind = ("broken",)
            elif defect[0] == "two":
                text = text.rsplit("return", 1)[0] + "return 1, 2\n"
                kind = ("lua", sites, 2)
            elif defect[0] == "noreturn":
                text = text.rsplit("return", 1)[0] + "local z = 1\n"
                kind = ("lua", sites, None)
            elif defect[0] == "bare":
                # `return` with zero values
                text = text.rsplit("return", 1)[0] + "local z = 1\nreturn\n"
                kind = ("lua", sites, 0)
            elif defect[0] == "bare-semicolon":
                text = text.rsplit("return", 1)[0] + "return;\n"
                kind = ("lua", sites, 0)
            elif defect[0] == "doreturn":
                # the value is returned from inside a final `do` block: the module block itself has no last statement
                head, tail = text.rsplit("return", 1)
                text = head + "do return" + tail.rstrip("\n") + " end\n"
                kind = ("lua", sites, None)
            elif defect[0] == "three":
                text = text.rsplit("return", 1)[0] + "return 1, nil, 3\n"
                kind = ("lua", sites, 3)
            elif defect[0] == "badext":
                text = "not a module\n"
                kind = ("broken",)
            elif defect[0] == "baddata":
                text = {"json": "{ \"a\": ", "json5": "{ a: ", "yaml": "a: [1, 2", "yml": "a: [1", "toml": "a = "}[defect[2]]
                kind = ("broken",)
        if defect and defect[0] == "missing" and defect[1] == i:
            continue
        files[paths[i]] = text
        graph[paths[i]] = kind
    roots = graph[paths[0]][1] if graph[paths[0]][0] == "lua" else []
    return {"files": files, "entry": paths[0], "mode": mode, "excludes": [], "graph": graph, "roots": roots,
            "paths": paths, "adj": adj, "defect": defect, "features": set()}


def all_adjacencies(n, rnd, with_multi=False):
    """every digraph on n nodes (self loops included) as adjacency lists"""
    pairs = [(i, j) for i in range(n) for j in range(n)]
    for mask in range(1 << len(pairs)):
        adj = [[] for _ in range(n)]
        for b, (i, j) in enumerate(pairs):
            if mask >> b & 1:
                adj[i].append(j)
        yield adj


def reachable_cycle(n, adj):
    """independent oracle: does the part of the graph reachable from node 0 contain a cycle?
    (0 itself counts when an edge leads back to it)"""
    seen, todo = set(), [0]
    while todo:
        i = todo.pop()
        if i in seen:
            continue
        seen.add(i)
        todo += adj[i]
    # Kahn on the reachable subgraph
    indeg = {i: 0 for i in seen}
    for i in seen:
        for j in adj[i]:
            indeg[j] += 1
    queue = [i for i in seen if indeg[i] == 0]
    removed = 0
    while queue:
        i = queue.pop()
        removed += 1
        for j in adj[i]:
            indeg[j] -= 1
            if indeg[j] == 0:
                queue.append(j)
    return removed != len(seen), seen
