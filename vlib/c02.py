"""C02 - dense and readable generators emit code that means the same tree."""
import json
import os
import sys

from . import common as C
from . import c02_tables as T
from . import c02_types as TY

META = {
    "title": "Dense and readable generators emit code that means the same tree",
    "level": "proof",
    "design_ref": "DESIGN.md section 6 / C02",
    "technique": "Coq theorems over Gallina models of the dense generator's push automaton (Model/DenseGen.v) and of the "
                 "parenthesisation rules (Model/Precedence.v), parameterised by tables dumped from the compiled Rust code "
                 "(should_break_with_space 128x128, the five break_* predicates, the needs-parentheses predicates over all "
                 "operator pairs) whose decidable conditions are re-evaluated by vm_compute on every run; reference lexer and "
                 "reference precedence-climbing parser written from the Lua manual / Luau lexer as the specification; models "
                 "tied to the code by differential streams evaluated by the extracted checker (all cases) and inside coqc "
                 "(sample)",
    "level_text": "Machine-checked (Coq 8.16 kernel, no axioms). (1) no_fusion: for every table with spacing_ok = true, every "
                  "push list inside the stated adjacency universe and EVERY column span, the text written by the modelled "
                  "automaton lexes (reference lexer) exactly as the canonical rendering of the pushes; no_fusion_stream: the "
                  "same from a per-list decidable hypothesis that is checked on every real push list. (2) paren_roundtrip: "
                  "for every predicate table with prec_ok = true and every operator tree of any depth, the reference parser "
                  "reads the written tokens back as the same tree with the generator's parentheses explicit (same operator "
                  "nesting). (3) merge_char glues '(' to the callee at every span. spacing_ok/prec_ok are re-proved on the "
                  "tables dumped from the current code on every run. The push sequence of dense.rs is tied to the model byte "
                  "for byte on generated trees; the readable generator, the Luau type grammar and the statement level "
                  "(';' insertion) are covered by correspondence only (reference lexer, reference parser, a token-level "
                  "criterion for the mandatory ';', darklua's own parser). The unrestricted statements are refuted in Coq "
                  "by the recorded findings (number nodes holding a negative value; ';' after a generator-parenthesised "
                  "last operand).",
    "level_note": "Trusted: Coq kernel + vm_compute; OCaml extraction of the checker (cross-checked against vm_compute on a "
                  "sample every run); Model/Lexer.v and the reference parser in Model/Precedence.v (specifications); the "
                  "harness walker items.rs (second transcription of dense.rs: which push variant is used for which token; "
                  "checked against the real output on every run); the adjacency universe (Model/C02Spec.v excluded_str, "
                  "consistent) is an assumption about which token pairs a tree can make adjacent, checked on every real "
                  "push list; darklua's own parser only for the tree-equality stream.",
    "trusted_base": ["Coq 8.16.1 kernel, vm_compute", "OCaml extraction (ExtrOcamlBasic) + vlib/c02_driver.ml",
                     "Model/Lexer.v (reference lexer, specification)",
                     "Model/Precedence.v subexpr/parse_expr (reference parser, specification)",
                     "harness/crates/c02 (walker items.rs, tree generators, hex transport)",
                     "darklua_core::Parser only for the tree-equality stream"],
    "allowed_axioms": [],
    "rule": "seeded random trees (depth 1..4) built through darklua's node constructors over adversarial name/number/"
            "string pools, each at column spans {0,1,2,7,80,120,10^9}; exhaustive ordered pairs of 35 expression samples "
            "(one per token class) in every syntactic position at spans 7, unbounded (quick) or all spans (thorough); all operator trees with <= 2 operator nodes, "
            "triples (sampled in quick, exhaustive in thorough), deeper random trees; statement pairs; calls with 0/1 "
            "arguments at every span 0..len+2; long-bracket string candidates in every string position; a case is "
            "non-trivial when the dense output differs from the plain concatenation of the pushed texts (a separator or "
            "line break was inserted), when the generator inserted a parenthesis, or when the second statement starts "
            "with '('; distinct by (push list or tree, span)",
    "assumptions": ["Lua 5.1 / Luau lexical rules are as written in Model/Lexer.v (numbers: Luau's greedy readNumber run)",
                    "operator precedence and associativity are as in the Lua 5.1 manual section 2.5.6 plus Luau's // "
                    "(Model/Precedence.v lprio/rprio)",
                    "adjacency universe: a push that ends inside a number starts with a digit and ends with a digit or "
                    "letter; after an operator symbol no push starts with '='; '/' is not followed by '/', ':' not by "
                    "':', '-' not by '>' (Model/C02Spec.v excluded_str); evaluated on every real push list",
                    "tokens are ASCII (the generators escape everything else)"],
}

PREAMBLE = """From DL Require Import Lib.Bytes Model.Lexer Model.DenseGen Model.C02Check Generated.C02Tables.
Open Scope N_scope.
Open Scope string_scope.
Definition mk (m : mode) (h : string) : item := {| imode := m; itext := unhex h |}.
Definition S_ := mk MStr.
Definition B0 := mk (MBreak BConcat).
Definition B1 := mk (MBreak BVarargs).
Definition B2 := mk (MBreak BMinus).
Definition B3 := mk (MBreak BEqual).
Definition B4 := mk (MBreak BLongString).
Definition R_ := mk MRaw.
Definition N_ (n : N) := mk (MNlRaw n).
Definition M_ := mk MMerge.
Definition P_ := mk MSpace "".
Definition tc (span : N) (its : option (list item)) (d r f : string) : tcase :=
  {| c_span := span; c_items := its; c_dense := unhex d; c_readable := unhex r; c_ref := unhex f |}.
Definition check_case (c : tcase) : bool := C02Check.check_case tbl c.
Definition diag_case (c : tcase) : string := to_string (diag_bytes tbl c).
"""

PREAMBLE_OPS = """From DL Require Import Lib.Bytes Model.Lexer Model.DenseGen Model.Precedence Model.C02Check Generated.C02Tables.
Open Scope N_scope.
Open Scope string_scope.
Definition pc (e : expr) (d r : string) : pcase := {| p_expr := e; p_dense := unhex d; p_readable := unhex r |}.
Definition check_case (c : pcase) : bool := pcheck_case ptbl c.
Definition diag_case (c : pcase) : string := to_string (pdiag_bytes ptbl c).
"""

BINOPS = ["And", "Or", "Equal", "NotEqual", "LowerThan", "LowerOrEqualThan", "GreaterThan", "GreaterOrEqualThan",
          "Plus", "Minus", "Asterisk", "Slash", "DoubleSlash", "Percent", "Caret", "Concat"]
UNOPS = ["Length", "Neg", "Not"]


TY0 = {"n": "(TyName false)", "N": "(TyName true)", "f": "(TyField false)", "F": "(TyField true)", "k": "TyFunPack",
       "g": "TyFunGeneric", "o": "TyOptional", "y": "TyTypeOf", "t": "TyTable", "a": "TyArray", "p": "TyParen",
       "s": "TyString", "b": "TyBool", "z": "TyNil"}
TY1 = {">": "TyFunType", "v": "TyFunVariadic", "u": "TyUnion", "i": "TyInter"}


def ty_term(code):
    """type code of the cast stream -> Coq term of Model.Precedence.ty"""
    if code[0] in TY1:
        return "(%s %s)" % (TY1[code[0]], ty_term(code[1:]))
    return TY0[code[0]]


def polish_term(polish):
    toks = polish.split(",")
    pos = [0]

    def go():
        t = toks[pos[0]]
        pos[0] += 1
        if t[0] == "A":
            return "(EAtom %s)" % t[1:]
        if t[0] == "B":
            l = go()
            r = go()
            return "(EBin %s %s %s)" % (BINOPS[int(t[1:])], l, r)
        if t[0] == "U":
            return "(EUn %s %s)" % (UNOPS[int(t[1:])], go())
        if t[0] == "C":
            return "(ECast %s %s)" % (go(), ty_term(t[1:]))
        return "(EParen %s)" % go()
    return go()


CURRENT_V = """(** GENERATED/compiled on every run: the decidable conditions of the C02 theorems evaluated on the
    tables dumped from the current Rust code. *)
From DL Require Import Lib.Bytes Model.Lexer Model.DenseGen Model.C02Spec Generated.C02Tables.
Example current_table_ok : spacing_ok tbl = true.
Proof. vm_compute. reflexivity. Qed.
"""

CURRENT_PREC_V = """(** GENERATED/compiled on every run: the condition of the parenthesisation theorem on the dumped predicates,
    and the graph of the type walk of ends_with_type_cast_to_type_name_without_type_parameters over every
    enumerated type (dumped from the Rust code) against its Gallina transcription [trailing_bare]. *)
From DL Require Import Lib.Bytes Model.Precedence Model.C02Spec Generated.C02Tables.
Example current_prec_ok : prec_ok ptbl = true.
Proof. vm_compute. reflexivity. Qed.
Definition dumped_type_walk : list (ty * bool) := [%s].
Example current_type_walk_ok :
  forallb (fun c => Bool.eqb (left_cast ptbl LowerThan (trailing_bare (fst c))) (snd c)) dumped_type_walk = true.
Proof. vm_compute. reflexivity. Qed.
"""

MODE_CTOR = {"S": "S_", "B0": "B0", "B1": "B1", "B2": "B2", "B3": "B3", "B4": "B4", "R": "R_", "M": "M_"}


def items_term(enc):
    if enc == "-":
        return "None"
    parts = []
    for it in enc.split(","):
        tag, hx = it.split(":")
        if tag == "P":
            parts.append("P_")
        elif tag.startswith("N"):
            parts.append('N_ %s "%s"' % (tag[1:], hx))
        else:
            parts.append('%s "%s"' % (MODE_CTOR[tag], hx))
    return "(Some [" + "; ".join(parts) + "])"


def item_texts(enc):
    if enc == "-":
        return None
    out = []
    for it in enc.split(","):
        tag, hx = it.split(":")
        if tag != "P":
            out.append(bytes.fromhex(hx))
    return out


def undash(h):
    return "" if h == "-" else h


def parse_nl(field):
    """`nl=<dense>,<readable>`: number of call parentheses that are the first token of a line in each text
    (`x`: darklua's parser could not read the text, reported by the round-trip flag)"""
    d, r = field[3:].split(",")
    return (int(d) if d != "x" else 0, int(r) if r != "x" else 0)


def newline_violations(ctx, stream, rows, describe):
    """model-independent oracle on the generated text: no call may have its '(' as the first token of a line"""
    bad = [r for r in rows if r["nl"] != (0, 0)]
    known = [r for r in bad if "+wrapped-last-operand" in r["tag"] or r["tag"].startswith(("genparen", "ifexp_genparen"))]
    others = [r for r in bad if r not in known]
    for r in known[:1] + others[:3]:
        which = "dense" if r["nl"][0] else "readable"
        ctx.violation("%s generator: the '(' of a call is the first token of a line at span %d (Lua 5.1 manual 2.5.8: "
                      "ambiguous syntax; Luau reports the same text as ambiguous): a line break landed between a callee "
                      "and its arguments" % (which, r["span"]),
                      dict(describe(r), stream=stream, span=r["span"], call_parentheses_starting_a_line=list(r["nl"])),
                      key=("semicolon:generator-parenthesised-last-operand" if r in known
                           else "call-newline:%s:%s:%d" % (which, r.get("ref", r["dense"])[:80], r["span"])))
    return len(bad)


def parse_cases(out):
    """harness lines -> list of dicts grouped so that each case knows its reference (largest span) output"""
    rows = []
    for line in out.splitlines():
        p = line.split(" ")
        if len(p) != 10 or p[0] != "case":
            continue
        rows.append({"id": int(p[1]), "span": int(p[2]), "items": p[3], "dense": undash(p[4]),
                     "readable": undash(p[5]), "dflag": p[6], "rflag": p[7], "tag": p[8], "nl": parse_nl(p[9])})
    # the reference of a tree is its dense output at the largest span of its group (same items, consecutive ids)
    groups = []
    for r in rows:
        if groups and groups[-1][0]["items"] == r["items"] and groups[-1][0]["tag"] == r["tag"] \
                and r["span"] > groups[-1][-1]["span"]:
            groups[-1].append(r)
        else:
            groups.append([r])
    for g in groups:
        ref = g[-1]["dense"]
        for r in g:
            r["ref"] = ref
    return rows


def case_term(r):
    return 'tc %d %s "%s" "%s" "%s"' % (r["span"], items_term(r["items"]), r["dense"], r["readable"], r["ref"])


def build_evaluator():
    """Extract Model/C02Check (instantiated with the generated tables) to OCaml and compile the driver.
    Cached by the hash of every source involved."""
    srcs = [os.path.join(C.COQ, "Lib", "Bytes.v"), os.path.join(C.COQ, "Model", "Lexer.v"),
            os.path.join(C.COQ, "Model", "DenseGen.v"), os.path.join(C.COQ, "Model", "C02Check.v"),
            os.path.join(C.COQ, "Model", "Precedence.v"), os.path.join(C.COQ, "Model", "C02Spec.v"),
            T.GENERATED_V, os.path.join(C.COQ, "Extract", "C02Extract.v"),
            os.path.join(C.ROOT, "vlib", "c02_driver.ml")]
    h = C.hashlib.sha256()
    for p in srcs:
        h.update(open(p, "rb").read())
    wd = os.path.join(C.WORK, "C02", "extract")
    exe = os.path.join(wd, "c02_eval_" + h.hexdigest()[:16])
    if os.path.exists(exe):
        return exe
    C.shutil.rmtree(wd, ignore_errors=True)
    os.makedirs(wd)
    rc, out = C.sh(["coqc", "-w", "-all", "-Q", C.COQ, "DL", os.path.join(C.COQ, "Extract", "C02Extract.v")], cwd=wd, timeout=600)
    if rc != 0:
        raise C.CheckBroken("extraction of the C02 checker failed:\n" + out[-2000:])
    C.shutil.copy(os.path.join(C.ROOT, "vlib", "c02_driver.ml"), wd)
    rc, out = C.sh(["ocamlfind", "ocamlopt", "-O2", "-w", "-a", "c02_model.mli", "c02_model.ml", "c02_driver.ml", "-o", exe],
                   cwd=wd, timeout=600)
    if rc != 0:
        raise C.CheckBroken("compiling the extracted C02 checker failed:\n" + out[-2000:])
    for f in os.listdir(C.COQ + "/Extract"):
        if not f.endswith(".v"):
            os.remove(os.path.join(C.COQ, "Extract", f))
    return exe


def eval_extracted(exe, rows):
    """-> list of (row index, diag) where the extracted check_case is false"""
    lines = []
    for i, r in enumerate(rows):
        lines.append("%d %d %s %s %s %s" % (i, r["span"], r["items"], r["dense"] or "-", r["readable"] or "-", r["ref"] or "-"))
    shards = [lines[k::C.NPROC] for k in range(C.NPROC)]
    bad = []

    def one(shard):
        if not shard:
            return 0, "done 0\n"
        return C.sh([exe], input="\n".join(shard) + "\n", timeout=3000)
    with C.ThreadPoolExecutor(max_workers=C.NPROC) as ex:
        for shard, (rc, out) in zip(shards, ex.map(one, shards)):
            done = None
            for line in out.splitlines():
                if line.startswith("bad "):
                    _, cid, diag = (line.split(" ", 2) + [""])[:3]
                    bad.append((int(cid), diag))
                elif line.startswith("done "):
                    done = int(line.split()[1])
            if rc != 0 or done != len(shard):
                raise C.CheckBroken("extracted C02 checker failed (rc=%s, %s of %d cases):\n%s" % (rc, done, len(shard), out[-1500:]))
    return bad


def nontrivial(r):
    texts = item_texts(r["items"])
    if texts is None:
        return False
    return bytes.fromhex(r["dense"]) != b"".join(texts)


def text_of(h):
    try:
        return bytes.fromhex(h).decode("latin-1")
    except ValueError:
        return h


def run_stream(ctx, name, rows, exe, vm_sample):
    """evaluate one stream of harness cases with the extracted checker (all cases) and by vm_compute inside
    coqc (a sample: cross-check of the extraction); record statistics and violations"""
    uniq = {}
    for r in rows:
        uniq.setdefault((r["items"], r["span"], r["dense"], r["readable"]), r)
    rows = list(uniq.values())
    bad = eval_extracted(exe, rows)
    # sample for the in-Coq evaluation: the smallest cases first (cost is proportional to the text size),
    # plus every case the extracted checker flagged
    order = sorted(range(len(rows)), key=lambda i: len(rows[i]["dense"]) + len(rows[i]["readable"]))
    flagged = sorted(set(cid for cid, _ in bad))[:20]
    pick = sorted(set(order[:vm_sample:1] + flagged))
    vm_bad = C.run_coq_cases(ctx.prop, PREAMBLE, [(i, case_term(rows[i])) for i in pick], chunk=max(8, len(pick) // C.NPROC + 1),
                             tag=name.split(":")[0].replace(" ", "_"))
    bad_ids = set(cid for cid, _ in bad)
    vm_ids = set(cid for cid, _ in vm_bad)
    disagree = [i for i in pick if (i in bad_ids) != (i in vm_ids)]
    ctx.obligation("extracted checker agrees with vm_compute inside coqc on %d sampled cases of stream %r" % (len(pick), name.split(":")[0]),
                   not disagree, "disagreements at cases %r" % disagree[:5])
    nt = sum(1 for r in rows if nontrivial(r))
    samples = [{"span": r["span"], "dense": text_of(r["dense"])[:200]} for r in rows if nontrivial(r)][:3]
    reparse_bad = [r for r in rows if r["dflag"] not in ("ok", "okp") or r["rflag"] not in ("ok", "okp")]
    nl_bad = newline_violations(ctx, name, rows, lambda r: {"dense": text_of(r["dense"]), "readable": text_of(r["readable"]),
                                                           "tag": r["tag"]})
    ctx.stream(name, len(rows), nt, samples, mismatches=len(bad), reparse_mismatches=len(reparse_bad),
               call_parentheses_starting_a_line=nl_bad,
               modelled=sum(1 for r in rows if r["items"] != "-"), evaluated_in_coqc=len(pick))
    model_only = []
    for cid, diag in bad:
        r = rows[cid]
        replay = {"stream": name, "span": r["span"], "dense": text_of(r["dense"]), "readable": text_of(r["readable"]),
                  "reference_dense_at_large_span": text_of(r["ref"]), "items": r["items"], "diag": diag[:2000], "tag": r["tag"]}
        if "LEXDENSE" in diag:
            ctx.violation("dense generator: the reference lexer reads a different token sequence at span %d than at "
                          "an unbounded span (token fusion / split or unlexable text)" % r["span"], replay,
                          key="lex-dense:%s:%d" % (r["ref"][:80], r["span"]))
        elif "LEXREADABLE" in diag:
            ctx.violation("readable generator: the reference lexer reads a different token sequence than from the "
                          "dense output", replay, key="lex-readable:%s:%d" % (r["ref"][:80], r["span"]))
        elif "INTENT" in diag:
            ctx.violation("dense output does not lex to the tokens the generator pushed", replay,
                          key="intent:%s:%d" % (r["ref"][:80], r["span"]))
        elif "HYP" in diag and "MODEL" not in diag:
            ctx.violation("a junction of the real push list is not safe under the dumped tables (stream_ok is false: theorem "
                          "no_fusion does not cover this list) although the text lexes correctly at the tried spans", replay,
                          key="hyp:%s" % r["ref"][:80], found_input=False)
        else:
            model_only.append((r, diag))
    # cases of the recorded boundary defect first, then at most three others
    reparse_report = [r for r in reparse_bad if "+wrapped-last-operand" in r["tag"]][:2] + \
                     [r for r in reparse_bad if "+wrapped-last-operand" not in r["tag"]][:3]
    for r in reparse_report:
        which = "dense" if r["dflag"] not in ("ok", "okp") else "readable"
        ctx.violation("%s generator: darklua's parser does not read back the same tree (%s) at span %d" % (
            which, r["dflag"] if which == "dense" else r["rflag"], r["span"]),
            {"stream": name, "span": r["span"], "dense": text_of(r["dense"]), "readable": text_of(r["readable"]),
             "tag": r["tag"]},
            key=("semicolon:generator-parenthesised-last-operand" if "+wrapped-last-operand" in r["tag"]
                 else "reparse-%s:%s:%d" % (which, r["ref"][:80], r["span"])))
    return model_only


def parse_ops(out):
    rows = []
    for line in out.splitlines():
        p = line.split(" ")
        if len(p) != 9 or p[0] != "op":
            continue
        rows.append({"id": int(p[1]), "span": int(p[2]), "polish": p[3], "dense": undash(p[4]), "readable": undash(p[5]),
                     "dflag": p[6], "rflag": p[7], "tag": p[8]})
    return rows


def negative_number_class(r):
    """the two recorded defects of number nodes holding a negative value (-0.0); None = something else"""
    if "A99" not in r["polish"]:
        return None
    d = bytes.fromhex(r["dense"]).decode("latin-1")
    rd = bytes.fromhex(r["readable"]).decode("latin-1")
    if "-0^" in d.replace("\n", "").replace(" ", "") or "-0^" in rd.replace("\n", "").replace(" ", ""):
        return "paren:negative-number-left-of-caret"
    if "-0.." in d:
        return "fusion:negative-number-before-concat"
    return None


def run_ops(ctx, rows, exe, vm_sample):
    name = ("operator trees: all trees with <= 2 operator nodes, triples, deeper random trees with explicit parentheses and "
            "negative-zero number leaves: modelled printer vs both generators; REFERENCE precedence parser on the real text")
    uniq = {}
    for r in rows:
        uniq.setdefault((r["polish"], r["span"]), r)
    rows = list(uniq.values())
    lines = ["op %d %s %s %s" % (i, r["polish"], r["dense"] or "-", r["readable"] or "-") for i, r in enumerate(rows)]
    shards = [lines[k::C.NPROC] for k in range(C.NPROC)]
    bad = []

    def one(shard):
        if not shard:
            return 0, "done 0\n"
        return C.sh([exe], input="\n".join(shard) + "\n", timeout=3000)
    with C.ThreadPoolExecutor(max_workers=C.NPROC) as ex:
        for shard, (rc, out) in zip(shards, ex.map(one, shards)):
            done = None
            for line in out.splitlines():
                if line.startswith("bad "):
                    _, cid, diag = (line.split(" ", 2) + [""])[:3]
                    bad.append((int(cid), diag))
                elif line.startswith("done "):
                    done = int(line.split()[1])
            if rc != 0 or done != len(shard):
                raise C.CheckBroken("extracted C02 checker failed on operator trees (rc=%s):\n%s" % (rc, out[-1500:]))
    flagged = sorted(set(cid for cid, _ in bad))[:20]
    pick = sorted(set(list(range(0, len(rows), max(1, len(rows) // vm_sample))) + flagged))
    vm_bad = C.run_coq_cases(ctx.prop, PREAMBLE_OPS,
                             [(i, 'pc %s "%s" "%s"' % (polish_term(rows[i]["polish"]), rows[i]["dense"], rows[i]["readable"]))
                              for i in pick], chunk=max(8, len(pick) // C.NPROC + 1), tag="ops")
    bad_ids = set(cid for cid, _ in bad)
    vm_ids = set(cid for cid, _ in vm_bad)
    disagree = [i for i in pick if (i in bad_ids) != (i in vm_ids)]
    ctx.obligation("extracted checker agrees with vm_compute inside coqc on %d sampled operator trees" % len(pick),
                   not disagree, "disagreements at cases %r" % disagree[:5])
    # non-trivial: the generator wrote at least one parenthesis that is not an explicit Parenthese node
    nt = sum(1 for r in rows if bytes.fromhex(r["dense"]).count(b"(") > r["polish"].split(",").count("P"))
    samples = [{"tree": r["polish"], "dense": text_of(r["dense"])} for r in rows[700:703]]
    reparse_bad = [r for r in rows if "A99" not in r["polish"] and
                   (r["dflag"] not in ("ok", "okp") or r["rflag"] not in ("ok", "okp"))]
    ctx.stream(name, len(rows), nt, samples, mismatches=len(bad), reparse_mismatches=len(reparse_bad), evaluated_in_coqc=len(pick))
    model_only = []
    for cid, diag in bad:
        r = rows[cid]
        replay = {"stream": "operator trees", "tree_polish": r["polish"], "span": r["span"], "dense": text_of(r["dense"]),
                  "readable": text_of(r["readable"]), "diag": diag, "tag": r["tag"]}
        cls = negative_number_class(r)
        if "ORACLE" in diag:
            what = ("the reference parser does not read the written text back as the same operator tree (%s)" % diag.strip())
            ctx.violation(what, replay, key=cls or ("oracle:%s:%d" % (r["polish"], r["span"])))
        elif cls is None:
            model_only.append((r, diag))
    for r in reparse_bad[:3]:
        ctx.violation("darklua's parser does not read back the same operator tree", {
            "tree_polish": r["polish"], "dense": text_of(r["dense"]), "readable": text_of(r["readable"]),
            "flags": [r["dflag"], r["rflag"]]}, key="reparse-ops:%s" % r["polish"])
    return model_only


def run_casts(ctx, out, exe, vm_sample):
    """Gap 'trailing cast': comparison (and control) operators whose left operand ends, along the right spine, in a cast"""
    name = ("trailing casts: left/right operands whose right spine (binary right, unary operand, nested casts; if-else results "
            "outside the model) ends in a cast; 38 types covering every arm of the type walk (names, M.T, function types "
            "returning a name / variadic pack / type pack / generic pack / nested, unions and intersections by last member, "
            "T?, typeof, table, array, parenthesised, literal types) under < and control operators, with left-spine-only and "
            "explicit-parenthese controls; dense, readable and "
            "token-based generators at spans 1, 7, unbounded: modelled printer, reference parser, darklua parser round trip")
    rows = []
    for line in out.splitlines():
        p = line.split(" ")
        if len(p) != 11 or p[0] != "cast":
            continue
        rows.append({"span": int(p[2]), "polish": p[3], "dense": undash(p[4]), "readable": undash(p[5]),
                     "tokenbased": undash(p[6]), "dflag": p[7], "rflag": p[8], "tflag": p[9], "tag": p[10]})
    lines = []
    owner = []
    for i, r in enumerate(rows):
        if r["polish"] == "-":
            continue
        lines.append("op %d %s %s %s" % (len(owner), r["polish"], r["dense"] or "-", r["readable"] or "-"))
        owner.append((i, "dense/readable"))
        lines.append("op %d %s %s %s" % (len(owner), r["polish"], r["tokenbased"] or "-", r["tokenbased"] or "-"))
        owner.append((i, "token-based"))
    rc, res = C.sh([exe], input="\n".join(lines) + "\n", timeout=3000)
    bad = {}
    done = None
    for line in res.splitlines():
        if line.startswith("bad "):
            _, cid, diag = (line.split(" ", 2) + [""])[:3]
            i, which = owner[int(cid)]
            bad.setdefault(i, []).append("%s: %s" % (which, diag.strip()))
        elif line.startswith("done "):
            done = int(line.split()[1])
    if rc != 0 or done != len(lines):
        raise C.CheckBroken("extracted C02 checker failed on casts (rc=%s):\n%s" % (rc, res[-1500:]))
    modelled = [i for i, r in enumerate(rows) if r["polish"] != "-"]
    pick = sorted(set(modelled[::max(1, len(modelled) // vm_sample)] + sorted(bad)[:10]))
    vm_bad = C.run_coq_cases(ctx.prop, PREAMBLE_OPS,
                             [(i, 'pc %s "%s" "%s"' % (polish_term(rows[i]["polish"]), rows[i]["dense"], rows[i]["readable"]))
                              for i in pick], chunk=max(8, len(pick) // C.NPROC + 1), tag="casts")
    vm_ids = set(cid for cid, _ in vm_bad)
    disagree = [i for i in pick if (i in vm_ids) != any(d.startswith("dense/readable") for d in bad.get(i, []))]
    ctx.obligation("extracted checker agrees with vm_compute inside coqc on %d sampled cast trees" % len(pick),
                   not disagree, "disagreements at cases %r" % disagree[:5])
    reparse_bad = [i for i, r in enumerate(rows) if any(r[f] not in ("ok", "okp") for f in ("dflag", "rflag", "tflag"))]
    # non-trivial: the operand needed the trailing-cast parentheses (a '(' was written that is not an explicit node)
    nt = sum(1 for r in rows if bytes.fromhex(r["dense"]).count(b"(") > r["polish"].split(",").count("P") and r["polish"] != "-"
             or (r["polish"] == "-" and b"(" in bytes.fromhex(r["dense"])))
    ctx.stream(name, len(rows), nt, [{"tree": r["tag"], "dense": text_of(r["dense"])} for r in rows[3:6]],
               mismatches=len(bad), reparse_mismatches=len(reparse_bad), modelled=len(modelled), evaluated_in_coqc=len(pick))
    model_only = []
    for i in sorted(set(bad) | set(reparse_bad)):
        r = rows[i]
        diags = bad.get(i, [])
        replay = {"stream": "trailing casts", "case": r["tag"], "tree_polish": r["polish"], "span": r["span"],
                  "dense": text_of(r["dense"]), "readable": text_of(r["readable"]), "token_based": text_of(r["tokenbased"]),
                  "diag": diags, "darklua_parser": [r["dflag"], r["rflag"], r["tflag"]]}
        if i in reparse_bad or any("ORACLE" in d for d in diags):
            if len([v for v in ctx.violations if v[1].get("stream") == "trailing casts"]) < 4:
                ctx.violation("an expression with a trailing type cast is not read back as the same tree (reference parser: %s; "
                              "darklua parser dense/readable/token-based: %s/%s/%s)"
                              % ("; ".join(diags) or "ok", r["dflag"], r["rflag"], r["tflag"]), replay,
                              key="cast:%s:%d" % (r["tag"], r["span"]))
        else:
            model_only.append((r, "; ".join(diags)))
    return model_only


def run_sources(ctx, out):
    """parsed sources through darklua_core::process (rules: []) with each generator"""
    name = ("parsed sources through process(): 34 final expressions (every Expression variant, type instantiation and casts "
            "plain and nested) x 5 statement forms x 8 following statements, written with an explicit ';', generators "
            "retain_lines, dense and readable at column spans 0, 1, 7, 80: the output must parse to the same statements")
    rows = []
    skipped = 0
    for line in out.splitlines():
        p = line.split(" ")
        if len(p) != 8 or p[0] != "src":
            continue
        if p[2] == "unparsable":
            skipped += 1
            continue
        rows.append({"generator": p[2], "span": int(p[3]), "source": p[4], "output": p[5], "flag": p[6], "nl": parse_nl(p[7] + ",0"),
                     "tag": "source"})
    bad = [r for r in rows if r["flag"] not in ("ok", "okp") or r["output"] == "FAILED"]
    nt = sum(1 for r in rows if bytes.fromhex(r["source"]).split(b"\n")[1].startswith(b"("))
    nlbad = [r for r in rows if r["nl"][0]]
    ctx.stream(name, len(rows), nt, [{"source": text_of(r["source"]), "output": text_of(r["output"])} for r in rows[9:12]],
               mismatches=len(bad), call_parentheses_starting_a_line=len(nlbad), unparsable_sources_skipped=skipped)
    ctx.obligation("every source of the parsed-source stream is accepted by darklua's parser", skipped == 0, "skipped=%d" % skipped)
    for r in bad[:4]:
        src = text_of(r["source"])
        ctx.violation("process() with generator %s (column_span %d) does not write back the same statements (%s)"
                      % (r["generator"], r["span"], r["flag"]),
                      {"stream": "parsed sources", "source": src, "generator": r["generator"], "column_span": r["span"],
                       "output": text_of(r["output"]) if r["output"] != "FAILED" else "FAILED"},
                      key="source:%s:%s:%d" % (r["source"][:80], r["generator"], r["span"]))
    for r in nlbad[:3]:
        ctx.violation("process() with generator %s (column_span %d): the '(' of a call starts a line" % (r["generator"], r["span"]),
                      {"stream": "parsed sources", "source": text_of(r["source"]), "output": text_of(r["output"])},
                      key="source-nl:%s:%s:%d" % (r["source"][:80], r["generator"], r["span"]))


PREAMBLE_ST = """From DL Require Import Lib.Bytes Model.Lexer Model.DenseGen Model.Precedence Model.C02Check.
Open Scope N_scope.
Open Scope string_scope.
Definition sc (e : bool) (a b d r : string) : scase :=
  {| s_exprend := e; s_a := unhex a; s_b := unhex b; s_dense := unhex d; s_readable := unhex r |}.
Definition check_case (c : scase) : bool := scheck_case c.
Definition diag_case (c : scase) : string := to_string (sdiag_bytes c).
"""


def run_stmts(ctx, out, exe, vm_sample):
    name = ("statement boundaries: every Expression variant as the final expression (35 samples, type instantiation and casts "
            "plain and under unary / binary / if-else, trees whose last operand the generator wraps in parentheses) x 7 "
            "statement forms x 8 following statements (7 starting with a parenthese), dense / readable / token-based: "
            "reference token criterion for the mandatory ';' and darklua parser round trip")
    rows = []
    for line in out.splitlines():
        p = line.split(" ")
        if len(p) != 14 or p[0] != "st":
            continue
        rows.append({"span": int(p[2]), "exprend": p[3], "a": undash(p[4]), "b": undash(p[5]), "dense": undash(p[6]),
                     "readable": undash(p[7]), "dflag": p[8], "rflag": p[9], "tag": p[10], "nl": parse_nl(p[11]),
                     "tokenbased": undash(p[12]), "tflag": p[13]})
    lines = ["st %d %s %s %s %s %s" % (i, r["exprend"], r["a"] or "-", r["b"] or "-", r["dense"] or "-", r["readable"] or "-")
             for i, r in enumerate(rows)]
    rc, res = C.sh([exe], input="\n".join(lines) + "\n", timeout=3000)
    bad = []
    done = None
    for line in res.splitlines():
        if line.startswith("bad "):
            _, cid, diag = (line.split(" ", 2) + [""])[:3]
            bad.append((int(cid), diag))
        elif line.startswith("done "):
            done = int(line.split()[1])
    if rc != 0 or done != len(rows):
        raise C.CheckBroken("extracted C02 checker failed on statement boundaries (rc=%s):\n%s" % (rc, res[-1500:]))
    flagged = sorted(set(cid for cid, _ in bad))[:20]
    pick = sorted(set(list(range(0, len(rows), max(1, len(rows) // vm_sample))) + flagged))
    vm_bad = C.run_coq_cases(ctx.prop, PREAMBLE_ST,
                             [(i, 'sc %s "%s" "%s" "%s" "%s"' % ("true" if rows[i]["exprend"] == "1" else "false", rows[i]["a"],
                                                                 rows[i]["b"], rows[i]["dense"], rows[i]["readable"]))
                              for i in pick], chunk=max(8, len(pick) // C.NPROC + 1), tag="stmts")
    bad_ids = set(cid for cid, _ in bad)
    vm_ids = set(cid for cid, _ in vm_bad)
    disagree = [i for i in pick if (i in bad_ids) != (i in vm_ids)]
    ctx.obligation("extracted checker agrees with vm_compute inside coqc on %d sampled statement pairs" % len(pick),
                   not disagree, "disagreements at cases %r" % disagree[:5])
    nt = sum(1 for r in rows if bytes.fromhex(r["b"]).startswith(b"(") and r["exprend"] == "1")
    # NaN / infinity number nodes are written (0/0), (1/0), (-1/0): they never re-parse to a number node, so the round
    # trip is not judged for them; the reference criterion for the ';' is
    special_number = lambda r: r["tag"].split(":")[0] in ("nan", "inf", "neg_inf")
    reparse_bad = [i for i, r in enumerate(rows) if not special_number(r) and
                   (r["dflag"] not in ("ok", "okp") or r["rflag"] not in ("ok", "okp") or r["tflag"] not in ("ok", "okp"))]
    for r in rows:
        if special_number(r):
            r["nl"] = (0, 0)   # the same defect seen by the call-parenthesis oracle
    nl_bad = newline_violations(ctx, name, rows, lambda r: {"pair": r["tag"], "dense": text_of(r["dense"]),
                                                           "readable": text_of(r["readable"])})
    ctx.stream(name, len(rows), nt, [{"pair": r["tag"], "dense": text_of(r["dense"])} for r in rows[40:43]],
               mismatches=len(bad), reparse_mismatches=len(reparse_bad), call_parentheses_starting_a_line=nl_bad,
               evaluated_in_coqc=len(pick))
    for i in sorted(bad_ids | set(reparse_bad)):
        r = rows[i]
        ending = r["tag"].split(":")[0]
        # recorded defect: the last operand is wrapped in parentheses by the generator (no Parenthese node), the next
        # statement starts with "(" and no ";" is written
        known = ending.startswith("genparen") or ending == "ifexp_genparen"
        key = "semicolon:generator-parenthesised-last-operand" if known else "boundary:%s:%d" % (r["tag"], r["span"])
        if ending in ("nan", "inf", "neg_inf"):
            key = "semicolon:nan-infinity-number"
        ctx.violation("a statement ending in a prefix expression is followed by a statement starting with '(' without ';' "
                      "(the text means one call chain) or the block is not read back as the same two statements",
                      {"pair": r["tag"], "span": r["span"], "statement_a": text_of(r["a"]), "statement_b": text_of(r["b"]),
                       "dense": text_of(r["dense"]), "readable": text_of(r["readable"]),
                       "token_based": text_of(r["tokenbased"]), "reference_criterion": dict(bad).get(i, "ok"),
                       "darklua_parser": [r["dflag"], r["rflag"], r["tflag"]]}, key=key)


PREAMBLE_STR = """From DL Require Import Lib.Bytes Model.Lexer Model.DenseGen Model.Precedence Model.C02Check.
Open Scope N_scope.
Open Scope string_scope.
Definition vc (v d r : string) : vcase := {| v_value := unhex v; v_dense := unhex d; v_readable := unhex r |}.
Definition check_case (c : vcase) : bool := vcheck_case c.
Definition diag_case (c : vcase) : string := to_string (vdiag_bytes c).
"""


def run_strings(ctx, out, exe, vm_sample):
    name = ("long bracket candidates (>= 60 printable bytes or >= 20 bytes with >= 6 new lines, closers of levels 0..k-1 "
            "inside, ending in ']' '='^j, optional leading new line) as return value, index key, call argument, string "
            "call, table key, concat operand: the reference lexer reads exactly one string token and the C13 reference "
            "decoder decodes it to the value")
    rows = []
    for line in out.splitlines():
        p = line.split(" ")
        if len(p) != 9 or p[0] != "str":
            continue
        rows.append({"span": int(p[2]), "value": undash(p[3]), "dense": undash(p[4]), "readable": undash(p[5]),
                     "dflag": p[6], "rflag": p[7], "tag": p[8]})
    lines = ["str %d %s %s %s" % (i, r["value"] or "-", r["dense"] or "-", r["readable"] or "-") for i, r in enumerate(rows)]
    shards = [lines[k::C.NPROC] for k in range(C.NPROC)]
    bad = []

    def one(shard):
        if not shard:
            return 0, "done 0\n"
        return C.sh([exe], input="\n".join(shard) + "\n", timeout=3000)
    with C.ThreadPoolExecutor(max_workers=C.NPROC) as ex:
        for shard, (rc, res) in zip(shards, ex.map(one, shards)):
            done = None
            for line in res.splitlines():
                if line.startswith("bad "):
                    _, cid, diag = (line.split(" ", 2) + [""])[:3]
                    bad.append((int(cid), diag))
                elif line.startswith("done "):
                    done = int(line.split()[1])
            if rc != 0 or done != len(shard):
                raise C.CheckBroken("extracted C02 checker failed on string literals (rc=%s):\n%s" % (rc, res[-1500:]))
    flagged = sorted(set(cid for cid, _ in bad))[:10]
    pick = sorted(set(list(range(0, len(rows), max(1, len(rows) // vm_sample))) + flagged))
    vm_bad = C.run_coq_cases(ctx.prop, PREAMBLE_STR,
                             [(i, 'vc "%s" "%s" "%s"' % (rows[i]["value"], rows[i]["dense"], rows[i]["readable"])) for i in pick],
                             chunk=max(4, len(pick) // C.NPROC + 1), tag="strings")
    bad_ids = set(cid for cid, _ in bad)
    vm_ids = set(cid for cid, _ in vm_bad)
    disagree = [i for i in pick if (i in bad_ids) != (i in vm_ids)]
    ctx.obligation("extracted checker agrees with vm_compute inside coqc on %d sampled string literals" % len(pick),
                   not disagree, "disagreements at cases %r" % disagree[:5])
    # non-trivial: the value was written as a long bracket literal
    nt = sum(1 for r in rows if b"[[" in bytes.fromhex(r["dense"]) or b"[=" in bytes.fromhex(r["dense"]))
    reparse_bad = [i for i, r in enumerate(rows) if r["dflag"] not in ("ok", "okp") or r["rflag"] not in ("ok", "okp")]
    ctx.stream(name, len(rows), nt, [{"value": text_of(r["value"])[-30:], "dense": text_of(r["dense"])[-40:]} for r in rows[30:33]],
               mismatches=len(bad), reparse_mismatches=len(reparse_bad), evaluated_in_coqc=len(pick))
    for i in sorted(bad_ids | set(reparse_bad))[:4]:
        r = rows[i]
        ctx.violation("a string value is not written as one literal that decodes to the value (%s; darklua's parser: %s/%s)"
                      % (dict(bad).get(i, "reference lexer+decoder ok").strip(), r["dflag"], r["rflag"]),
                      {"value_hex": r["value"], "value_tail": text_of(r["value"])[-40:], "position": r["tag"], "span": r["span"],
                       "dense": text_of(r["dense"]), "readable": text_of(r["readable"])},
                      key="string-literal:%s" % r["value"][-60:])


def run_types(ctx, out, table_out):
    """type trees built through the node API (no ParentheseType) written by the three generators"""
    name = ("type trees: every constructor (optional, union, intersection, function type with type / variadic / pack "
            "return, array, table) with every kind of type at every member position (first, middle, last), plus seeded "
            "deeper trees, without any ParentheseType node, written as type declaration, typed local, parameter, return "
            "type and cast by dense, readable (spans 80, 7) and token-based: (a) dense and readable have the same tokens, "
            "(b) darklua's parser reads back the same tree modulo ParentheseType, (c) an independent reader of Luau's type "
            "syntax (vlib/c02_types.py) reads the type back as the same type")
    rows = []
    for line in out.splitlines():
        p = line.split(" ")
        if len(p) != 11 or p[0] != "ty":
            continue
        rows.append({"context": p[2], "span": int(p[3]), "code": p[4], "dense": undash(p[5]), "readable": undash(p[6]),
                     "tokenbased": undash(p[7]), "flags": p[8:11]})
    failing = []
    checked_c = 0
    for i, r in enumerate(rows):
        problems = []
        if any(f not in ("ok", "okp") for f in r["flags"]):
            problems.append("darklua parser dense/readable/token-based: %s" % "/".join(r["flags"]))
        texts = {g: text_of(r[g]) for g in ("dense", "readable", "tokenbased")}
        try:
            if TY.tokenize(texts["dense"]) != TY.tokenize(texts["readable"]):
                problems.append("dense and readable write different tokens")
        except TY.TypeSyntaxError as ex:
            problems.append("cannot tokenize: %s" % ex)
        if r["context"] == "type_declaration":
            for g, text in texts.items():
                if "=" not in text:
                    problems.append("%s: no type written" % g)
                    continue
                checked_c += 1
                verdict = TY.check(r["code"], text.split("=", 1)[1])
                if verdict:
                    problems.append("%s: %s" % (g, verdict))
        if problems:
            failing.append((i, "; ".join(problems)))
    # the effective parenthesisation table of each generator against the rules of the syntax
    table_bad = []
    table_rows = 0
    for line in table_out.splitlines():
        p = line.split(" ")
        if len(p) == 6 and p[0] == "tparen":
            table_rows += 1
            if TY.required(p[2], p[3], p[4]) and p[5] != "1":
                table_bad.append("%s: %s member of %s at position %s is not wrapped" % (p[1], p[4], p[2], p[3]))
    ctx.obligation("effective type parenthesisation of dense, readable and token-based (read back from their output, %d "
                   "entries: container x position x member kind) wraps every member Luau's syntax requires to be wrapped"
                   % table_rows, not table_bad and table_rows > 0 and "end" in table_out, "; ".join(table_bad[:6]))
    nt = sum(1 for r in rows if "(" in text_of(r["dense"]).split("=", 1)[-1].replace("()", "").replace("(z)", "")
             and r["context"] == "type_declaration")
    ctx.stream(name, len(rows), nt, [{"tree": r["code"], "dense": text_of(r["dense"])} for r in rows[500:503]],
               mismatches=len(failing), read_by_reference_type_reader=checked_c, distinct_trees=len(set(r["code"] for r in rows)))
    for i, d in failing[:4]:
        r = rows[i]
        ctx.violation("a type tree is not written as text that means the same type (%s)" % d,
                      {"stream": "type trees", "tree": r["code"], "context": r["context"], "span": r["span"],
                       "dense": text_of(r["dense"]), "readable": text_of(r["readable"]), "token_based": text_of(r["tokenbased"])},
                      key="type:%s:%s:%d" % (r["code"][:80], r["context"], r["span"]))


def run_decls(ctx, out):
    """declarations: an independent count of what each variable receives, tree vs re-parsed output"""
    name = ("declarations: local and const, 1-4 variables, 0-4 values, last value in {literal, nil, call, method call, ..., "
            "(f()), (...), if-expression, table, f()(), string, f()+f()}, earlier values literals or calls/..., built through "
            "the node API (dense, readable at spans 0, 7, 80, token-based) and as parsed sources through process() "
            "(retain_lines, dense, readable at spans 1, 80): what each variable receives (positional, expansion of a "
            "trailing call or ..., nil for the rest; Lua manual 2.4.3) is the same for the tree and for the re-parsed text, "
            "and every value expression is still written in order")
    rows = []
    pad = []
    skipped = 0
    for line in out.splitlines():
        p = line.split(" ")
        if p[0] == "decl" and len(p) == 8:
            if p[7] == "skip":
                skipped += 1
                continue
            rows.append({"origin": p[2], "generator": p[3], "span": int(p[4]), "tag": p[5], "text": p[6], "verdict": p[7]})
        elif p[0] == "declpad" and len(p) == 4:
            pad.append((p[1], int(p[2]), int(p[3])))
    if "end" not in out.splitlines()[-1:]:
        raise C.CheckBroken("dl-c02 decls: truncated output")
    wrong = [k for k, nils, multi in pad if (nils == 0) != (multi == 1)]
    ctx.obligation("required_nil_values pads a const declaration exactly when the last value is not a call or ... outside "
                   "parentheses (hypothesis of theorem const_padding_neutral), over %d kinds of last value" % len(pad),
                   not wrong and len(pad) >= 10, "wrong for: %s" % ", ".join(wrong))
    bad = [r for r in rows if r["verdict"] != "ok"]
    nt = sum(1 for r in rows if int(r["tag"].split(":")[1]) != int(r["tag"].split(":")[2]))
    ctx.stream(name, len(rows), nt, [{"declaration": r["tag"], "generator": r["generator"], "text": text_of(r["text"])} for r in rows[700:703]],
               mismatches=len(bad), sources_rejected_by_the_parser=skipped)
    for r in bad[:4]:
        ctx.violation("%s generator (column span %d) writes a declaration whose variables do not receive the values the tree "
                      "gives them: %s" % (r["generator"], r["span"], r["verdict"]),
                      {"stream": "declarations", "declaration": r["tag"], "origin": r["origin"], "generator": r["generator"],
                       "span": r["span"], "text": text_of(r["text"]) if r["text"] not in ("PANIC", "FAILED") else r["text"],
                       "verdict": r["verdict"]},
                      key="decl:%s:%s:%d" % (r["tag"], r["generator"], r["span"]))


PREAMBLE_NODE = """From DL Require Import Lib.Bytes Model.Lexer Model.DenseGen Model.Precedence Model.C02Check.
Open Scope N_scope.
Open Scope string_scope.
Definition lit (i : bool) (h : string) : bool * bytes := (i, unhex h).
Definition nc (l : list (bool * bytes)) (t r : string) : ncase := {| n_lits := l; n_text := unhex t; n_ref := unhex r |}.
Definition check_case (c : ncase) : bool := ncheck_case c.
Definition diag_case (c : ncase) : string := to_string (ndiag_bytes c).
"""


def run_nodes(ctx, out, exe, vm_sample):
    """every generator entry point at node level, small spans, trees with long multi-part tokens"""
    name = ("entry points at node level: 16 expressions with long multi-part tokens (interpolated strings with long / adjacent "
            "text segments and holes, long quoted and long bracket strings, long numbers) through write_expression, "
            "write_last_statement, write_statement (4 forms) and write_block of the dense and readable generators at column "
            "spans 0..40, 80, 120: same reference-lexer tokens as the unbounded dense text, every literal token decodes "
            "(StringLit.decode_literal / decode_segment) to the node's value, darklua parser agrees, no call '(' starts a line")
    rows = []
    for line in out.splitlines():
        p = line.split(" ")
        if len(p) != 11 or p[0] != "node":
            continue
        rows.append({"generator": p[2], "entry": p[3], "span": int(p[4]), "lits": p[5], "text": undash(p[6]), "ref": undash(p[7]),
                     "flag": p[8], "nl": parse_nl(p[9] + ",0"), "tag": p[10]})
    uniq = {}
    for i, r in enumerate(rows):
        uniq.setdefault((r["lits"], r["text"], r["ref"]), i)
    reps = sorted(uniq.values())
    lines = ["node %d %s %s %s" % (i, rows[i]["lits"], rows[i]["text"] or "-", rows[i]["ref"] or "-") for i in reps]
    shards = [lines[k::C.NPROC] for k in range(C.NPROC)]
    bad = {}

    def one(shard):
        if not shard:
            return 0, "done 0\n"
        return C.sh([exe], input="\n".join(shard) + "\n", timeout=3000)
    with C.ThreadPoolExecutor(max_workers=C.NPROC) as ex:
        for shard, (rc, res) in zip(shards, ex.map(one, shards)):
            done = None
            for line in res.splitlines():
                if line.startswith("bad "):
                    _, cid, diag = (line.split(" ", 2) + [""])[:3]
                    bad[int(cid)] = diag.strip()
                elif line.startswith("done "):
                    done = int(line.split()[1])
            if rc != 0 or done != len(shard):
                raise C.CheckBroken("extracted C02 checker failed on node-level cases (rc=%s):\n%s" % (rc, res[-1500:]))
    pick = sorted(set(reps[::max(1, len(reps) // vm_sample)] + sorted(bad)[:10]))

    def term(r):
        lits = "[" + "; ".join('lit %s "%s"' % ("true" if l[0] == "i" else "false", l[1:]) for l in
                                 ([] if r["lits"] == "-" else r["lits"].split(","))) + "]"
        return 'nc %s "%s" "%s"' % (lits, r["text"], r["ref"])
    vm_bad = C.run_coq_cases(ctx.prop, PREAMBLE_NODE, [(i, term(rows[i])) for i in pick],
                             chunk=max(8, len(pick) // C.NPROC + 1), tag="nodes")
    vm_ids = set(cid for cid, _ in vm_bad)
    disagree = [i for i in pick if (i in vm_ids) != (i in bad)]
    ctx.obligation("extracted checker agrees with vm_compute inside coqc on %d sampled node-level cases" % len(pick),
                   not disagree, "disagreements at cases %r" % disagree[:5])
    # verdict of a representative applies to its duplicates
    key_of = lambda r: (r["lits"], r["text"], r["ref"])
    bad_keys = {key_of(rows[i]): d for i, d in bad.items()}
    failing = []
    for i, r in enumerate(rows):
        d = bad_keys.get(key_of(r), "")
        if r["flag"] != "ok":
            d = (d + " darklua parser: " + r["flag"]).strip()
        if r["nl"][0]:
            d = (d + " call parenthesis starts a line").strip()
        if d:
            failing.append((i, d))
    nt = sum(1 for r in rows if r["text"] != r["ref"])
    ctx.stream(name, len(rows), nt, [{"entry": r["entry"], "generator": r["generator"], "span": r["span"], "text": text_of(r["text"])}
                                     for r in rows[200:203]],
               mismatches=len(failing), distinct_texts=len(reps), evaluated_in_coqc=len(pick))
    for i, d in failing[:4]:
        r = rows[i]
        ctx.violation("%s generator, %s at column span %d: %s" % (r["generator"], r["entry"], r["span"], d),
                      {"stream": "entry points at node level", "tree": r["tag"], "generator": r["generator"], "entry_point": r["entry"],
                       "span": r["span"], "text": text_of(r["text"]), "reference_dense_unbounded": text_of(r["ref"]),
                       "expected_literals": r["lits"], "diag": d},
                      key="node:%s:%s:%s:%d" % (r["tag"], r["generator"], r["entry"], r["span"]))


PREAMBLE_LEAF = """From DL Require Import Lib.Bytes Model.Lexer Model.DenseGen Model.Precedence Model.C02Check.
Open Scope N_scope.
Open Scope string_scope.
Definition lc (i : bool) (v d r : string) : bool * vcase :=
  (i, {| v_value := unhex v; v_dense := unhex d; v_readable := unhex r |}).
Definition check_case (c : bool * vcase) : bool := if fst c then icheck_case (snd c) else vcheck_case (snd c).
Definition diag_case (c : bool * vcase) : string := if fst c then "INTERP-STRING" else to_string (vdiag_bytes (snd c)).
"""


def run_leaves(ctx, out, exe, vm_sample):
    """literal leaves: the reference decoder applied to the literal token the reference lexer finds in the output"""
    name = ("literal leaves: quoted and backtick strings where a byte without a named escape (0,1,2,5,6,14,27,31,127,200) is "
            "followed by each digit 0-9; strings long enough for the long bracket form containing CR, CRLF, LFCR, TAB, FF, "
            "control bytes, a leading new line, ]] / ]=] inside, a trailing ] or ]=; numbers (decimal incl. extremes and "
            "exponent forms, hexadecimal, binary): the reference lexer finds one literal token, the reference decoder "
            "(Model/StringLit) decodes it to the node's value; numbers are re-read by Rust's std parser")
    rows = []
    for line in out.splitlines():
        p = line.split(" ")
        if len(p) != 10 or p[0] != "leaf":
            continue
        rows.append({"span": int(p[2]), "kind": p[3], "value": undash(p[4]), "dense": undash(p[5]), "readable": undash(p[6]),
                     "dflag": p[7], "rflag": p[8], "extra": p[9]})
    strs = [i for i, r in enumerate(rows) if r["kind"] in ("s", "i")]
    lines = ["%s %d %s %s %s" % ("str" if rows[i]["kind"] == "s" else "istr", i, rows[i]["value"] or "-",
                                 rows[i]["dense"] or "-", rows[i]["readable"] or "-") for i in strs]
    rc, res = C.sh([exe], input="\n".join(lines) + "\n", timeout=3000)
    bad = {}
    done = None
    for line in res.splitlines():
        if line.startswith("bad "):
            _, cid, diag = (line.split(" ", 2) + [""])[:3]
            bad[int(cid)] = diag.strip()
        elif line.startswith("done "):
            done = int(line.split()[1])
    if rc != 0 or done != len(lines):
        raise C.CheckBroken("extracted C02 checker failed on literal leaves (rc=%s):\n%s" % (rc, res[-1500:]))
    pick = sorted(set(strs[::max(1, len(strs) // vm_sample)] + sorted(bad)[:10]))
    vm_bad = C.run_coq_cases(ctx.prop, PREAMBLE_LEAF,
                             [(i, 'lc %s "%s" "%s" "%s"' % ("true" if rows[i]["kind"] == "i" else "false", rows[i]["value"],
                                                            rows[i]["dense"], rows[i]["readable"])) for i in pick],
                             chunk=max(8, len(pick) // C.NPROC + 1), tag="leaves")
    vm_ids = set(cid for cid, _ in vm_bad)
    disagree = [i for i in pick if (i in vm_ids) != (i in bad)]
    ctx.obligation("extracted checker agrees with vm_compute inside coqc on %d sampled literal leaves" % len(pick),
                   not disagree, "disagreements at cases %r" % disagree[:5])
    for i, r in enumerate(rows):
        if r["kind"] == "n" and r["extra"] != "ok":
            bad[i] = "NUMBER re-read by std differs from the node's value"
        # numbers: the value comparison above decides; the re-parsed NODE may record another exponent (a number whose
        # mantissa/exponent spelling would lose precision is written by `{:e}`), which is presentation, not meaning
        accepted = ("ok", "okp", "diff") if r["kind"] == "n" else ("ok", "okp")
        if r["dflag"] not in accepted or r["rflag"] not in accepted:
            bad[i] = (bad.get(i, "") + " darklua parser: %s/%s" % (r["dflag"], r["rflag"])).strip()
    # non-trivial: the literal contains an escape or is a long bracket
    nt = sum(1 for r in rows if r["kind"] == "n" or b"\\" in bytes.fromhex(r["dense"]) or b"[[" in bytes.fromhex(r["dense"])
             or b"[=" in bytes.fromhex(r["dense"]))
    leaves = len(set((r["kind"], r["value"]) for r in rows))
    ctx.stream(name, len(rows), nt, [{"value_hex": r["value"], "dense": text_of(r["dense"])} for r in rows[15:18]],
               mismatches=len(bad), distinct_leaves=leaves, evaluated_in_coqc=len(pick))
    for i in sorted(bad)[:4]:
        r = rows[i]
        ctx.violation("a literal leaf is not written as a literal that means its value (%s)" % bad[i],
                      {"kind": {"s": "string", "i": "backtick string", "n": "number"}[r["kind"]], "value_hex": r["value"],
                       "span": r["span"], "dense": text_of(r["dense"]), "readable": text_of(r["readable"])},
                      key="leaf:%s:%s" % (r["kind"], r["value"][:60]))


def dump_tables(ctx):
    out = C.harness("dl-c02", ["tables", "--seed", str(ctx.seed)])
    tables = T.parse_tables(out)
    for name, (checked, mism, on_empty) in tables["brcheck"].items():
        ctx.obligation("break_%s depends only on the first and last character of the previous push "
                       "(%d random longer strings) and is false on the empty string" % (name, checked),
                       mism == 0 and on_empty == "false", "mismatches=%d empty=%s" % (mism, on_empty))
    return tables


def run(ctx):
    for f in os.listdir(C.REPLAYS) if os.path.isdir(C.REPLAYS) else []:
        if f.startswith(ctx.prop + "-"):
            os.remove(os.path.join(C.REPLAYS, f))
    C.build_harness("dl-c02")
    tables = dump_tables(ctx)
    prec = T.parse_prec(C.harness("dl-c02", ["prec"]))
    ctx.obligation("the unary-operand parenthesis rule read back from both generators' output equals "
                   "!precedes_unary_expression for all 16 x 3 operator pairs", prec["unary_operand_check"] == [0],
                   "mismatches=%r" % prec["unary_operand_check"])
    ctx.obligation("casts: M.T is treated as T by left_needs_parentheses, T? is not, and right_needs_parentheses never "
                   "wraps a cast (all 16 operators)", prec["castcheck"] == [0], "mismatches=%r" % prec["castcheck"])
    ctx.obligation("no atom kind (%d samples) is ever parenthesised by left/right_needs_parentheses" % prec["atomcheck"][0],
                   prec["atomcheck"][1] == 0, "parenthesised=%d" % prec["atomcheck"][1])
    T.write_if_changed(T.GENERATED_V, T.coq_source(
        tables, prec, "GENERATED on every run of ./check C02 from `dl-c02 tables` / `dl-c02 prec` (the compiled Rust code)."))
    diffs = T.diff_frozen(tables, prec)
    ctx.cov.setdefault("streams", {})
    proofs_ok = C.proof_gate(ctx, extra_targets=["Generated/C02Tables.vo", "Model/C02Check.vo", "Model/Precedence.vo"])
    # the decidable conditions of the theorems, re-evaluated on the tables dumped from the current code
    walk = "; ".join("(%s, %s)" % (ty_term(code), "true" if flag else "false") for code, flag in prec["tywalk"])
    for fname, text, name in (("C02Current.v", CURRENT_V, "current_table_ok: spacing_ok tbl = true"),
                              ("C02CurrentPrec.v", CURRENT_PREC_V % walk,
                               "current_prec_ok: prec_ok ptbl = true; current_type_walk_ok: trailing_bare = dumped type walk "
                               "on %d types" % len(prec["tywalk"]))):
        path = os.path.join(C.COQ, "Generated", fname)
        T.write_if_changed(path, text)
        with C.Lock("coq"):
            rc, log = C.coqc_file(path, timeout=900)
        ctx.obligation("Example %s (condition of the theorem on the tables dumped from the current code, vm_compute)" % name,
                       rc == 0, "" if rc == 0 else log[-600:] + " | changed vs frozen: " + "; ".join(diffs[:20]))
        if rc != 0:
            proofs_ok = False
    exe = build_evaluator()
    ctx.cov["streams"]["tables vs frozen copy"] = dict(evaluations=128 * 128 * 6, distinct_nontrivial=0,
                                                       changed_entries=diffs[:40])

    quick = ctx.tier == "quick"
    n = 400 if quick else 6000
    out = C.harness("dl-c02", ["stream", "--seed", str(ctx.seed), "--n", str(n)], timeout=1800)
    rows = parse_cases(out)
    model_only = run_stream(ctx, "random trees: model of the push automaton vs dense.rs; reference lexer on both generators; darklua parser round trip",
                            rows, exe, 48 if quick else 600)

    out = C.harness("dl-c02", ["pairs"] + (["--two-spans"] if quick else ["--all-spans"]), timeout=1800)   # quick: spans 7, unbounded
    rows = parse_cases(out)
    model_only += run_stream(ctx, "adjacent pairs: every ordered pair of 35 expression samples (one per token class) written next to "
                             "each other in every syntactic position", rows, exe, 16 if quick else 300)

    out = C.harness("dl-c02", ["ops", "--seed", str(ctx.seed)] + (["--sample", "1500"] if quick else ["--full", "--sample", "20000"]),
                    timeout=1800)
    ops_model_only = run_ops(ctx, parse_ops(out), exe, 80 if quick else 400)
    if ops_model_only and not ctx.violations:
        r, diag = ops_model_only[0]
        ctx.violation("correspondence broken: the generators' parentheses differ from Model/Precedence.tokens_of_expr on the "
                      "dumped predicates (the parenthesisation theorem no longer applies to the code as modelled); the "
                      "reference parser still reads every text back as the same tree",
                      {"tree_polish": r["polish"], "dense": text_of(r["dense"]), "readable": text_of(r["readable"]),
                       "diag": diag, "mismatches": len(ops_model_only)}, found_input=False)

    run_stmts(ctx, C.harness("dl-c02", ["stmts"], timeout=1800), exe, 60 if quick else 300)

    casts_model_only = run_casts(ctx, C.harness("dl-c02", ["casts"], timeout=1800), exe, 60 if quick else 300)
    if casts_model_only and not ctx.violations:
        r, diag = casts_model_only[0]
        ctx.violation("correspondence broken: the generators' parentheses around a trailing cast differ from "
                      "Model/Precedence.tokens_of_expr on the dumped predicates; every text is still read back as the same tree",
                      {"case": r["tag"], "tree_polish": r["polish"], "dense": text_of(r["dense"]), "readable": text_of(r["readable"]),
                       "token_based": text_of(r["tokenbased"]), "diag": diag, "mismatches": len(casts_model_only)},
                      found_input=False)
    run_sources(ctx, C.harness("dl-c02", ["sources"], timeout=1800))

    run_leaves(ctx, C.harness("dl-c02", ["leaves"], timeout=1800), exe, 40 if quick else 200)
    run_nodes(ctx, C.harness("dl-c02", ["nodes"], timeout=1800), exe, 40 if quick else 200)
    run_decls(ctx, C.harness("dl-c02", ["decls"], timeout=1800))
    run_types(ctx, C.harness("dl-c02", ["types", "--seed", str(ctx.seed), "--random", "150" if quick else "3000"], timeout=1800),
              C.harness("dl-c02", ["typetable"], timeout=600))

    rows = parse_cases(C.harness("dl-c02", ["calls"], timeout=1800))
    model_only += run_stream(ctx, "calls at small spans: zero- and one-argument calls (function and method form, chains, parenthesised "
                             "callee) at every column span from 0 to the statement length + 2", rows, exe, 40 if quick else 200)

    run_strings(ctx, C.harness("dl-c02", ["strings", "--seed", str(ctx.seed), "--random", "40" if quick else "600"], timeout=1800),
                exe, 8 if quick else 100)

    if model_only and not ctx.violations:
        r, diag = model_only[0]
        ctx.violation("correspondence broken: the dense generator's output differs from Model/DenseGen.emit on the push "
                      "list of the walker (the no-fusion theorem no longer applies to the code as modelled); the output "
                      "still lexes to the intended tokens",
                      {"span": r["span"], "items": r["items"], "rust_dense": text_of(r["dense"]), "diag": diag[:2000],
                       "mismatches": len(model_only)}, found_input=False)
    if not proofs_ok and not ctx.violations:
        failed = [n for n, ok, _ in ctx.obligations if not ok]
        ctx.violation("proof obligation no longer checks: " + "; ".join(failed), {"obligations": failed,
                      "table_changes_vs_frozen": diffs[:40]}, found_input=False)


def replay(ctx, path):
    r = json.load(open(path))
    print(json.dumps(r, indent=1))
    return 0


if __name__ == "__main__":
    if "--freeze" in sys.argv:
        C.build_harness("dl-c02")
        tables = T.parse_tables(C.harness("dl-c02", ["tables"]))
        try:
            prec = T.parse_prec(C.harness("dl-c02", ["prec"]))
        except C.CheckBroken:
            prec = None
        T.freeze(tables, prec)
        print("frozen copies rewritten")
