"""Lua/Luau source generator for the token-layer properties (C03, C04, C18).

A program is first generated as a flat list of tokens (grammar-directed, always syntactically
valid), then a *layout* puts trivia into every gap between two tokens: nothing (when the two
tokens do not fuse), spaces, tabs, line breaks (LF or CRLF), blank lines, line comments, long
comments of several levels.  Every token kind and every literal spelling of the property text
is produced: escapes, long brackets, hex / binary / underscored numbers, interpolated
strings, `;` separators, both table separators, call sugar with strings and tables.

Deterministic for a given random.Random."""
import random

from . import c18_lex as L

KEYWORDS = {"and", "break", "do", "else", "elseif", "end", "false", "for", "function", "if", "in", "local",
            "nil", "not", "or", "repeat", "return", "then", "true", "until", "while"}

NAMES = ["a", "b", "c", "x", "y", "foo", "bar_1", "_", "_G", "self", "value", "T", "i", "k", "v", "n0", "continue_", "typeof"]
FIELDS = ["x", "y", "name", "len", "_p", "a1", "type", "export"]
NUMBERS = ["0", "1", "42", "3.14", ".5", "5.", "1e10", "1E-3", "2.5e+3", "0x10", "0XfF", "0xA_B", "0b101", "0B1_0",
           "1_000_000", "1__0", "0.000_1", "9007199254740993", "1e308", "0x7fffffff", "3e0", "00012", "0_1"]
STRINGS = ["''", '""', "'a'", '"b"', "'it\\'s'", '"q\\"q"', "'\\n\\t\\\\'", '"\\065\\10"', "'\\x41\\u{48}'", "'\\z   x'",
           '"tab\\tend"', "[[long]]", "[==[with ]] and ]=] inside]==]", "[=[\nfirst newline]=]", "[[multi\nline\ntext]]",
           "'\\\nnext'", '"caf\xc3\xa9 \xe2\x9c\x93"', "'--not a comment'", '"[[not long]]"', "'`'", "[[]]", "[=[]]]=]",
           "'\\a\\b\\f\\v\\r'", '"\\u{1F600}"', "'\\255\\0'",
           # tokens that span lines: `\z` + line break, two continuation lines, long string of level 2
           '"skip\\z\n    over"', "'one\\\ntwo\\\nthree'", "[==[\n\n]==]",
           # empty values in every string form, and non-empty text with an empty value
           "[==[]==]", "[=[\n]=]", '"\\z  "', "'\\z\n   '"]
BINOPS = ["+", "-", "*", "/", "//", "%", "^", "..", "==", "~=", "<", "<=", ">", ">=", "and", "or"]
UNOPS = ["-", "not", "#"]
COMPOUND = ["+=", "-=", "*=", "/=", "//=", "%=", "^=", "..="]


class Gen:
    """Token-level program generator.  `toks` is a list of (text, kind) with kind in
    name / keyword / number / string / symbol / istr."""

    def __init__(self, rng, luau=True, markers=None, avoid_known=False, module=False):
        self.rng = rng
        self.module = module      # a required module: no top-level `...`, no top-level return (the caller adds one)
        self.avoid_known = avoid_known
        self.luau = luau
        self.toks = []
        self.depth = 0
        self.loop = 0
        self.vararg = [not module]      # main chunk is vararg
        self.markers = markers    # optional callable producing a literal token text (C04)
        self.fold = 0             # > 0 inside an operator / if-expression (constant folding may re-create literals)
        self.features = set()

    # -- emission helpers
    def t(self, text, kind=None):
        if kind is None:
            kind = "keyword" if text in KEYWORDS else ("name" if (text[:1].isalpha() or text[:1] == "_") else "symbol")
        self.toks.append((text, kind))

    def name(self):
        if self.markers and self.chance(1, 2):
            self.t(self.markers("name"), "name")
        else:
            self.t(self.rng.choice(NAMES), "name")

    def chance(self, a, b):
        return self.rng.randrange(b) < a

    # -- expressions
    def number(self):
        self.features.add("number")
        if self.markers and self.fold == 0:
            self.t(self.markers("number"), "number")
        else:
            self.t(self.rng.choice(NUMBERS), "number")

    def string(self):
        self.features.add("string")
        if self.markers and self.fold == 0 and self.chance(2, 3):
            self.t(self.markers("string"), "string")
        else:
            self.t(self.rng.choice(STRINGS), "string")

    def simple_expr(self):
        r = self.rng.randrange(12)
        if r == 0:
            self.t("nil")
        elif r == 1:
            self.t(self.rng.choice(["true", "false"]))
        elif r <= 4:
            self.number()
        elif r <= 6:
            self.string()
        elif r == 7 and self.vararg[-1]:
            self.features.add("varargs")
            self.t("...", "symbol")
        else:
            self.name()

    def prefix_expr(self, allow_call=True, statement=False):
        """name or parenthesised expression followed by suffixes; returns True when it ends in a call"""
        if self.chance(1, 8) and not statement:
            self.features.add("paren")
            self.fold += 1
            self.t("(")
            self.expr()
            self.t(")")
            self.fold -= 1
        else:
            self.name()
        is_call = False
        n = self.rng.randrange(4) if self.depth < 4 else self.rng.randrange(2)
        for _ in range(n):
            r = self.rng.randrange(8)
            if r <= 1:
                self.features.add("field")
                self.t(".")
                self.t(self.rng.choice(FIELDS), "name")
                is_call = False
            elif r == 2:
                self.features.add("index")
                self.t("[")
                self.expr()
                self.t("]")
                is_call = False
            elif r == 3:
                # nested index, to reach `]]`
                self.features.add("index-nested")
                self.t("[")
                self.name()
                self.t("[")
                self.simple_expr()
                self.t("]")
                self.t("]")
                is_call = False
            elif allow_call:
                if self.chance(1, 3):
                    self.features.add("method")
                    self.t(":")
                    self.t(self.rng.choice(FIELDS), "name")
                self.call_args()
                is_call = True
        return is_call

    def call_args(self):
        r = self.rng.randrange(6)
        if r == 0:
            self.features.add("call-string")
            self.t(self.rng.choice(STRINGS), "string")
        elif r == 1:
            self.features.add("call-table")
            self.table()
        else:
            self.features.add("call")
            self.t("(")
            k = self.rng.randrange(4)
            for i in range(k):
                if i:
                    self.t(",")
                self.expr()
            self.t(")")

    def table(self):
        self.features.add("table")
        self.t("{")
        k = self.rng.randrange(5) if self.depth < 4 else 0
        for i in range(k):
            r = self.rng.randrange(4)
            if r == 0:
                self.features.add("table-index-entry")
                self.t("[")
                self.expr()
                self.t("]")
                self.t("=")
                self.expr()
            elif r == 1:
                self.features.add("table-field-entry")
                self.t(self.rng.choice(FIELDS), "name")
                self.t("=")
                self.expr()
            else:
                self.expr()
            if i < k - 1 or self.chance(1, 3):
                sep = self.rng.choice([",", ",", ";"])
                self.features.add("table-sep" + sep)
                self.t(sep)
        self.t("}")

    def function_body(self):
        self.t("(")
        k = self.rng.randrange(4)
        va = False
        for i in range(k):
            if i:
                self.t(",")
            if i == k - 1 and self.chance(1, 3):
                self.t("...", "symbol")
                va = True
            else:
                self.t(self.rng.choice(NAMES), "name")
        self.t(")")
        self.vararg.append(va)
        saved_loop, self.loop = self.loop, 0
        saved_fold, self.fold = self.fold, 0
        self.block()
        self.fold = saved_fold
        self.loop = saved_loop
        self.vararg.pop()
        self.t("end")

    def interpolated(self):
        self.features.add("istring")
        k = self.rng.randrange(3)
        # literal segments, some spanning lines through backslash-newline or `\z` + newline
        chunks = ["", "text", "a\\{b", "\\`", "x y", "-- no", "\\n", "first\\\nsecond", "skip\\z\n   over", "\\\n",
                  # literal parts whose text is not empty but whose decoded value is: `\z` + white space only
                  # (a bare `\z` directly in front of the closing back-tick or a hole is rejected by the parser)
                  "\\z   ", "\\z\n    ", "\\z "]
        if k == 0:
            self.t("`" + self.rng.choice(chunks) + "`", "istr")
            return
        self.t("`" + self.rng.choice(chunks) + "{", "istr")
        for i in range(k):
            self.expr()
            if i < k - 1:
                self.t("}" + self.rng.choice(chunks) + "{", "istr")
        self.t("}" + self.rng.choice(chunks) + "`", "istr")

    def expr(self):
        self.depth += 1
        try:
            if self.depth > 5:
                self.simple_expr()
                return
            r = self.rng.randrange(20)
            if r <= 5:
                self.simple_expr()
            elif r <= 8:
                self.features.add("binary")
                self.fold += 1
                self.expr()
                op = self.rng.choice(BINOPS)
                self.features.add("op" + op)
                self.t(op)
                self.expr()
                self.fold -= 1
            elif r == 9:
                self.features.add("unary")
                self.fold += 1
                self.t(self.rng.choice(UNOPS))
                self.expr()
                self.fold -= 1
            elif r <= 11:
                self.prefix_expr()
            elif r == 12:
                self.table()
            elif r == 13:
                self.features.add("function-expr")
                self.t("function")
                self.function_body()
            elif r == 14:
                self.features.add("paren")
                self.fold += 1
                self.t("(")
                self.expr()
                self.t(")")
                self.fold -= 1
            elif r == 15 and self.luau:
                self.features.add("if-expr")
                self.fold += 1
                self.t("if")
                self.expr()
                self.t("then")
                self.expr()
                for _ in range(self.rng.randrange(3)):
                    self.t("elseif")
                    self.expr()
                    self.t("then")
                    self.expr()
                self.t("else")
                self.expr()
                self.fold -= 1
            elif r == 16 and self.luau:
                self.fold += 1
                self.interpolated()
                self.fold -= 1
            elif r == 17:
                # concat with a number right after `..`
                self.features.add("concat-number")
                self.name()
                self.t("..")
                self.t(self.rng.choice(["5", "1", "0x1"]), "number")
            else:
                self.simple_expr()
        finally:
            self.depth -= 1

    def exprlist(self, lo=1, hi=3):
        k = self.rng.randrange(lo, hi + 1)
        for i in range(k):
            if i:
                self.t(",")
            self.expr()
        return k

    # -- statements
    def var(self):
        self.name()
        for _ in range(self.rng.randrange(3)):
            if self.chance(1, 2):
                self.t(".")
                self.t(self.rng.choice(FIELDS), "name")
            else:
                self.t("[")
                self.expr()
                self.t("]")

    COMMENT_AFTER = [" -- c\n", " -- c\n\n", " -- c\n  ", " --[[ c ]]", "\n", " -- c\n -- d\n"]
    COMMENT_GAPS = ["-- a\n\n\n-- b\n", "-- a\n\n-- b\n\n\n\n-- c\n", "--[[ a ]]\n\n\n\n--[[ b ]] ", "-- a\n-- b\n\n",
                    "--[=[ a\n]=]\n\n\n"]

    def compound_target(self):
        """C04: an assignment target of two or more levels (name / call / parenthesised prefix) with line
        comments between its pieces and after its last token, before the operator"""
        self.features.add("compound-commented-target")
        r = self.rng.randrange(4)
        if r == 0:
            self.name()
            self.t("(")
            self.t(")")
        elif r == 1:
            # a statement must not start with `(` right after an expression, and `;` needs a statement before it
            self.name()
            self.t("(")
            self.t(")")
            self.t(";")
            self.t("(")
            self.name()
            self.t(")")
        else:
            self.name()
        for k in range(self.rng.randrange(1, 4)):
            if self.chance(1, 3):
                self.t(self.rng.choice(self.COMMENT_AFTER), "trivia")
            if self.chance(2, 3):
                self.t(".")
                self.t(self.rng.choice(FIELDS), "name")
            else:
                self.t("[")
                self.simple_expr()
                self.t("]")
        self.t(self.rng.choice(self.COMMENT_AFTER), "trivia")

    def removable_statement(self):
        """C04: a statement that a removal rule deletes, with comments several lines apart around it"""
        self.features.add("removable-with-comment-gaps")
        self.unused = getattr(self, "unused", 0) + 1
        self.t("\n" + self.rng.choice(self.COMMENT_GAPS), "trivia")
        r = self.rng.randrange(4)
        if r == 0:
            self.t("do")
            if self.chance(1, 2):
                self.t(" -- in\n\n", "trivia")
            self.t("end")
        elif r == 1 and self.luau and self.depth == 0:
            self.t("type", "name")
            self.t("Unused%d" % self.unused, "name")
            self.t("=")
            self.t("number", "name")
        else:
            self.t("local")
            self.t("unused%d" % self.unused, "name")
            self.t("=")
            self.t(self.rng.choice(["1", "nil", "{}", "'u'"]), "number")
        if self.chance(1, 2):
            self.t(" -- after\n\n\n-- later\n", "trivia")
        else:
            self.t("\n", "trivia")

    def statement(self):
        if self.markers and getattr(self.markers, "extras", True) and self.depth < 3 and self.chance(1, 8):
            self.removable_statement()
            return
        self.depth += 1
        try:
            r = self.rng.randrange(26)
            if self.depth > 3:
                r = self.rng.randrange(9)
            if r <= 2:
                self.features.add("local")
                self.t("local")
                k = self.rng.randrange(1, 4)
                for i in range(k):
                    if i:
                        self.t(",")
                    self.t(self.rng.choice(NAMES), "name")
                if self.chance(4, 5):
                    self.t("=")
                    self.exprlist(1, 3)
            elif r <= 4:
                self.features.add("assign")
                k = self.rng.randrange(1, 3)
                for i in range(k):
                    if i:
                        self.t(",")
                    self.var()
                self.t("=")
                self.exprlist(1, 3)
            elif r <= 6:
                self.features.add("call-statement")
                while not self.prefix_expr(statement=True):
                    # make sure it ends with a call
                    self.call_args()
                    break
            elif r == 7 and self.luau:
                self.features.add("compound")
                if self.markers and getattr(self.markers, "extras", True) and self.chance(1, 2):
                    self.compound_target()
                else:
                    self.var()
                self.t(self.rng.choice(COMPOUND))
                self.expr()
            elif r == 8:
                self.features.add("local")
                self.t("local")
                self.t(self.rng.choice(NAMES), "name")
                self.t("=")
                self.expr()
            elif r == 9:
                self.features.add("do")
                self.t("do")
                self.block()
                self.t("end")
            elif r == 10:
                self.features.add("while")
                self.t("while")
                self.expr()
                self.t("do")
                self.loop += 1
                self.block()
                self.loop -= 1
                self.t("end")
            elif r == 11:
                self.features.add("repeat")
                self.t("repeat")
                self.loop += 1
                self.block()
                self.loop -= 1
                self.t("until")
                self.expr()
            elif r <= 13:
                self.features.add("if")
                self.t("if")
                self.expr()
                self.t("then")
                self.block()
                for _ in range(self.rng.randrange(3)):
                    self.features.add("elseif")
                    self.t("elseif")
                    self.expr()
                    self.t("then")
                    self.block()
                if self.chance(1, 2):
                    self.features.add("else")
                    self.t("else")
                    self.block()
                self.t("end")
            elif r == 14:
                self.features.add("numeric-for")
                self.t("for")
                self.t(self.rng.choice(NAMES), "name")
                self.t("=")
                self.expr()
                self.t(",")
                self.expr()
                if self.chance(1, 2):
                    self.t(",")
                    self.expr()
                self.t("do")
                self.loop += 1
                self.block()
                self.loop -= 1
                self.t("end")
            elif r == 15:
                self.features.add("generic-for")
                self.t("for")
                k = self.rng.randrange(1, 3)
                for i in range(k):
                    if i:
                        self.t(",")
                    self.t(self.rng.choice(NAMES), "name")
                self.t("in")
                self.exprlist(1, 2)
                self.t("do")
                self.loop += 1
                self.block()
                self.loop -= 1
                self.t("end")
            elif r == 16:
                self.features.add("function-statement")
                self.t("function")
                self.name()
                for _ in range(self.rng.randrange(3)):
                    self.t(".")
                    self.t(self.rng.choice(FIELDS), "name")
                if self.chance(1, 3):
                    self.t(":")
                    self.t(self.rng.choice(FIELDS), "name")
                self.function_body()
            elif r == 17:
                self.features.add("local-function")
                self.t("local")
                self.t("function")
                self.t(self.rng.choice(NAMES), "name")
                self.function_body()
            else:
                self.features.add("local")
                self.t("local")
                self.t(self.rng.choice(NAMES), "name")
                self.t("=")
                self.expr()
        finally:
            self.depth -= 1

    def block(self, top=False):
        k = self.rng.randrange(4) if not top else self.rng.randrange(2, 9)
        if self.depth > 3:
            k = self.rng.randrange(2)
        for _ in range(k):
            self.statement()
            if self.chance(1, 5):
                self.features.add("semicolon")
                self.t(";")
        r = self.rng.randrange(8)
        if top and self.module:
            pass
        elif r == 0 or (top and r <= 2):
            self.features.add("return")
            self.t("return")
            if self.chance(3, 4):
                self.exprlist(1, 3)
            if self.chance(1, 6):      # (the last `;` is written since /repo eff5f53)
                self.features.add("last-semicolon")
                self.t(";")
        elif r == 1 and self.loop:
            self.features.add("break")
            self.t("break")
            if self.chance(1, 6):      # (the last `;` is written since /repo eff5f53)
                self.features.add("last-semicolon")
                self.t(";")
        elif r == 2 and self.loop and self.luau:
            self.features.add("continue")
            self.t("continue", "name")

    def program(self):
        self.block(top=True)
        return self.toks


def fuses(a, b):
    """True when writing token texts a and b with nothing in between does not lex back as a, b."""
    (ta, ka), (tb, kb) = a, b
    if ka == "istr" or kb == "istr":
        # an interpolated chunk ending in `{` followed by a table's `{` is a lexical error in Luau
        if ka == "istr" and ta.endswith("{") and tb.startswith("{"):
            return True
        if ka == "istr" or kb == "istr":
            return False
    try:
        toks, comments = L.lex((ta + tb).encode("utf-8"))
    except L.LexError:
        return True
    if comments:
        return True
    if ka == "number" and tb.startswith("."):
        return True
    return [t.text for t in toks] != [ta.encode("utf-8"), tb.encode("utf-8")]


def breaks(a, b):
    """should_break_with_space of darklua's generator (only used to steer the layout away from /
    towards the recorded space-insertion classes)"""
    if a.isdigit():
        return (b.isalnum() and b.isascii()) or b in "_."
    if (a.isalpha() and a.isascii()) or a == "_":
        return (b.isalnum() and b.isascii()) or b == "_"
    return {">": b == "=", "-": b == "-", "[": b == "[", "]": b == "]", ".": b == "." or b.isdigit()}.get(a, False)


def long_comment(rng, text=None):
    level = rng.choice([0, 0, 1, 2])
    body = text if text is not None else rng.choice([" c ", "", " multi\nline ", "] ", " -- x ", " ]] ", " ]=] ",
                                                     "\n", " \xc3\xa9 ", "[[ nested open "])
    closer = "]" + "=" * level + "]"
    if closer in body:
        body = body.replace(closer, "")
    if body.endswith(("]", "=")):
        body += " "
    return "--[" + "=" * level + "[" + body + closer


LINE_COMMENTS = ["--", "-- c", "--c", "--- doc", "--!strict", "-- [[ not long", "--[ x", "--[= y", "-- \xc3\xa9\xe2\x9c\x93", "-- ]]",
                 "--[a[ odd", "-- 'quote\"", "--\t tab "]


class Layout:
    """Writes a token list with trivia.  mode:
         'dense'    nothing wherever tokens do not fuse, else one space
         'plain'    one space between tokens, statements on lines
         'random'   every kind of trivia, everywhere"""

    def __init__(self, rng, mode="random", newline="\n", comments=True, final_newline=None, density=3,
                 avoid_known=False):
        self.rng = rng
        self.avoid_known = avoid_known
        self.mode = mode
        self.nl = newline
        self.comments = comments
        self.final_newline = final_newline
        self.density = density
        self.gaps = set()

    def space(self):
        r = self.rng.randrange(6)
        return [" ", " ", "  ", "\t", " \t ", "   "][r]

    def gap(self, prev, nxt):
        """trivia between two tokens (either may be None at the file edges)"""
        rng = self.rng
        must = prev is not None and nxt is not None and fuses(prev, nxt)
        if self.avoid_known and prev is not None and nxt is not None and prev[1] != "istr" and nxt[1] != "istr" \
                and breaks(prev[0][-1], nxt[0][0]):
            must = True
        if self.mode == "dense":
            return " " if must else ""
        if self.mode == "plain":
            return " " if prev is not None and nxt is not None else ""
        out = ""
        n = rng.randrange(self.density)
        if n == 0:
            self.gaps.add("none" if not must else "space")
            return " " if must else ""
        for _ in range(n):
            r = rng.randrange(12)
            if r <= 3:
                out += self.space()
                self.gaps.add("space")
            elif r <= 5:
                out += self.nl
                self.gaps.add("newline")
            elif r == 6:
                out += self.nl + self.space() + self.nl
                self.gaps.add("blank-line")
            elif r <= 8 and self.comments:
                out += rng.choice(LINE_COMMENTS) + self.nl
                self.gaps.add("line-comment")
            elif r <= 10 and self.comments:
                out += long_comment(rng)
                self.gaps.add("long-comment")
            else:
                out += self.space()
                self.gaps.add("space")
        if must and not out:
            out = " "
        if self.avoid_known and nxt is not None and out.endswith("]") and nxt[0].startswith("]"):
            out += " "
        # the gap's own first comment must not fuse with a preceding `-`
        if prev is not None and prev[0].endswith("-") and out.startswith("-"):
            out = " " + out
        return out

    def render(self, toks):
        parts = []
        prev = None
        for tok in toks:
            if tok[1] == "trivia":
                # trivia forced by the grammar (C04: a comment right after an assignment target, comment
                # gaps in front of a removable statement); it ends with a line break, nothing fuses
                parts.append(tok[0])
                continue
            g = self.gap(prev, tok)
            # `return`/prefix-expression ambiguity: a statement must not start with `(` on a new line
            parts.append(g)
            parts.append(tok[0])
            prev = tok
        tail = self.gap(prev, None) if self.mode == "random" else ""
        fn = self.final_newline
        if fn is None:
            fn = self.rng.randrange(2) == 0
        if self.mode != "random":
            tail = self.nl if fn else ""
        else:
            if fn and not tail.endswith("\n"):
                tail += self.nl
            if not fn:
                tail = tail.rstrip("\r\n")
                # a line comment may end the file without newline; fine
        parts.append(tail)
        return "".join(parts)


def plain_statement_layout(toks, rng, newline="\n"):
    """One statement-ish chunk per line: break before statement keywords.  Used by 'plain'."""
    out = []
    line = []
    starters = {"local", "if", "while", "for", "repeat", "function", "return", "do", "end", "else", "elseif", "until", "break"}
    for text, kind in toks:
        if kind == "keyword" and text in starters and line and line[-1] not in ("=", "(", ",", "local") and text != "function":
            out.append(" ".join(line))
            line = []
        line.append(text)
    if line:
        out.append(" ".join(line))
    return newline.join(out) + newline


def program(rng, luau=True, mode="random", newline="\n", comments=True, final_newline=None, markers=None, density=3,
            avoid_known=False, module=False):
    g = Gen(rng, luau=luau, markers=markers, avoid_known=avoid_known, module=module)
    toks = g.program()
    lay = Layout(rng, mode=mode, newline=newline, comments=comments, final_newline=final_newline, density=density,
                 avoid_known=avoid_known)
    src = lay.render(toks)
    return src, toks, g.features, lay.gaps


# hand-written sources for shapes the grammar does not reach on its own
FIXED_SOURCES = [
    "",
    "\n",
    "-- only a comment",
    "-- only a comment\n",
    "--[[ only a long comment ]]",
    "return",
    "return 1",
    "return 1 -- trailing without newline",
    "local a = 1\n-- last line comment",
    "local a = 1\n--[==[ last\nlong ]==]\n",
    "--!strict\nlocal a = 1\n",
    "\t\tlocal a\t=\t1\r\n\r\nreturn a\r\n",
    "local t = {1, 2; 3,}\nlocal u = {a = 1; b = 2, [3] = 4;}\n",
    "f'x' g\"y\" h[[z]] k{1} m:n'x' m:n{2}\n",
    "local s = `a{1}b{ ({x = 1}).x }c`\nlocal e = ``\n",
    # literal parts made only of `\z` + white space (empty value, non-empty text), at the start / between holes / at the end
    "return `{a}\\z   {b}`\n",
    "local s = `{a}\\z\n    {b}`\nreturn s\n",
    "local t = `\\z  {a}\\z\n\t{b}\\z\n   `\nreturn t, `\\z `, `\\z\n`\n",
    "return '', \"\", [[]], [==[]==], ``, '\\z ', \"\\z\n  \", `{''}`, `{``}`\n",
    # interpolated strings whose literal segment spans lines
    "return `first line\\\nsecond line`\n",
    "local a = `first\\\nsecond{1}third\\\nfourth{2}fifth\\z\n   sixth`\nreturn a\n",
    "local b = `{x}tail\\\nnext line`\nlocal c = `head\\\nnext{y}`\nreturn b, c\n",
    "return `first line\\\r\nsecond line`\r\n",
    "local z = `skip\\z\n\n     over{1}`\nreturn z, 'q\\z\n  r', \"s\\\nt\"\n",
    "local l = [==[\nlong\n\nstring]==] --[==[ long\n\ncomment ]==] return l\n",
    "local n = 0xFF + 0b11 + 1_000 + 1e3 + .5 + 5.\n",
    "local a = b;;local c = d; ; return c;\n",
    "local x = a[b[c]] .. 5 .. y\nreturn x..5, a[b[c]]\n",
    "local s1 = 'a'\nreturn s1..s1, s1 ..s1\n",
    "if a then elseif b then else end while a do break end repeat until a for i = 1, 2 do end for k in p do end\n",
    "local function f(...) return ... end\nfunction t.a.b:c(x, ...) end\n",
    "x += 1 y ..= 'a' z //= 2\n",
    "goto_ = 1 continue_ = 2\nfor i = 1, 2 do continue end\n",
    "local a = 1 --[[x]] --[[y]] -- z\n",
    "return (f()), (a.b), ((c))\n",
    "a.b.c = function() end; (a or b).c = 1\n",
]

TYPED_SOURCES = [
    "local x: number = 1\n",
    "type A = { x: number, y: string? }\nexport type B<T> = (T) -> T\n",
    "function f<T>(a: T, ...: number): (T, number) return a, 1 end\n",
    "local v = x :: any\nlocal w = (y :: number) + 1\n",
    "type U = 'a' | \"b\" | nil\nlocal t: { [string]: number } = {}\n",
    "type F = (a: number, b: string) -> ()\nlocal g: typeof(f) = f\n",
    "local a: Array<Array<number>> = {}\n",
    "type T = ( number ) | ( string & boolean )\n",
]


# ---- separators: every comma / semicolon / `|` / `&` separated list that src/ast_converter.rs stores tokens
# for, with two or more items and independent random trivia on both sides of every separator

SEP_TRIVIA = ["", "", " ", "  ", "\t", " --[[c]] ", "--[[c]]", " -- c\n", "\n", "\n  ", " --[=[ c\n]=] "]


def _sep(rng, ch):
    a, b = rng.choice(SEP_TRIVIA), rng.choice(SEP_TRIVIA)
    return a + ch + b


SEPARATOR_TEMPLATES = [
    # label (the token field of ast_converter.rs), template: {,} {;} {|} {&} are separators
    ("local: variable_commas / value_commas", "local a{,}b{,}c = 1{,}2{,}3\n"),
    ("const: variable_commas / value_commas", "const a{,}b = 1{,}2\n"),
    ("const: three names and values", "const a{,}b{,}c = f(){,}2{,}{}\n"),
    ("assign: variable_commas / value_commas", "a{,}b.c{,}d[1] = 1{,}2{,}3\n"),
    ("return: commas", "return 1{,}2{,}3\n"),
    ("generic for: identifier_commas / value_commas", "for k{,}v{,}w in pairs(t){,}nil{,}1 do end\n"),
    ("numeric for: end_comma / step_comma", "for i = 1{,}10{,}2 do end\n"),
    ("call: tuple arguments commas", "f(1{,}2{,}3)\nobj:m('a'{,}{}{,}nil)\n"),
    ("function parameters: local function", "local function f(a{,}b{,}...) end\n"),
    ("function parameters: statement / method / expression",
     "function g(a{,}b) end\nfunction t:m(x{,}y{,}z) end\nlocal h = function(a{,}b) end\nconst function k(a{,}b) end\n"),
    ("table: separators", "local t = {1{,}2{;}x = 3{,}[4] = 5{;}}\nlocal u = {f(){;}g(){,}}\n"),
    ("type declaration: generic parameters", "type T<A{,}B{,}C...> = { x: A{,}y: B{;}z: number }\nexport type P<K{,}V = string> = { [K]: V }\n"),
    ("function generics / typed parameters / type pack", "local function f<A{,}B>(x: A{,}y: B): (A{,}B) return x{,}y end\n"),
    ("function type: arguments", "type F = (number{,}string) -> (boolean{,}nil)\ntype G = (a: number{,}b: string{,}c: any) -> ()\n"),
    ("union / intersection separators", "type U = A{|}B{|}C\ntype I = A{&}B{&}C\ntype L = {|}A{|}B\n"),
    ("type parameters / type instantiation", "local v: Map<string{,}number> = f<<number{,}string>>(1)\n"),
    ("table type fields", "type R = { a: number{,}b: string{;}[number]: boolean{,}}\n"),
]


def separator_sources(rng, n):
    out = []
    for i in range(n):
        label, tpl = SEPARATOR_TEMPLATES[i % len(SEPARATOR_TEMPLATES)]
        src = ""
        k = 0
        while k < len(tpl):
            if tpl[k] == "{" and tpl[k + 2:k + 3] == "}" and tpl[k + 1] in ",;|&":
                src += _sep(rng, tpl[k + 1])
                k += 3
            else:
                src += tpl[k]
                k += 1
        out.append((label, src))
    return out


# ---- statements that start with a parenthesis: darklua writes a `;` in front of one only when the previous
# statement ends in a prefix expression (and the source had none)

PAREN_STATEMENTS = ["(f or g)(x)", "(obj :: any).field = v", "(getmetatable(v)).__index = nil", "(a).b += 1", "(f)()",
                    "(t)[1] = 2", "(f or g):m(x)"]
ENDS_WITHOUT_PREFIX = ["local x = 1", "local s = 'a'", "local t = {}", "local f = function() end", "local n = nil",
                       "local y: number", "x = true", "do end", "if a then end", "local z = x :: number", "local s = [[x]]",
                       "local v = ...", "local w = `a`", "while a do end", "x += 0x10", "local r = not q", "type T = number"]
ENDS_WITH_PREFIX = ["local a = f()", "f()", "local a = b", "a.b = c.d", "local a = t[1]", "obj:m()", "x += y", "local a = (b)"]
BETWEEN = ["\n", "\n\n", " ", " -- c\n", "\n--[[ c ]]\n", "\n  ", " --[[c]] "]


def paren_statement_sources(rng, n):
    out = []
    for i in range(n):
        p = PAREN_STATEMENTS[i % len(PAREN_STATEMENTS)]
        if i % 3 == 2:
            prev = ENDS_WITH_PREFIX[(i // 3) % len(ENDS_WITH_PREFIX)]
            src = prev + rng.choice(["", " ", "\n", " --[[c]] "]) + ";" + rng.choice(BETWEEN + [""]) + p + "\n"
            out.append(("paren statement after a prefix, explicit `;`", src))
        else:
            prev = ENDS_WITHOUT_PREFIX[(i + i // 7) % len(ENDS_WITHOUT_PREFIX)]
            src = prev + rng.choice(BETWEEN) + p + rng.choice(["\n", "", "\nreturn x\n"])
            out.append(("paren statement after a statement that does not end in a prefix, no `;`", src))
    return out


BOM = "﻿"
BOM_SOURCES = [
    BOM + "return 1\n", BOM + "a=1", BOM + "local a = 1\nlocal b = 2\n\nreturn a, b\n", BOM + "-- c\nreturn 1", BOM,
    BOM + "\n" + BOM + "return 1\n", "return '" + BOM + "'\n", "local s = [[" + BOM + "]] -- " + BOM + "\nreturn s\n",
    "#!/usr/bin/lua\n" + BOM + "return 1\n", "#!/usr/bin/lua\nreturn 1\n", BOM + "#!/usr/bin/lua\nreturn 1\n",
]


# ---- last token of every node kind (mirror of "every statement kind as first statement"): files whose LAST code
# token belongs to each expression / type / statement kind that has a `mutate_last_token` in src/nodes

LAST_EXPRESSIONS = [
    ("if-expression", "if a then b else %M"),
    ("if-expression, lines", "if a then\n  %M\nelse\n  %M"),
    ("if-expression elseif chain", "if a then %M elseif c then\n %M elseif d then e else\n %M"),
    ("if-expression nested in else", "if a then %M else if c then %M else %M"),
    ("if-expression in then", "if a then if b then %M else %M else\n %M"),
    ("binary with if-expression on the right", "%M + if c then %M else %M"),
    ("binary chain", "%M + b *\n %M"), ("concat chain", "a .. %M ..\n %M"), ("and / or", "a and %M or %M"),
    ("comparison", "%M <= %M"), ("unary not", "not %M"), ("unary minus", "- %M"), ("length", "# %M"),
    ("call", "f(%M)"), ("call no argument", "%M()"), ("call table", "f{ %M }"), ("call string", "f'%S'"),
    ("call long string", "%M[[x]]"), ("call of call", "f(%M)(%M)"),
    ("method call", "o:m(%M)"), ("method call table", "o:m{ %M }"), ("method call string", "o:m'%S'"),
    ("index", "t[%M]"), ("field", "t.x.%M"), ("parenthesised", "(%M)"), ("parenthesised binary", "(a + %M)"),
    ("type cast name", "%M :: any"), ("type cast table type", "%M :: { x: number }"), ("type cast function type", "%M :: (number) -> string"),
    ("type cast optional", "%M :: number?"), ("type cast union", "%M :: A | B"), ("type cast generic", "%M :: Map<string, number>"),
    ("type cast typeof", "x :: typeof(%M)"), ("type cast array", "%M :: { number }"), ("type cast field", "%M :: a.B"),
    ("type instantiation", "f<<number>>(%M)"),
    ("function expression", "function() return %M end"), ("function expression, lines", "function(a)\n  return %M\nend"),
    ("table", "{ %M }"), ("table entries", "{ x = %M, [1] = %M; }"), ("empty table", "{}"),
    ("interpolated ending in a hole", "`a{%M}`"), ("interpolated ending in text", "`a{%M}b`"), ("interpolated plain", "`%M`"),
    ("varargs", "..."), ("string", "'%S'"), ("long string", "[[\n%M\n]]"), ("number", "%M + 1"), ("nil", "%M or nil"), ("true", "%M == true"),
]
LAST_WRAPPERS = ["return %E", "local x = %E", "x = %E", "x.y, z = 1, %E", "f(%E)", "f(1, %E)", "x += %E", "local t = { %E }",
                 "local a, b = %M, %E", "o:m(%E)", "repeat until %E", "return %M, %E"]
LAST_STATEMENTS = [
    ("while", "while %M do f(%M) end"), ("repeat", "repeat f() until %M"), ("numeric for", "for i = 1, %M do end"),
    ("generic for", "for k in %M do end"), ("if", "if %M then f() end"), ("if else", "if a then f() else g(%M) end"),
    ("do", "do f(%M) end"), ("function", "function g() return %M end"), ("local function", "local function g() return %M end"),
    ("local without value", "local x, y"), ("local typed", "local x: number"), ("local typed generic", "local x: Map<string, { number }>"),
    ("type declaration", "type T = number"), ("type function type", "type F = (number) -> (string, ...number)"),
    ("type union", "type U = 'a' | 'b' | nil"), ("type table", "type R = { x: number, [string]: boolean }"),
    ("type optional", "type O = number?"), ("type intersection", "type I = A & B"), ("type typeof", "type Y = typeof(%M)"),
    ("export type generic", "export type P<K, V = string> = { [K]: V }"),
    ("break", "while %M do break end"), ("continue", "for i = 1, %M do continue end"), ("return nothing", "do return end"),
    ("compound", "x.y ..= %M"), ("call statement string", "require '%S'"), ("call statement table", "setup { %M }"),
]


def _fill(text, counter):
    while "%M" in text or "%S" in text:
        i = min(k for k in (text.find("%M"), text.find("%S")) if k >= 0)
        counter[0] += 1
        text = text[:i] + "M%d" % counter[0] + text[i + 2:]
    return text


def last_token_sources():
    """[(label, source)]: marker programs whose last code token belongs to each node kind"""
    out = []
    for i, (label, e) in enumerate(LAST_EXPRESSIONS):
        for k in range(2):
            w = LAST_WRAPPERS[(2 * i + k) % len(LAST_WRAPPERS)]
            n = [0]
            src = _fill("print(%M)\nlocal k = %M\n\n" + w.replace("%E", e), n)
            src += "\n" if (i + k) % 2 else ""
            out.append(("%s in `%s`" % (label, w), src))
    for i, (label, s) in enumerate(LAST_STATEMENTS):
        n = [0]
        src = _fill("print(%M)\nlocal k = %M\n\n" + s, n) + ("\n" if i % 2 else "")
        out.append(("last statement: " + label, src))
    return out
