"""C20 - file and rule filters select exactly the matching files."""
import itertools
import json
import random

from . import common as C

META = {
    "title": "File and rule filters select exactly the matching files",
    "level": "proof",
    "design_ref": "DESIGN.md section 6 / C19 ... C20",
    "technique": "Coq proofs about a Gallina model of should_apply / apply_rules (glob engine, parser, generator and rule "
                 "bodies abstract); model tied to the Rust code by end-to-end runs of darklua_core::process whose "
                 "per-file rule applications are compared with the model evaluated inside Coq (vm_compute) on a match "
                 "table dumped from darklua's glob engine",
    "level_text": "Machine-checked theorems (Coq 8.16 kernel), for every glob engine and every rule body: the filter decision "
                  "is the documented one; a globally rejected file is left alone and a selected one is processed as without "
                  "filter; a rule whose filter rejects the file behaves as deleted, one whose filter accepts as unfiltered; "
                  "changing filters never changes a file on which the decisions are unchanged. On every run the model's "
                  "predicted (file, rule) applications are compared with what darklua_core::process did on a 10-file tree "
                  "for all filter shapes at the top level and at each position of two 3-rule pipelines, and every output is "
                  "compared with the real output of the unfiltered sub-pipeline of exactly the selected rules.",
    "level_note": "Trusted: Coq kernel + vm_compute; the statement of `selected` (specification); the harness and the python "
                  "driver (decoding of outputs, independent re-implementation of the selection formula); the wax glob engine "
                  "is an oracle (its match table is dumped, not verified).",
    "trusted_base": ["Coq 8.16.1 kernel, vm_compute", "Model/Filters.v `selected` (specification)",
                     "harness/crates/c20 + vlib/c20.py (decoding, reference runs)", "wax glob engine (oracle)"],
    "allowed_axioms": [],
    "rule": "file tree of 10 sources in nested directories; pattern pool of 14 globs (`**`, `**/*.lua`, `src/*.lua`, literal, "
            "nested, alternatives, non-matching, ...); for the top level and each position of a 3-rule pipeline: every "
            "(none|single string|one-element list) x (none|single|one-element list) apply/skip combination, then seeded "
            "pairs/triples/empty lists, then filters on several positions at once; two pipelines (comment marks with the "
            "retain_lines generator and a separate output directory; inject_global_value -> compute_expression -> "
            "remove_unused_if_branch with the dense generator in place). A case is non-trivial when the filters under "
            "test select some but not all files; distinct by configuration text",
    "assumptions": ["glob matching (wax) is an oracle: theorems hold for every `matches`; the check uses the table dumped "
                    "from darklua's FilterPattern::matches on the tree's paths",
                    "the path given to the filters is the normalized source path relative to the working directory",
                    "no built-in rule overrides Rule::require_content (the re-entry machinery of apply_rules is not modelled)"],
}

# ---------------------------------------------------------------------------------------------
# inputs

BODY = """-- header comment of %(name)s
local a = 1 + 2
if _G.FLAG == nil then print("unset") else print("set") end
if true then print("t") end
return { name = "%(name)s", flag = _G.FLAG, a = a }
"""

SOURCES = [
    "src/init.lua", "src/a.lua", "src/b.lua", "src/util/a.lua", "src/util/helper.lua",
    "src/util/deep/x.lua", "src/util/deep/more/y.lua", "src/other/a.lua", "src/other/z.luau",
    "src/other/deep/x.lua",
]
BYSTANDER = "src/notes.txt"          # never collected: must never change and never be copied

POOL = [
    "**", "**/*.lua", "src/*.lua", "src/a.lua", "**/a.lua", "src/util/**", "src/**/deep/**/*.lua",
    "src/{a,b}.lua", "**/deep/x.lua", "src/other/*", "lib/**/*.lua", "*.lua", "src/util/deep/more/y.lua",
    "**/*.luau",
]

RULESETS = {
    # name: (rules as JSON objects (without filters), generator, input, output)
    "marks": ([{"rule": "append_text_comment", "text": "r1"},
               {"rule": "append_text_comment", "text": "r2"},
               {"rule": "append_text_comment", "text": "r3"}], "retain_lines", "src", "out"),
    "fold": ([{"rule": "inject_global_value", "identifier": "FLAG", "value": True},
              {"rule": "compute_expression"},
              {"rule": "remove_unused_if_branch"}], "dense", "src", None),
}


def tree():
    t = {p: BODY % {"name": p} for p in SOURCES}
    t[BYSTANDER] = "not lua\n"
    return t


def rule_json(base, flt):
    """rule object in the shortest accepted form: a bare name when nothing else is given"""
    obj = dict(base)
    for key in ("apply_to_files", "skip_files"):
        if flt.get(key) is not None:
            obj[key] = flt[key]
    if list(obj.keys()) == ["rule"]:
        return obj["rule"]
    return obj


def config_text(ruleset, top, flts, keep=(0, 1, 2)):
    rules, generator, _, _ = RULESETS[ruleset]
    cfg = {"rules": [rule_json(rules[i], flts[i]) for i in keep], "generator": generator}
    for key in ("apply_to_files", "skip_files"):
        if top.get(key) is not None:
            cfg[key] = top[key]
    return json.dumps(cfg)


def as_list(v):
    if v is None:
        return []
    if isinstance(v, str):
        return [v]
    return list(v)


def shapes_basic():
    """none, single string, one-element list for every pattern of the pool"""
    out = [None]
    for p in POOL:
        out.append(p)
    for p in POOL:
        out.append([p])
    return out


def shapes_random(rng):
    k = rng.random()
    if k < 0.08:
        return None
    if k < 0.16:
        return []
    if k < 0.36:
        return rng.choice(POOL)
    if k < 0.5:
        return [rng.choice(POOL)]
    if k < 0.85:
        return rng.sample(POOL, 2)
    return rng.sample(POOL, 3)


EMPTY = {"apply_to_files": None, "skip_files": None}


def gen_filter_cases(tier, seed):
    """list of (top, [f1,f2,f3]) filter assignments"""
    rng = random.Random(seed)
    cases = []
    basic = shapes_basic()
    singles = [None] + POOL
    positions = [0, 1, 2, 3]           # 0 = top level, k = rule k
    def put(pos, flt):
        top = dict(EMPTY)
        flts = [dict(EMPTY) for _ in range(3)]
        if pos == 0:
            top = flt
        else:
            flts[pos - 1] = flt
        cases.append((top, flts))
    for pos in positions:
        # all single-pattern combinations in string form; list form alternates
        for k, (a, s) in enumerate(itertools.product(singles, singles)):
            if a is None and s is None:
                continue
            form = (k + pos) % 4
            a2 = [a] if (a is not None and form in (1, 3)) else a
            s2 = [s] if (s is not None and form in (2, 3)) else s
            put(pos, {"apply_to_files": a2, "skip_files": s2})
        n_random = 250 if tier == "quick" else 1500
        for _ in range(n_random):
            put(pos, {"apply_to_files": shapes_random(rng), "skip_files": shapes_random(rng)})
    if tier != "quick":
        for pos in positions:
            for a, s in itertools.product(basic, basic):
                put(pos, {"apply_to_files": a, "skip_files": s})
    # several positions at once
    n_multi = 600 if tier == "quick" else 3000
    for _ in range(n_multi):
        def maybe():
            if rng.random() < 0.3:
                return dict(EMPTY)
            return {"apply_to_files": shapes_random(rng), "skip_files": shapes_random(rng)}
        cases.append((maybe(), [maybe(), maybe(), maybe()]))
    return cases


# ---------------------------------------------------------------------------------------------
# the specification of the selection, re-implemented here independently of the Coq model

def spec_selected(flt, path, table):
    apply_to = as_list(flt.get("apply_to_files"))
    skip = as_list(flt.get("skip_files"))
    if apply_to and not any(table[(p, path)] for p in apply_to):
        return False
    if any(table[(p, path)] for p in skip):
        return False
    return True


# ---------------------------------------------------------------------------------------------
# Coq side

def coq_filter(flt):
    def lst(v):
        return "[" + ";".join(str(POOL.index(p)) for p in as_list(v)) + "]"
    return "(F %s %s)" % (lst(flt.get("apply_to_files")), lst(flt.get("skip_files")))


def coq_obs(obs):
    items = []
    for idx, marks in obs:
        if marks is None:
            items.append("(%d, None)" % idx)
        else:
            items.append("(%d, Some [%s])" % (idx, ";".join(str(m) for m in marks)))
    return "[" + ";".join(items) + "]"


def preamble(table):
    pairs = ";".join("(%d,%d)" % (POOL.index(p), SOURCES.index(f))
                     for (p, f), m in sorted(table.items()) if m and f in SOURCES)
    return """From Coq Require Import List Bool NArith String.
From DL Require Import Model.Filters Model.FiltersTrace.
Import ListNotations.
Open Scope N_scope.
Open Scope string_scope.
Definition tbl : match_table := [%s]%%N.
Fixpoint list_eqb (a b : list N) : bool :=
  match a, b with
  | [], [] => true
  | x :: a', y :: b' => N.eqb x y && list_eqb a' b'
  | _, _ => false
  end.
Definition obs_eqb (a b : option (list N)) : bool :=
  match a, b with
  | None, None => true
  | Some x, Some y => list_eqb x y
  | _, _ => false
  end.
Definition F (a s : list N) : filter N := Filter a s.
Definition case := (filter N * list (filter N) * list (N * option (list N)))%%type.
Definition file_ok (c : case) (fo : N * option (list N)) : bool :=
  let '(top, flts, _) := c in obs_eqb (trace_file tbl top flts (fst fo)) (snd fo).
Definition check_case (c : case) : bool := let '(_, _, obs) := c in forallb (file_ok c) obs.
Definition diag_case (c : case) : string :=
  let '(_, _, obs) := c in String.concat "" (map (fun fo => if file_ok c fo then "." else "X") obs).
""" % pairs


# ---------------------------------------------------------------------------------------------

def talk(requests):
    out = C.harness("dl-c20", ["serve"], input="\n".join(json.dumps(r) for r in requests) + "\n", timeout=1500)
    answers = []
    for line in out.splitlines():
        line = line.strip()
        if not line.startswith("{"):
            continue
        answers.append(json.loads(line))
    if len(answers) != len(requests):
        raise C.CheckBroken("dl-c20 answered %d lines for %d requests:\n%s" % (len(answers), len(requests), out[-2000:]))
    return answers


def out_path(ruleset, src):
    _, _, inp, outp = RULESETS[ruleset]
    if outp is None:
        return src
    return outp + src[len(inp):]


def run(ctx):
    C.build_harness("dl-c20")
    proofs_ok = C.proof_gate(ctx)

    the_tree = tree()
    answers = talk([{"match": {"patterns": POOL, "paths": SOURCES + [BYSTANDER]}}])
    m = answers[0]
    if m.get("invalid"):
        raise C.CheckBroken("pattern pool contains a pattern darklua rejects: %r" % m["invalid"])
    table = {}
    for pi, p in enumerate(POOL):
        for fi, f in enumerate(SOURCES + [BYSTANDER]):
            table[(p, f)] = bool(m["match"][pi][fi])
    # the pool must be discriminating, otherwise the run proves little
    rows = {tuple(table[(p, f)] for f in SOURCES) for p in POOL}
    if len(rows) < 10:
        raise C.CheckBroken("pattern pool is not discriminating on the tree (only %d distinct rows)" % len(rows))

    filter_cases = gen_filter_cases(ctx.tier, ctx.seed)

    # ---- reference runs: unfiltered sub-pipelines, through the real code
    requests = [{"tree": the_tree}]
    index = []
    for ruleset in RULESETS:
        _, _, inp, outp = RULESETS[ruleset]
        for mask in range(8):
            keep = tuple(i for i in range(3) if mask & (1 << i))
            requests.append({"id": len(requests), "config": config_text(ruleset, EMPTY, [EMPTY] * 3, keep),
                             "input": inp, "output": outp})
            index.append(("ref", ruleset, mask))
    seen_cfg = set()
    jobs = []
    for ruleset in RULESETS:
        _, _, inp, outp = RULESETS[ruleset]
        for top, flts in filter_cases:
            text = config_text(ruleset, top, flts)
            if (ruleset, text) in seen_cfg:
                continue
            seen_cfg.add((ruleset, text))
            requests.append({"id": len(requests), "config": text, "input": inp, "output": outp})
            index.append(("case", ruleset, len(jobs)))
            jobs.append((ruleset, top, flts, text))
    # same decisions whatever the spelling of the input directory (paths are normalized before matching)
    spelled = []
    for ruleset, top, flts, text in jobs[:40]:
        _, _, inp, outp = RULESETS[ruleset]
        requests.append({"id": len(requests), "config": text, "input": "./" + inp + "/", "output": outp})
        index.append(("spelled", ruleset, len(spelled)))
        spelled.append((ruleset, top, flts, text))
    answers = talk(requests)[1:]

    refs = {}       # (ruleset, mask) -> files after the run
    for (kind, ruleset, k), ans in zip(index, answers):
        if kind == "ref":
            if not ans["ok"]:
                raise C.CheckBroken("reference run failed (%s, mask %d): %r" % (ruleset, k, ans["errors"]))
            refs[(ruleset, k)] = ans["files"]
    # the reference outputs must tell the 8 subsets apart on every source, otherwise decoding is ambiguous
    for ruleset in RULESETS:
        for src in SOURCES:
            outs = {refs[(ruleset, mask)].get(out_path(ruleset, src)) for mask in range(8)}
            if len(outs) != 8 or None in outs:
                raise C.CheckBroken("probe rules of %s do not give 8 distinct outputs on %s" % (ruleset, src))
        if RULESETS[ruleset][3] is None:
            for src in SOURCES:
                if refs[(ruleset, 0)][src] == the_tree[src]:
                    raise C.CheckBroken("in-place run of %s with no rule leaves %s byte-identical: 'left alone' "
                                        "cannot be told from 'written'" % (ruleset, src))
        # marks pipeline: the output is literally the stack of marks above the source
        if ruleset == "marks":
            for mask in range(8):
                for src in SOURCES:
                    marks = [i + 1 for i in range(3) if mask & (1 << i)][::-1]
                    expect = "".join("--r%d\n" % k for k in marks) + the_tree[src]
                    if refs[(ruleset, mask)][out_path(ruleset, src)] != expect:
                        raise C.CheckBroken("append_text_comment probe no longer stacks marks as expected on %s" % src)

    def decode(ruleset, src, files):
        """what happened to src: None = left alone (not written), list of marks (top first) = written after
        exactly these rules, 'other' = something else"""
        _, _, inp, outp = RULESETS[ruleset]
        got = files.get(out_path(ruleset, src))
        if outp is None:
            if got == the_tree[src]:
                return None
        elif got is None:
            return None
        for mask in range(8):
            if refs[(ruleset, mask)][out_path(ruleset, src)] == got:
                return [i + 1 for i in range(3) if mask & (1 << i)][::-1]
        return "other"

    coq_cases = []
    case_info = {}
    nontrivial = 0
    oracle_bad = []
    untouched_bad = []
    samples = []
    for (kind, ruleset, k), ans in zip(index, answers):
        if kind == "ref":
            continue
        rs, top, flts, text = (jobs if kind == "case" else spelled)[k]
        _, _, inp, outp = RULESETS[ruleset]
        files = ans["files"]
        if not ans["ok"]:
            oracle_bad.append((ruleset, text, "*", "run failed: %r" % ans["errors"][:2], None))
            continue
        obs = []
        decisions = set()
        for fi, src in enumerate(SOURCES):
            what = decode(ruleset, src, files)
            # (ii) specification-level expectation from real reference runs
            if not spec_selected(top, src, table):
                expect = None
            else:
                expect = [i + 1 for i in range(3) if spec_selected(flts[i], src, table)][::-1]
            decisions.add(None if expect is None else tuple(expect))
            if what != expect:
                oracle_bad.append((ruleset, text, src, "expected %r, observed %r" % (expect, what),
                                   files.get(out_path(ruleset, src))))
            obs.append((fi, what if what != "other" else [99]))
        # sources are never modified when there is a separate output; the bystander never changes anywhere
        for src in SOURCES + [BYSTANDER]:
            if outp is not None and files.get(src) != the_tree[src]:
                untouched_bad.append((ruleset, text, src))
        if files.get(BYSTANDER) != the_tree[BYSTANDER]:
            untouched_bad.append((ruleset, text, BYSTANDER))
        extra = set(files) - set(the_tree) - {out_path(ruleset, s) for s in SOURCES}
        if extra:
            untouched_bad.append((ruleset, text, "unexpected files " + ",".join(sorted(extra))))
        if kind == "case":
            cid = len(coq_cases)
            coq_cases.append((cid, "(%s, [%s], %s)" % (coq_filter(top), ";".join(coq_filter(f) for f in flts), coq_obs(obs))))
            case_info[cid] = (ruleset, text)
            if len(decisions) > 1:
                nontrivial += 1
            if len(samples) < 3 and len(decisions) > 2:
                samples.append({"ruleset": ruleset, "config": text,
                                "applied": {SOURCES[fi]: o for fi, o in obs}})

    bad = C.run_coq_cases(ctx.prop, preamble(table), coq_cases, chunk=150 if ctx.tier == "quick" else 600)

    ctx.stream("process(): rules applied per file, Coq model (trace_file on the dumped glob table) vs Rust",
               len(coq_cases) * len(SOURCES), nontrivial, samples, mismatches=len(bad), configurations=len(coq_cases))
    ctx.stream("process(): output of every file == real output of the unfiltered sub-pipeline of the selected rules "
               "(or left alone); other files untouched", (len(coq_cases) + len(spelled)) * (len(SOURCES) + 1), nontrivial, [],
               mismatches=len(oracle_bad) + len(untouched_bad))

    # ---- the order of advance_work: parse first, then the top-level filter (Model/Filters.process_file: ParseFailed
    #      even for a file the top-level filter rejects); the other files are unaffected by the failure
    bad_tree = {"src/a.lua": "return 1\n", "src/bad.lua": "local = 1\n"}
    order = talk([{"tree": bad_tree},
                  {"id": 0, "config": json.dumps({"skip_files": "src/bad.lua", "generator": "retain_lines",
                                                  "rules": [RULESETS["marks"][0][0]]}), "input": "src"},
                  {"id": 1, "config": json.dumps({"generator": "retain_lines", "rules": [
                      dict(RULESETS["marks"][0][0], skip_files="src/bad.lua")]}), "input": "src"}])[1:]
    order_bad = [a for a in order if not (len(a["errors"]) == 1 and "src/bad.lua" in a["errors"][0]
                                          and a["files"].get("src/bad.lua") == bad_tree["src/bad.lua"]
                                          and a["files"].get("src/a.lua") == "--r1\n" + bad_tree["src/a.lua"])]
    ctx.stream("advance_work order: a file rejected by a filter is still parsed (model: ParseFailed before the filter)",
               len(order), len(order), [], mismatches=len(order_bad))
    if order_bad:
        bad.append((-1, "parse/filter order"))
        case_info[-1] = ("marks", json.dumps(order_bad[0])[:600])

    for ruleset, text, src, why, got in oracle_bad[:4]:
        pos = "top" if "apply_to_files" in json.loads(text) or "skip_files" in json.loads(text) else "rule"
        ctx.violation("filter does not select exactly the matching files: " + why,
                      {"ruleset": ruleset, "config": text, "file": src, "output": got, "tree": "vlib/c20.py tree()",
                       "replay": "write the tree and this .darklua.json into memory resources, process(src)"},
                      key="select:%s:%s:%s" % (ruleset, pos, src))
    for ruleset, text, src in untouched_bad[:3]:
        ctx.violation("a file that is not an output of the run changed: " + src,
                      {"ruleset": ruleset, "config": text, "file": src}, key="untouched:%s:%s" % (ruleset, src))
    if bad and not ctx.violations:
        cid, diag = bad[0]
        ruleset, text = case_info[cid]
        ctx.violation("correspondence broken: rules applied by darklua differ from Model/Filters (theorems no longer apply "
                      "to the code); every output still equals the reference output of the selected rules",
                      {"ruleset": ruleset, "config": text, "diag_per_file": diag, "mismatches": len(bad)}, found_input=False)
    if not proofs_ok and not ctx.violations:
        failed = [n for n, ok, _ in ctx.obligations if not ok]
        ctx.violation("proof obligation no longer checks: " + "; ".join(failed), {"obligations": failed}, found_input=False)


def replay(ctx, path):
    r = json.load(open(path))
    print(json.dumps(r, indent=1))
    rep = r.get("replay", {})
    if "config" in rep and "ruleset" in rep:
        C.build_harness("dl-c20")
        _, _, inp, outp = RULESETS[rep["ruleset"]]
        ans = talk([{"tree": tree()}, {"id": 0, "config": rep["config"], "input": inp, "output": outp}])[1]
        print(json.dumps(ans, indent=1))
    return 0
