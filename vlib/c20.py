"""C20 - file and rule filters select exactly the matching files."""
import itertools
import json
import random
import re

from . import common as C

META = {
    "title": "File and rule filters select exactly the matching files",
    "level": "proof",
    "design_ref": "DESIGN.md section 6 / C19 ... C20",
    "technique": "Coq proofs about a Gallina model of should_apply / apply_rules (glob engine, parser, generator and rule "
                 "bodies abstract); model tied to the Rust code by end-to-end runs of darklua_core::process whose "
                 "per-file rule applications are compared with the model evaluated inside Coq (vm_compute) on a match "
                 "table dumped from darklua's glob engine",
    "level_text": "Machine-checked theorems (Coq 8.16 kernel), for every glob engine and every rule body: the filter decision "
                  "is the documented one; a globally rejected file is left alone and a selected one is processed as without "
                  "filter; a rule whose filter rejects the file behaves as deleted, one whose filter accepts as unfiltered; "
                  "changing filters never changes a file on which the decisions are unchanged. On every run the model's "
                  "predicted (file, rule) applications are compared with what darklua_core::process did on a 12-file tree (the same file names at four depths) "
                  "for all filter shapes at the top level and at each position of two 3-rule pipelines, and every output is "
                  "compared with the real output of the unfiltered sub-pipeline of exactly the selected rules.",
    "level_note": "Trusted: Coq kernel + vm_compute; the statement of `selected` (specification); the harness and the python "
                  "driver (decoding of outputs, independent re-implementation of the selection formula); the wax glob engine "
                  "is an oracle (its match table is dumped, not verified).",
    "trusted_base": ["Coq 8.16.1 kernel, vm_compute", "Model/Filters.v `selected` (specification)",
                     "harness/crates/c20 + vlib/c20.py (decoding, reference runs)", "wax glob engine (oracle)"],
    "allowed_axioms": [],
    "rule": "file tree of 12 sources, the same names (a.lua, c.lua) at up to four depths; pattern pool = 26 hand-written globs "
            "(`**`, `**/a.lua`, `**/sub/a.lua`, `**/sub/*.lua`, `src/**/deep/c.lua`, `**/x/**/a.lua`, `?`, `[ab]`, `[!a]`, `{a,b}`, "
            "literal, non-matching, ...) + seeded generated ones (optional `**/` prefix, 1-3 literal or wildcard components, optional "
            "`**` in the middle, optional `/**`; 40 in quick, 190 in thorough); for the top level and each position of a 3-rule "
            "pipeline: every pattern alone as apply and as skip (string / one-element list), the hand-written ones pairwise, seeded "
            "pairs/triples/empty lists, then filters on several positions at once; two pipelines (comment marks with the "
            "retain_lines generator and a separate output directory; inject_global_value -> compute_expression -> "
            "remove_unused_if_branch with the dense generator in place). Expected matches come from the glob model "
            "(Model/FiltersGlob.v, evaluated in Coq) and from an independent python reading of the glob syntax, both compared with "
            "darklua's engine on every pattern x path. Configuration location stream: the tree moved under `project/`, 27 patterns with "
            "and without the `project/` prefix, each as apply and as skip at the top level, on a rule and on both, x configuration "
            "given in memory / `.darklua.json` of the working directory / with_configuration_at `project/.darklua.json5` / "
            "`project/src/.darklua.json` / `conf/darklua.json` x input `project` / `project/src`. Configuration edit stream: one "
            "WorkerTree processes configuration 1 then configuration 2 (exactly one filter added / removed / edited / one pattern "
            "more or less, at the top level and on each of three rules, two of them without properties), compared with a fresh "
            "run under configuration 2. A case is non-trivial when the filters under test select some but not "
            "all files; distinct by configuration text",
    "assumptions": ["glob matching (wax) is an oracle in the filter theorems (they hold for every `matches`); the check instantiates "
                    "it with Model/FiltersGlob.v, which models: `/`-separated components, `**` as a whole component (zero or more "
                    "components; first, middle, last, alone), literal characters, `?`, `*`, `[..]` with ranges and `[!..]`, "
                    "`{..,..}` without `/` or nesting; not modelled: alternatives containing `/`, repetitions, flags, escapes",
                    "the path given to the filters at BOTH levels is the collected source path, normalized, relative to the working "
                    "directory, wherever the configuration was read from (Model/Filters.v; exercised over five configuration "
                    "locations x two inputs, theorem C20_levels_agree for the model)",
                    "no built-in rule overrides Rule::require_content (the re-entry machinery of apply_rules is not modelled)"],
}

# ---------------------------------------------------------------------------------------------
# inputs

BODY = """-- header comment of %(name)s
local a = 1 + 2
if _G.FLAG == nil then print("unset") else print("set") end
if true then print("t") end
return { name = "%(name)s", flag = _G.FLAG, a = a }
"""

# the same file names at several depths, so that a pattern is told apart by its directory components
SOURCES = [
    "src/init.lua", "src/a.lua", "src/b.lua", "src/ab.lua", "src/sub/a.lua", "src/sub/b.lua", "src/sub/deep/c.lua",
    "src/x/sub/a.lua", "src/x/deep/c.lua", "src/x/y/sub/a.lua", "src/deep/c.lua", "src/other/z.luau",
    "src/.tests/a.lua", "src/tests/a.lua", "src/x/.cache/c.lua",          # hidden directories next to plain ones
]
BYSTANDER = "src/notes.txt"          # never collected: must never change and never be copied
# paths that are only given to the glob engine / glob model (not files of the tree)
EXTRA_PATHS = ["a.lua", "sub/a.lua", "src", "src/sub", "lib/sub/a.lua", "src/x/y/z/sub/a.lua", "src/sub/a.luau",
               "src/suba.lua", "src/sub/a.lua/x", "x/sub/a.lua", ".tests/a.lua", "tests/a.lua", ".hidden/b.lua", "hidden/b.lua",
               ".cache/x/c.lua"]

FIXED_POOL = [
    "**", "**/*.lua", "src/*.lua", "src/a.lua", "**/a.lua", "**/sub/a.lua", "**/sub/*.lua", "src/**/deep/c.lua",
    "**/x/sub/a.lua", "**/x/**/a.lua", "src/sub/**", "src/**/sub/**", "src/{a,b}.lua", "**/deep/c.lua", "src/other/*",
    "lib/**/*.lua", "*.lua", "src/x/y/sub/a.lua", "**/*.luau", "**/s?b/[ab].lua", "src/[!a]*.lua", "src/*/sub/*",
    "**/sub/**/c.lua", "**/src/sub/a.lua", "**/y/sub/a.lua", "src/**/a.lua",
    # the first component starts with a dot: the pattern is used as written
    ".tests/**", ".hidden/*.lua", "**/.cache/**", "src/.tests/**", "src/tests/**", "**/.tests/*.lua", "**/tests/*.lua", ".cache/**",
]
POOL = list(FIXED_POOL)              # extended with generated patterns by run()
POOL_INDEX = {p: i for i, p in enumerate(POOL)}

DIR_COMPS = ["src", "sub", "x", "y", "deep", "other", "*", "s*", "*b", "s?b", "d??p", "{sub,x}", "{x,y,deep}", "[sx]*", "[!s]*"]
FILE_COMPS = ["a.lua", "b.lua", "c.lua", "init.lua", "ab.lua", "z.luau", "*", "*.lua", "a*.lua", "*b.lua", "?.lua",
              "[ab].lua", "[!a].lua", "[a-c].lua", "{a,b}.lua", "{a,ab}*", "*.lua*", "a.*", "??.lua"]


def gen_pattern(rng):
    """optional `**/` prefix, 1-3 components (literal or with wildcards), optional `**` in the middle, optional `/**`"""
    prefix = rng.random() < 0.55
    suffix = rng.random() < 0.2
    k = rng.choice([1, 2, 2, 3, 3])
    comps = []
    for i in range(k):
        last = i == k - 1
        if last and not suffix:
            comps.append(rng.choice(FILE_COMPS))
        elif i == 0 and not prefix and rng.random() < 0.75:
            comps.append("src")
        else:
            comps.append(rng.choice(DIR_COMPS))
    if k >= 2 and rng.random() < 0.25:
        at = rng.randrange(1, k)
        comps.insert(at, "**")
    return ("**/" if prefix else "") + "/".join(comps) + ("/**" if suffix else "")


def build_pool(tier, seed):
    rng = random.Random(seed * 7919 + 13)
    pool = list(FIXED_POOL)
    want = len(pool) + (40 if tier == "quick" else 190)
    guard = 0
    while len(pool) < want and guard < 5000:
        guard += 1
        p = gen_pattern(rng)
        if p not in pool:
            pool.append(p)
    # the pool must be discriminating on the tree whatever the seed: keep drawing until the patterns give at
    # least 25 distinct selections of the sources (only patterns that add a new selection are kept)
    def selection(pattern):
        rx = glob_regex(pattern)
        return tuple(bool(rx.fullmatch(f)) for f in SOURCES)
    seen = {selection(q) for q in pool}
    guard = 0
    while len(seen) < 30 and guard < 3000:
        guard += 1
        p = gen_pattern(rng)
        if p in pool:
            continue
        sel = selection(p)
        if sel not in seen:
            seen.add(sel)
            pool.append(p)
    return pool


# ---------------------------------------------------------------------------------------------
# glob patterns: syntax tree (for the Coq model) and, separately, a regular expression (python-side specification)

def parse_component(c):
    """fragments of one component: ('c', ch) | ('?',) | ('*',) | ('class', neg, [(lo, hi)]) | ('alt', [[atoms]])"""
    def atoms(text):
        out, i = [], 0
        while i < len(text):
            ch = text[i]
            if ch == "*":
                out.append(("*",))
            elif ch == "?":
                out.append(("?",))
            elif ch == "[":
                j = text.index("]", i)
                body = text[i + 1:j]
                neg = body.startswith("!")
                if neg:
                    body = body[1:]
                ranges, k = [], 0
                while k < len(body):
                    if k + 2 < len(body) and body[k + 1] == "-":
                        ranges.append((body[k], body[k + 2]))
                        k += 3
                    else:
                        ranges.append((body[k], body[k]))
                        k += 1
                out.append(("class", neg, ranges))
                i = j
            else:
                out.append(("c", ch))
            i += 1
        return out
    frags, i = [], 0
    while i < len(c):
        if c[i] == "{":
            j = c.index("}", i)
            frags.append(("alt", [atoms(alt) for alt in c[i + 1:j].split(",")]))
            i = j + 1
        else:
            j = c.find("{", i)
            j = len(c) if j < 0 else j
            frags.extend(atoms(c[i:j]))
            i = j
    return frags


def coq_char(ch):
    if ch == '"' or ord(ch) < 32 or ord(ch) > 126:
        raise C.CheckBroken("character %r not supported in a pattern" % ch)
    return '"%s"%%char' % ch


def coq_atom(a):
    if a[0] == "c":
        return "AChar %s" % coq_char(a[1])
    if a[0] == "?":
        return "AAny"
    if a[0] == "*":
        return "AStar"
    return "AClass %s [%s]" % ("true" if a[1] else "false", ";".join("(%s,%s)" % (coq_char(lo), coq_char(hi)) for lo, hi in a[2]))


def coq_glob(p):
    comps = []
    for c in p.split("/"):
        if c == "**":
            comps.append("CTree")
            continue
        frags = []
        for f in parse_component(c):
            if f[0] == "alt":
                frags.append("FAlt [%s]" % ";".join("[" + ";".join(coq_atom(a) for a in alt) + "]" for alt in f[1]))
            else:
                frags.append("FAtom (%s)" % coq_atom(f))
        comps.append("CComp [%s]" % ";".join(frags))
    return "[" + ";".join(comps) + "]"


def glob_regex(p):
    """the documented meaning of a pattern as a regular expression on the whole path (works on the text of the
    pattern, independently of parse_component / the Coq model)"""
    def comp_re(c):
        out, i = "", 0
        while i < len(c):
            ch = c[i]
            if ch == "*":
                out += "[^/]*"
            elif ch == "?":
                out += "[^/]"
            elif ch == "[":
                j = c.index("]", i)
                body = c[i + 1:j]
                out += "[^/" + re.escape(body[1:]).replace("\\-", "-") + "]" if body.startswith("!") \
                    else "[" + re.escape(body).replace("\\-", "-") + "]"
                i = j
            elif ch == "{":
                j = c.index("}", i)
                out += "(?:" + "|".join(comp_re(alt) for alt in c[i + 1:j].split(",")) + ")"
                i = j
            else:
                out += re.escape(ch)
            i += 1
        return out
    comps = p.split("/")
    n = len(comps)
    out = ""
    glued = True            # no separator needed before the next component
    for idx, c in enumerate(comps):
        if c == "**":
            if n == 1:
                out += ".*"
            elif idx == 0:
                out += "(?:[^/]+/)*"
                glued = True
            elif idx == n - 1:
                out += "(?:/[^/]+)*"
            else:
                out += "/(?:[^/]+/)*"
                glued = True
        else:
            if idx > 0 and not glued:
                out += "/"
            out += comp_re(c)
            glued = False
    return re.compile(out)


RULESETS = {
    # name: (rules as JSON objects (without filters), generator, input, output)
    "marks": ([{"rule": "append_text_comment", "text": "r1"},
               {"rule": "append_text_comment", "text": "r2"},
               {"rule": "append_text_comment", "text": "r3"}], "retain_lines", "src", "out"),
    "fold": ([{"rule": "inject_global_value", "identifier": "FLAG", "value": True},
              {"rule": "compute_expression"},
              {"rule": "remove_unused_if_branch"}], "dense", "src", None),
}


def tree():
    t = {p: BODY % {"name": p} for p in SOURCES}
    t[BYSTANDER] = "not lua\n"
    return t


def rule_json(base, flt):
    """rule object in the shortest accepted form: a bare name when nothing else is given"""
    obj = dict(base)
    for key in ("apply_to_files", "skip_files"):
        if flt.get(key) is not None:
            obj[key] = flt[key]
    if list(obj.keys()) == ["rule"]:
        return obj["rule"]
    return obj


def config_text(ruleset, top, flts, keep=(0, 1, 2)):
    rules, generator, _, _ = RULESETS[ruleset]
    cfg = {"rules": [rule_json(rules[i], flts[i]) for i in keep], "generator": generator}
    for key in ("apply_to_files", "skip_files"):
        if top.get(key) is not None:
            cfg[key] = top[key]
    return json.dumps(cfg)


def as_list(v):
    if v is None:
        return []
    if isinstance(v, str):
        return [v]
    return list(v)


def shapes_random(rng):
    k = rng.random()
    if k < 0.08:
        return None
    if k < 0.16:
        return []
    if k < 0.36:
        return rng.choice(POOL)
    if k < 0.5:
        return [rng.choice(POOL)]
    if k < 0.85:
        return rng.sample(POOL, 2)
    return rng.sample(POOL, 3)


EMPTY = {"apply_to_files": None, "skip_files": None}


def gen_filter_cases(tier, seed):
    """list of (top, [f1,f2,f3]) filter assignments"""
    rng = random.Random(seed)
    quick = tier == "quick"
    cases = []
    positions = [0, 1, 2, 3]           # 0 = top level, k = rule k
    def put(pos, flt):
        top = dict(EMPTY)
        flts = [dict(EMPTY) for _ in range(3)]
        if pos == 0:
            top = flt
        else:
            flts[pos - 1] = flt
        cases.append((top, flts))
    for pos in positions:
        # every pattern alone, as apply and as skip; string form and one-element list alternate
        for k, pat in enumerate(POOL):
            put(pos, {"apply_to_files": [pat] if (k + pos) % 2 else pat, "skip_files": None})
            put(pos, {"apply_to_files": None, "skip_files": pat if (k + pos) % 2 else [pat]})
        # the hand-written patterns pairwise (apply x skip)
        fixed = [None] + FIXED_POOL
        for k, (a, sk) in enumerate(itertools.product(fixed, fixed)):
            if a is None or sk is None:
                continue
            if quick and (k + pos) % 8:
                continue
            form = (k + pos) % 4
            put(pos, {"apply_to_files": [a] if form in (1, 3) else a, "skip_files": [sk] if form in (2, 3) else sk})
        for _ in range(80 if quick else 2500):
            put(pos, {"apply_to_files": rng.choice(POOL), "skip_files": rng.choice(POOL)})
        for _ in range(100 if quick else 1500):
            put(pos, {"apply_to_files": shapes_random(rng), "skip_files": shapes_random(rng)})
    # several positions at once
    n_multi = 350 if quick else 3000
    for _ in range(n_multi):
        def maybe():
            if rng.random() < 0.3:
                return dict(EMPTY)
            return {"apply_to_files": shapes_random(rng), "skip_files": shapes_random(rng)}
        cases.append((maybe(), [maybe(), maybe(), maybe()]))
    return cases


# ---------------------------------------------------------------------------------------------
# the specification of the selection, re-implemented here independently of the Coq model

def spec_selected(flt, path, table):
    apply_to = as_list(flt.get("apply_to_files"))
    skip = as_list(flt.get("skip_files"))
    if apply_to and not any(table[(p, path)] for p in apply_to):
        return False
    if any(table[(p, path)] for p in skip):
        return False
    return True


# ---------------------------------------------------------------------------------------------
# Coq side

def coq_filter(flt):
    def lst(v):
        return "[" + ";".join(str(POOL_INDEX[p]) for p in as_list(v)) + "]"
    return "(F %s %s)" % (lst(flt.get("apply_to_files")), lst(flt.get("skip_files")))


def coq_obs(obs):
    items = []
    for idx, marks in obs:
        if marks is None:
            items.append("(%d, None)" % idx)
        else:
            items.append("(%d, Some [%s])" % (idx, ";".join(str(m) for m in marks)))
    return "[" + ";".join(items) + "]"


GLOB_DEFS = """From Coq Require Import List Bool NArith String Ascii.
From DL Require Import Model.Filters Model.FiltersTrace Model.FiltersGlob.
Import ListNotations.
Open Scope N_scope.
Open Scope string_scope.
Definition pool : list glob := [%s].
Definition paths : list string := [%s].
Definition indexed {A} (l : list A) : list (N * A) := combine (map N.of_nat (seq 0 (List.length l))) l.
"""


def glob_defs(all_paths):
    return GLOB_DEFS % (";\n".join(coq_glob(p) for p in POOL), ";".join(C.coq_string(f) for f in all_paths))


def preamble(all_paths):
    """the trace model runs on the match table computed by the Coq glob model (Model/FiltersGlob.v) for the pool"""
    return glob_defs(all_paths) + """Definition tbl : match_table := Eval vm_compute in
  flat_map (fun pg => flat_map (fun fp => if glob_match (snd pg) (snd fp) then [(fst pg, fst fp)] else [])
                               (indexed paths)) (indexed pool).
Fixpoint list_eqb (a b : list N) : bool :=
  match a, b with
  | [], [] => true
  | x :: a', y :: b' => N.eqb x y && list_eqb a' b'
  | _, _ => false
  end.
Definition obs_eqb (a b : option (list N)) : bool :=
  match a, b with
  | None, None => true
  | Some x, Some y => list_eqb x y
  | _, _ => false
  end.
Definition F (a s : list N) : filter N := Filter a s.
Definition case := (filter N * list (filter N) * list (N * option (list N)))%%type.
Definition file_ok (c : case) (fo : N * option (list N)) : bool :=
  let '(top, flts, _) := c in obs_eqb (trace_file tbl top flts (fst fo)) (snd fo).
Definition check_case (c : case) : bool := let '(_, _, obs) := c in forallb (file_ok c) obs.
Definition diag_case (c : case) : string :=
  let '(_, _, obs) := c in String.concat "" (map (fun fo => if file_ok c fo then "." else "X") obs).
""".replace("%%", "%")


# ---------------------------------------------------------------------------------------------

def talk(requests):
    out = C.harness("dl-c20", ["serve"], input="\n".join(json.dumps(r) for r in requests) + "\n", timeout=1500)
    answers = []
    for line in out.splitlines():
        line = line.strip()
        if not line.startswith("{"):
            continue
        answers.append(json.loads(line))
    if len(answers) != len(requests):
        raise C.CheckBroken("dl-c20 answered %d lines for %d requests:\n%s" % (len(answers), len(requests), out[-2000:]))
    return answers


def out_path(ruleset, src):
    _, _, inp, outp = RULESETS[ruleset]
    if outp is None:
        return src
    return outp + src[len(inp):]


def run(ctx):
    C.build_harness("dl-c20")
    proofs_ok = C.proof_gate(ctx)

    global POOL, POOL_INDEX
    POOL = build_pool(ctx.tier, ctx.seed)
    POOL_INDEX = {p: i for i, p in enumerate(POOL)}
    the_tree = tree()
    all_paths = SOURCES + [BYSTANDER] + EXTRA_PATHS
    answers = talk([{"match": {"patterns": POOL, "paths": all_paths}}])
    m = answers[0]
    if m.get("invalid"):
        raise C.CheckBroken("pattern pool contains a pattern darklua rejects: %r" % m["invalid"])
    engine = {}      # darklua's FilterPattern::matches (hook)
    table = {}       # python-side specification of the glob syntax; the expectations below use THIS one
    glob_bad = []
    for pi, p in enumerate(POOL):
        rx = glob_regex(p)
        for fi, f in enumerate(all_paths):
            engine[(p, f)] = bool(m["match"][pi][fi])
            table[(p, f)] = bool(rx.fullmatch(f))
            if engine[(p, f)] != table[(p, f)]:
                glob_bad.append((p, f, engine[(p, f)]))
    # the pool must be discriminating, otherwise the run proves little
    rows = {tuple(table[(p, f)] for f in SOURCES) for p in POOL}
    if len(rows) < 25:
        raise C.CheckBroken("pattern pool is not discriminating on the tree (only %d distinct rows)" % len(rows))
    # glob model (Coq) vs darklua's engine on every pattern x path
    glob_cases = [(pi, "(%d, [%s])" % (pi, ";".join("true" if engine[(p, f)] else "false" for f in all_paths)))
                  for pi, p in enumerate(POOL)]
    glob_model_bad = C.run_coq_cases(ctx.prop, glob_defs(all_paths) + """
Fixpoint bools_eqb (a b : list bool) : bool :=
  match a, b with [], [] => true | x :: a', y :: b' => Bool.eqb x y && bools_eqb a' b' | _, _ => false end.
Definition model_row (pi : N) : list bool := map (glob_match (nth (N.to_nat pi) pool [])) paths.
Definition check_case (c : N * list bool) : bool := bools_eqb (model_row (fst c)) (snd c).
Definition diag_case (c : N * list bool) : string :=
  String.concat "" (map (fun b : bool => if b then "1" else "0") (model_row (fst c))).
""", glob_cases, chunk=40, tag="glob")
    multi = sum(1 for p in POOL if p.startswith("**/") and p.count("/") >= 2)
    ctx.stream("glob semantics: Coq model (Model/FiltersGlob) and python specification vs darklua's FilterPattern::matches, "
               "every pattern x path", 2 * len(POOL) * len(all_paths), len(rows),
               [{"pattern": p, "matches": [f for f in all_paths if engine[(p, f)]]} for p in POOL[5:8]],
               mismatches=len(glob_model_bad) + len(glob_bad), patterns=len(POOL), paths=len(all_paths),
               tree_prefix_with_several_components=multi)

    filter_cases = gen_filter_cases(ctx.tier, ctx.seed)

    # ---- reference runs: unfiltered sub-pipelines, through the real code
    requests = [{"tree": the_tree}]
    index = []
    for ruleset in RULESETS:
        _, _, inp, outp = RULESETS[ruleset]
        for mask in range(8):
            keep = tuple(i for i in range(3) if mask & (1 << i))
            requests.append({"id": len(requests), "config": config_text(ruleset, EMPTY, [EMPTY] * 3, keep),
                             "input": inp, "output": outp})
            index.append(("ref", ruleset, mask))
    seen_cfg = set()
    jobs = []
    for ruleset in RULESETS:
        _, _, inp, outp = RULESETS[ruleset]
        for top, flts in filter_cases:
            text = config_text(ruleset, top, flts)
            if (ruleset, text) in seen_cfg:
                continue
            seen_cfg.add((ruleset, text))
            requests.append({"id": len(requests), "config": text, "input": inp, "output": outp})
            index.append(("case", ruleset, len(jobs)))
            jobs.append((ruleset, top, flts, text))
    # same decisions whatever the spelling of the input directory (paths are normalized before matching)
    spelled = []
    for ruleset, top, flts, text in jobs[:40]:
        _, _, inp, outp = RULESETS[ruleset]
        requests.append({"id": len(requests), "config": text, "input": "./" + inp + "/", "output": outp})
        index.append(("spelled", ruleset, len(spelled)))
        spelled.append((ruleset, top, flts, text))
    answers = talk(requests)[1:]

    refs = {}       # (ruleset, mask) -> files after the run
    for (kind, ruleset, k), ans in zip(index, answers):
        if kind == "ref":
            if not ans["ok"]:
                raise C.CheckBroken("reference run failed (%s, mask %d): %r" % (ruleset, k, ans["errors"]))
            refs[(ruleset, k)] = ans["files"]
    # the reference outputs must tell the 8 subsets apart on every source, otherwise decoding is ambiguous
    for ruleset in RULESETS:
        for src in SOURCES:
            outs = {refs[(ruleset, mask)].get(out_path(ruleset, src)) for mask in range(8)}
            if len(outs) != 8 or None in outs:
                raise C.CheckBroken("probe rules of %s do not give 8 distinct outputs on %s" % (ruleset, src))
        if RULESETS[ruleset][3] is None:
            for src in SOURCES:
                if refs[(ruleset, 0)][src] == the_tree[src]:
                    raise C.CheckBroken("in-place run of %s with no rule leaves %s byte-identical: 'left alone' "
                                        "cannot be told from 'written'" % (ruleset, src))
        # marks pipeline: the output is literally the stack of marks above the source
        if ruleset == "marks":
            for mask in range(8):
                for src in SOURCES:
                    marks = [i + 1 for i in range(3) if mask & (1 << i)][::-1]
                    expect = "".join("--r%d\n" % k for k in marks) + the_tree[src]
                    if refs[(ruleset, mask)][out_path(ruleset, src)] != expect:
                        raise C.CheckBroken("append_text_comment probe no longer stacks marks as expected on %s" % src)

    def decode(ruleset, src, files):
        """what happened to src: None = left alone (not written), list of marks (top first) = written after
        exactly these rules, 'other' = something else"""
        _, _, inp, outp = RULESETS[ruleset]
        got = files.get(out_path(ruleset, src))
        if outp is None:
            if got == the_tree[src]:
                return None
        elif got is None:
            return None
        for mask in range(8):
            if refs[(ruleset, mask)][out_path(ruleset, src)] == got:
                return [i + 1 for i in range(3) if mask & (1 << i)][::-1]
        return "other"

    coq_cases = []
    case_info = {}
    nontrivial = 0
    oracle_bad = []
    untouched_bad = []
    samples = []
    for (kind, ruleset, k), ans in zip(index, answers):
        if kind == "ref":
            continue
        rs, top, flts, text = (jobs if kind == "case" else spelled)[k]
        _, _, inp, outp = RULESETS[ruleset]
        files = ans["files"]
        if not ans["ok"]:
            oracle_bad.append((ruleset, text, "*", "run failed: %r" % ans["errors"][:2], None))
            continue
        obs = []
        decisions = set()
        for fi, src in enumerate(SOURCES):
            what = decode(ruleset, src, files)
            # (ii) specification-level expectation from real reference runs
            if not spec_selected(top, src, table):
                expect = None
            else:
                expect = [i + 1 for i in range(3) if spec_selected(flts[i], src, table)][::-1]
            decisions.add(None if expect is None else tuple(expect))
            if what != expect:
                oracle_bad.append((ruleset, text, src, "expected %r, observed %r" % (expect, what),
                                   files.get(out_path(ruleset, src))))
            obs.append((fi, what if what != "other" else [99]))
        # sources are never modified when there is a separate output; the bystander never changes anywhere
        for src in SOURCES + [BYSTANDER]:
            if outp is not None and files.get(src) != the_tree[src]:
                untouched_bad.append((ruleset, text, src))
        if files.get(BYSTANDER) != the_tree[BYSTANDER]:
            untouched_bad.append((ruleset, text, BYSTANDER))
        extra = set(files) - set(the_tree) - {out_path(ruleset, s) for s in SOURCES}
        if extra:
            untouched_bad.append((ruleset, text, "unexpected files " + ",".join(sorted(extra))))
        if kind == "case":
            cid = len(coq_cases)
            coq_cases.append((cid, "(%s, [%s], %s)" % (coq_filter(top), ";".join(coq_filter(f) for f in flts), coq_obs(obs))))
            case_info[cid] = (ruleset, text)
            if len(decisions) > 1:
                nontrivial += 1
            if len(samples) < 3 and len(decisions) > 2:
                samples.append({"ruleset": ruleset, "config": text,
                                "applied": {SOURCES[fi]: o for fi, o in obs}})

    bad = C.run_coq_cases(ctx.prop, preamble(all_paths), coq_cases, chunk=150 if ctx.tier == "quick" else 600)

    ctx.stream("process(): rules applied per file, Coq model (trace_file on the match table of the Coq glob model) vs Rust",
               len(coq_cases) * len(SOURCES), nontrivial, samples, mismatches=len(bad), configurations=len(coq_cases))
    ctx.stream("process(): output of every file == real output of the unfiltered sub-pipeline of the selected rules "
               "(or left alone); other files untouched", (len(coq_cases) + len(spelled)) * (len(SOURCES) + 1), nontrivial, [],
               mismatches=len(oracle_bad) + len(untouched_bad))

    # ---- the order of advance_work: parse first, then the top-level filter (Model/Filters.process_file: ParseFailed
    #      even for a file the top-level filter rejects); the other files are unaffected by the failure
    bad_tree = {"src/a.lua": "return 1\n", "src/bad.lua": "local = 1\n"}
    order = talk([{"tree": bad_tree},
                  {"id": 0, "config": json.dumps({"skip_files": "src/bad.lua", "generator": "retain_lines",
                                                  "rules": [RULESETS["marks"][0][0]]}), "input": "src"},
                  {"id": 1, "config": json.dumps({"generator": "retain_lines", "rules": [
                      dict(RULESETS["marks"][0][0], skip_files="src/bad.lua")]}), "input": "src"}])[1:]
    order_bad = [a for a in order if not (len(a["errors"]) == 1 and "src/bad.lua" in a["errors"][0]
                                          and a["files"].get("src/bad.lua") == bad_tree["src/bad.lua"]
                                          and a["files"].get("src/a.lua") == "--r1\n" + bad_tree["src/a.lua"])]
    ctx.stream("advance_work order: a file rejected by a filter is still parsed (model: ParseFailed before the filter)",
               len(order), len(order), [], mismatches=len(order_bad))
    if order_bad:
        bad.append((-1, "parse/filter order"))
        case_info[-1] = ("marks", json.dumps(order_bad[0])[:600])

    loc_findings = []
    loc_bad = location_stream(ctx, loc_findings)
    reuse_findings = []
    reuse_stream(ctx, reuse_findings)
    spelling_stream(ctx, reuse_findings)
    seen_reuse = set()
    for key, what, rep in reuse_findings:
        if key not in seen_reuse:
            seen_reuse.add(key)
            ctx.violation(what, rep, key=key)
    reported = set()
    for key, what, rep in loc_findings:
        if key.rsplit(":", 1)[0] in reported:
            continue
        reported.add(key.rsplit(":", 1)[0])
        if len(reported) <= 4:
            ctx.violation(what, rep, key=key)
    if loc_bad:
        bad.append((-3, "location stream"))
        case_info[-3] = ("marks", json.dumps({"config": loc_bad[0][0], "diag": loc_bad[0][1], "mismatches": len(loc_bad)}))
    for pat, f, got in glob_bad[:3]:
        ctx.violation("FilterPattern::matches disagrees with the documented glob semantics: pattern %r %s path %r"
                      % (pat, "matches" if got else "does not match", f),
                      {"pattern": pat, "path": f, "engine": got, "replay": "verif_hooks::filter_pattern_matches(pattern, path)"},
                      key="glob:%s:%s" % (pat, f))
    if glob_model_bad and not glob_bad:
        pi, diag = glob_model_bad[0]
        bad.append((-2, "glob model"))
        case_info[-2] = ("glob", json.dumps({"pattern": POOL[pi], "paths": all_paths, "model_row": diag,
                                             "engine_row": "".join("1" if engine[(POOL[pi], f)] else "0" for f in all_paths)}))
    for ruleset, text, src, why, got in oracle_bad[:4]:
        pos = "top" if "apply_to_files" in json.loads(text) or "skip_files" in json.loads(text) else "rule"
        ctx.violation("filter does not select exactly the matching files: " + why,
                      {"ruleset": ruleset, "config": text, "file": src, "output": got, "tree": "vlib/c20.py tree()",
                       "replay": "write the tree and this .darklua.json into memory resources, process(src)"},
                      key="select:%s:%s:%s" % (ruleset, pos, src))
    for ruleset, text, src in untouched_bad[:3]:
        ctx.violation("a file that is not an output of the run changed: " + src,
                      {"ruleset": ruleset, "config": text, "file": src}, key="untouched:%s:%s" % (ruleset, src))
    if bad and not ctx.violations:
        cid, diag = bad[0]
        ruleset, text = case_info[cid]
        ctx.violation("correspondence broken: rules applied by darklua differ from Model/Filters (theorems no longer apply "
                      "to the code); every output still equals the reference output of the selected rules",
                      {"ruleset": ruleset, "config": text, "diag_per_file": diag, "mismatches": len(bad)}, found_input=False)
    if not proofs_ok and not ctx.violations:
        failed = [n for n, ok, _ in ctx.obligations if not ok]
        ctx.violation("proof obligation no longer checks: " + "; ".join(failed), {"obligations": failed}, found_input=False)


# ---------------------------------------------------------------------------------------------
# where the configuration comes from must not change which path the patterns see

LOC_SOURCES = ["project/" + s for s in SOURCES] + ["project/top.lua", "project/lib/a.lua",
                                                    ".tests/a.lua", ".tests/sub/a.lua", "tests/a.lua", "tests/sub/a.lua"]
LOC_POOL = ["project/src/**", "src/**", "**/sub/a.lua", "project/**/a.lua", "src/*.lua", "project/src/*.lua", "*/src/a.lua",
            "project/*/a.lua", "**/src/**", "src/sub/**", "project/src/sub/**", "**", "a.lua", "project/src/a.lua", "src/a.lua",
            "project/*.lua", "*.lua", "lib/**", "project/lib/**", "**/lib/*", "project/src/x/**/a.lua", "src/x/**", "x/**",
            "top.lua", "project/top.lua", "sub/**", "project/src/sub/*.lua",
            ".tests/**", "tests/**", ".tests/*.lua", "tests/*.lua", "**/.tests/**", "*tests/**"]
LOC_EXTRA_INPUTS = [".tests", "tests"]          # only for the filters that mention them
LOCATIONS = [
    ("memory", {"config_memory": True}),                                           # Options::with_configuration
    ("root", {}),                                                                  # .darklua.json of the working directory
    ("ancestor", {"config_name": "project/.darklua.json5", "config_at": True}),    # with_configuration_at, above the sources
    ("ancestor-src", {"config_name": "project/src/.darklua.json", "config_at": True}),
    ("sibling", {"config_name": "conf/darklua.json", "config_at": True}),
]
LOC_INPUTS = ["project", "project/src"]


def location_stream(ctx, findings):
    """every configuration location x input: the top-level filter and a rule's filter see the collected source path
    (relative to the working directory), so the same pattern selects the same files at both levels, and both agree with
    the glob model / the python reading of the pattern applied to that path.  Returns (coq cases info, bad list)."""
    global POOL, POOL_INDEX
    saved = (POOL, POOL_INDEX)
    POOL = list(LOC_POOL)
    POOL_INDEX = {p: i for i, p in enumerate(POOL)}
    try:
        rng = random.Random(ctx.seed + 77)
        the_tree = {p: BODY % {"name": p} for p in LOC_SOURCES}
        the_tree["project/notes.txt"] = "not lua\n"
        m = talk([{"match": {"patterns": POOL, "paths": LOC_SOURCES}}])[0]
        if m.get("invalid"):
            raise C.CheckBroken("location pool contains a pattern darklua rejects: %r" % m["invalid"])
        spec = {(p, f): bool(glob_regex(p).fullmatch(f)) for p in POOL for f in LOC_SOURCES}
        for pi, p in enumerate(POOL):
            for fi, f in enumerate(LOC_SOURCES):
                if bool(m["match"][pi][fi]) != spec[(p, f)]:
                    findings.append(("glob:%s:%s" % (p, f), "FilterPattern::matches disagrees with the documented glob semantics: "
                                     "pattern %r, path %r" % (p, f), {"pattern": p, "path": f, "engine": bool(m["match"][pi][fi])}))
        # filter assignments: the same filter at the top level (T), on rule 2 (R), at both (B)
        flts = []
        for k, p in enumerate(POOL):
            flts.append({"apply_to_files": [p] if k % 2 else p, "skip_files": None})
            flts.append({"apply_to_files": None, "skip_files": p if k % 2 else [p]})
        for _ in range(12 if ctx.tier == "quick" else 300):
            flts.append({"apply_to_files": rng.choice(POOL), "skip_files": rng.sample(POOL, rng.choice([1, 2]))})
        requests = [{"tree": the_tree}]
        index = []
        for k, flt in enumerate(flts):
            for level in ("TRB" if (ctx.tier != "quick" or k % 3 == 0) else "TR"):
                top = flt if level in "TB" else EMPTY
                rules = [EMPTY, flt if level in "RB" else EMPTY, EMPTY]
                text = config_text("marks", top, rules)
                for loc, how in LOCATIONS:
                    for inp in LOC_INPUTS + (LOC_EXTRA_INPUTS if "tests" in text else []):
                        requests.append(dict({"id": len(requests), "config": text, "input": inp, "output": "out"}, **how))
                        index.append((flt, level, loc, inp, top, rules, text))
        answers = talk(requests)[1:]
        coq_cases, info = [], {}
        selected_by = {}           # (flt id, loc, inp, level) -> frozenset of files the filter let through
        nontrivial = 0
        for (flt, level, loc, inp, top, rules, text), ans in zip(index, answers):
            files = ans["files"]
            if not ans["ok"]:
                findings.append(("location:%s:%s:run" % (loc, inp), "run failed: %r" % ans["errors"][:2],
                                 {"config": text, "location": loc, "input": inp}))
                continue
            obs, through = [], set()
            for fi, src in enumerate(LOC_SOURCES):
                if not src.startswith(inp + "/"):
                    # not collected: untouched, nothing written for it
                    if files.get(src) != the_tree[src]:
                        findings.append(("location:%s:%s:uncollected" % (loc, inp), "a file outside the input changed: " + src,
                                         {"config": text, "location": loc, "input": inp}))
                    continue
                got = files.get("out/" + src[len(inp) + 1:])
                if got is None:
                    what = None
                else:
                    what, rest = [], got
                    while rest.startswith("--r") and rest[3:4].isdigit() and rest[4:5] == "\n":
                        what.append(int(rest[3]))
                        rest = rest[5:]
                    if rest != the_tree[src]:
                        what = "other"
                if not spec_selected(top, src, spec):
                    expect = None
                else:
                    expect = [i + 1 for i in range(3) if spec_selected(rules[i], src, spec)][::-1]
                if what != expect:
                    findings.append(("location:%s:%s:%s:%s" % (loc, inp, level, src),
                                     "with the configuration %s and input %s, the %s filter does not select by the collected source "
                                     "path: expected %r, observed %r" % (loc, inp, {"T": "top-level", "R": "rule", "B": "top-level+rule"}[level],
                                                                         expect, what),
                                     dict({"config": text, "input": inp, "output": "out", "file": src, "location": loc,
                                           "tree": "vlib/c20.py LOC_SOURCES"}, **dict(LOCATIONS)[loc])))
                if level == "T" and what is not None and what != "other":
                    through.add(src)
                if level == "R" and isinstance(what, list) and 2 in what:
                    through.add(src)
                obs.append((fi, what if what != "other" else [99]))
            selected_by[(id(flt), loc, inp, level)] = frozenset(through)
            if len({str(o) for _, o in obs}) > 1:
                nontrivial += 1
            cid = len(coq_cases)
            coq_cases.append((cid, "(%s, [%s], %s)" % (coq_filter(top), ";".join(coq_filter(f) for f in rules), coq_obs(obs))))
            info[cid] = (loc, inp, text)
        # the same filter selects the same files at both levels, wherever the configuration is (no glob reading involved)
        levels_bad = 0
        for flt in flts:
            for loc, _ in LOCATIONS:
                for inp in LOC_INPUTS + LOC_EXTRA_INPUTS:
                    t, r = selected_by.get((id(flt), loc, inp, "T")), selected_by.get((id(flt), loc, inp, "R"))
                    if t is not None and r is not None and t != r:
                        levels_bad += 1
                        findings.append(("location:%s:%s:levels" % (loc, inp),
                                         "the same filter selects different files at the top level and on a rule: %r vs %r"
                                         % (sorted(t ^ r), flt),
                                         {"filter": flt, "location": loc, "input": inp, "top_level": sorted(t), "rule": sorted(r)}))
        bad = C.run_coq_cases(ctx.prop, preamble(LOC_SOURCES), coq_cases, chunk=150 if ctx.tier == "quick" else 600, tag="location")
        ctx.stream("configuration location x input: top-level and rule filters see the collected source path (Coq glob+trace model "
                   "and python reading vs Rust; same files at both levels)", len(coq_cases) * len(LOC_SOURCES), nontrivial,
                   [{"location": info[k][0], "input": info[k][1], "config": info[k][2]} for k in list(info)[7:9]],
                   mismatches=len(bad) + levels_bad + sum(1 for k, _, _ in findings if k.startswith("location:")),
                   runs=len(coq_cases), locations=[l for l, _ in LOCATIONS], inputs=LOC_INPUTS, patterns=len(POOL))
        return [(info[cid][2], "location=%s input=%s files=%s" % (info[cid][0], info[cid][1], diag)) for cid, diag in bad]
    finally:
        POOL, POOL_INDEX = saved


# ---------------------------------------------------------------------------------------------
# a configuration edit on a re-used WorkerTree (the watch mode): one filter added / removed / edited

REUSE_RULES = [{"rule": "remove_comments"}, {"rule": "append_text_comment", "text": "r2"}, {"rule": "compute_expression"}]
REUSE_PATTERNS = ["src/sub/**", "**/a.lua", "src/*.lua", "**/deep/c.lua"]


def reuse_stream(ctx, findings):
    """process with configuration 1, replace the configuration file by configuration 2 (which differs in exactly one
    filter), tell the same WorkerTree (source_changed) and process again: the files must be those of a fresh
    darklua_core::process under configuration 2.  Rules 1 and 3 have no property (they are written as a bare name when
    they have no filter), rule 2 has one."""
    def cfg(top, flts):
        c = {"rules": [rule_json(REUSE_RULES[i], flts[i]) for i in range(3)], "generator": "retain_lines"}
        for key in ("apply_to_files", "skip_files"):
            if top.get(key) is not None:
                c[key] = top[key]
        return json.dumps(c)
    def place(pos, flt):
        top = flt if pos == 0 else EMPTY
        flts = [flt if pos == k + 1 else EMPTY for k in range(3)]
        return cfg(top, flts)
    edits = []
    for pos in range(4):
        for key in ("apply_to_files", "skip_files"):
            other = "skip_files" if key == "apply_to_files" else "apply_to_files"
            for k, p in enumerate(REUSE_PATTERNS):
                q = REUSE_PATTERNS[(k + 1) % len(REUSE_PATTERNS)]
                one = {key: p if k % 2 else [p], other: None}
                two = {key: [q] if k % 2 else q, other: None}
                both = {key: [p, q], other: None}
                edits.append(("added", pos, key, place(pos, EMPTY), place(pos, one)))
                edits.append(("removed", pos, key, place(pos, one), place(pos, EMPTY)))
                edits.append(("edited", pos, key, place(pos, one), place(pos, two)))
                edits.append(("pattern added", pos, key, place(pos, one), place(pos, both)))
                edits.append(("pattern removed", pos, key, place(pos, both), place(pos, two)))
    the_tree = tree()
    requests = [{"tree": the_tree}]
    fresh_index = {}
    for _, _, _, c1, c2 in edits:
        for c in (c1, c2):
            if c not in fresh_index:
                fresh_index[c] = len(requests)
                requests.append({"id": len(requests), "config": c, "input": "src", "output": "out"})
    first_reuse = len(requests)
    for _, _, _, c1, c2 in edits:
        requests.append({"id": len(requests), "config": c1, "config2": c2, "input": "src", "output": "out"})
    answers = talk(requests)
    differing = 0
    for k, (kind, pos, key, c1, c2) in enumerate(edits):
        reused, fresh, before = answers[first_reuse + k], answers[fresh_index[c2]], answers[fresh_index[c1]]
        if fresh["files"] != before["files"]:
            differing += 1
        if reused["ok"] == fresh["ok"] and reused["files"] == fresh["files"]:
            continue
        level = "top-level" if pos == 0 else "rule"
        wrong = sorted(f for f in set(reused["files"]) | set(fresh["files"]) if reused["files"].get(f) != fresh["files"].get(f))
        stale_rejected = level == "top-level" and reused["ok"] and all(
            f not in fresh["files"] and reused["files"].get(f) == before["files"].get(f) for f in wrong)
        if stale_rejected:
            fkey = "reuse:top-level:newly-rejected-file-keeps-previous-output"
        else:
            fkey = "reuse:%s:%s:%s" % (level, kind.replace(" ", "-"), key)
        findings.append((fkey, "after the configuration edit (%s %s, %s) the re-used WorkerTree leaves files that differ from a "
                         "fresh run with the new configuration: %s" % (level, key, kind, ", ".join(wrong[:4])),
                         {"config": c1, "config2": c2, "input": "src", "output": "out", "files_differing": wrong,
                          "reused": {f: reused["files"].get(f) for f in wrong[:3]},
                          "fresh": {f: fresh["files"].get(f) for f in wrong[:3]}, "tree": "vlib/c20.py tree()",
                          "replay": "process(config); write config2; tree.source_changed(.darklua.json); tree.process(...)"}))
    ctx.stream("configuration edit on a re-used WorkerTree (one filter added / removed / edited, top level and each rule, rules "
               "with and without properties) == fresh process() with the second configuration",
               len(edits) * len(SOURCES), differing, [{"first": edits[5][3], "second": edits[5][4]}],
               findings=sum(1 for _ in findings), edits=len(edits), fresh_runs=len(fresh_index))


# ---------------------------------------------------------------------------------------------
# the filters see the NORMALIZED source path however the input is spelled (directory and single-file inputs, with and
# without an output)

SPELLINGS = [
    # (normalized input, is a file, other spellings of it)
    ("project/src", False, ["./project/src", "project/./src", "project/src/", "project/src/../src", "project/lib/../src"]),
    ("project/src/a.lua", True, ["./project/src/a.lua", "project/src/./a.lua", "project/src/../src/a.lua", "project/./src/a.lua"]),
    ("project/src/sub/a.lua", True, ["./project/src/sub/a.lua", "project/src/sub/../sub/a.lua"]),
]
SPELL_FILTERS = [
    (EMPTY, [EMPTY, {"apply_to_files": "project/src/**", "skip_files": None}, EMPTY]),
    (EMPTY, [EMPTY, {"apply_to_files": None, "skip_files": ["project/src/*.lua"]}, EMPTY]),
    ({"apply_to_files": None, "skip_files": "project/src/a.lua"}, [EMPTY, EMPTY, EMPTY]),
    ({"apply_to_files": "project/src/*.lua", "skip_files": None}, [EMPTY, EMPTY, EMPTY]),
    ({"apply_to_files": ["project/**"], "skip_files": None}, [{"apply_to_files": None, "skip_files": "**/sub/a.lua"}, EMPTY,
                                                             {"apply_to_files": "**/a.lua", "skip_files": None}]),
    ({"apply_to_files": None, "skip_files": ["**/sub/**"]}, [EMPTY, {"apply_to_files": "project/src/a.lua", "skip_files": None}, EMPTY]),
]


def spelling_stream(ctx, findings):
    the_tree = {p: BODY % {"name": p} for p in LOC_SOURCES}
    spec = {}
    def sel(flt, f):
        ap, sk = as_list(flt.get("apply_to_files")), as_list(flt.get("skip_files"))
        for p in ap + sk:
            if (p, f) not in spec:
                spec[(p, f)] = bool(glob_regex(p).fullmatch(f))
        return (not ap or any(spec[(p, f)] for p in ap)) and not any(spec[(p, f)] for p in sk)
    requests = [{"tree": the_tree}]
    index = []
    for top, rules in SPELL_FILTERS:
        text = config_text("marks", top, rules)
        for norm, is_file, others in SPELLINGS:
            for with_output in (True, False):
                output = None if not with_output else ("out/single.lua" if is_file else "out")
                for spelled in [norm] + others:
                    requests.append({"id": len(requests), "config": text, "input": spelled, "output": output})
                    index.append((top, rules, text, norm, is_file, output, spelled))
    answers = talk(requests)[1:]
    reference = {}
    bad = 0
    for (top, rules, text, norm, is_file, output, spelled), ans in zip(index, answers):
        key = (text, norm, output)
        rep = {"config": text, "input": spelled, "output": output, "normalized_input": norm, "tree": "vlib/c20.py LOC_SOURCES"}
        if spelled == norm:
            reference[key] = ans
            # the normalized spelling itself against the python reading of the patterns
            for src in LOC_SOURCES:
                collected = src == norm if is_file else src.startswith(norm + "/")
                if not collected:
                    expect_src, expect_out = the_tree[src], None
                else:
                    marks = None if not sel(top, src) else [i + 1 for i in range(3) if sel(rules[i], src)][::-1]
                    text_out = None if marks is None else "".join("--r%d\n" % k for k in marks) + the_tree[src]
                    if output is None:
                        expect_src, expect_out = (text_out if text_out is not None else the_tree[src]), None
                    else:
                        expect_src, expect_out = the_tree[src], text_out
                outp = None if output is None else (output if is_file else "out/" + src[len(norm) + 1:])
                got_out = ans["files"].get(outp) if (outp and collected) else None
                if not ans["ok"] or ans["files"].get(src) != expect_src or (collected and outp and got_out != expect_out):
                    bad += 1
                    findings.append(("spelling:%s:%s" % (norm, "output" if output else "in-place"),
                                     "input %s: the filters do not select by the normalized source path (%s)" % (spelled, src),
                                     dict(rep, file=src, errors=ans["errors"][:2])))
                    break
            continue
        ref = reference[key]
        if ans["ok"] != ref["ok"] or ans["files"] != ref["files"]:
            bad += 1
            wrong = sorted(f for f in set(ans["files"]) | set(ref["files"]) if ans["files"].get(f) != ref["files"].get(f))
            findings.append(("spelling:%s:%s" % (norm, "output" if output else "in-place"),
                             "input spelled %r does not behave as %r (files differing: %s)" % (spelled, norm, ", ".join(wrong[:4])),
                             dict(rep, files_differing=wrong, errors=ans["errors"][:2])))
    ctx.stream("spelling of the input (directory and single file, `./`, `/./`, `/../`, trailing `/`; with and without an output): "
               "same files as with the normalized input, which agree with the python reading of the patterns",
               len(index) * len(LOC_SOURCES), len(index), [{"input": index[3][6], "config": index[3][2]}], mismatches=bad, runs=len(index))


def replay(ctx, path):
    r = json.load(open(path))
    print(json.dumps(r, indent=1))
    rep = r.get("replay", {})
    if "config" in rep and "ruleset" in rep:
        C.build_harness("dl-c20")
        _, _, inp, outp = RULESETS[rep["ruleset"]]
        job = {"id": 0, "config": rep["config"], "input": rep.get("input", inp), "output": rep.get("output", outp)}
        if "config2" in rep:
            job["config2"] = rep["config2"]
        ans = talk([{"tree": tree()}, job])[1]
        print(json.dumps(ans, indent=1))
    return 0
